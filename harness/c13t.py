"""C13 extension: the registered TREs (called from harness/c13.py, not a check of its own).

proof side : lean/SarpyModel/Props/C13x.lean (codec theorems of the extended format language, re-proved with the TRE leaf /
             expression / condition forms), lean/SarpyModel/Props/C13t.lean (TAG + CEL envelope around any well-formed payload
             description), lean/SarpyModel/Gen/TreTables.lean (the description of every registered TRE, regenerated from the
             current source by translate/tables_tre.py, each kernel-decided well formed; the theorems instantiated on all of them)
tie        : translator (AST of the TRE modules, symbolic execution of the `__init__` bodies) + cross-check of the translation:
             payload VALUES are generated from each description (every branch of every condition, loop counts 0..3 and larger,
             values at the width limits, digits / text / binary), encoded by the Lean codec through the driver (`tre enc`),
             the bytes are given to sarpy (registered class `.from_bytes`, `TRE.from_bytes`) and the decoded object is compared
             field by field with the generated value, `to_bytes()` byte by byte with the Lean encoding, `get_bytes_length()` with
             the Lean length; the Lean decoder (`tre dec`) and a python mirror of the encoder are compared on the same bytes
search     : the property on the implementation alone (len(to_bytes()) == get_bytes_length() incl. the 11-byte envelope,
             from_bytes(to_bytes(x)) has the same fields, to_bytes(from_bytes(b)) == b for conformant b) on every payload; a
             committed snapshot of the descriptions (translate/tre_snapshot.json) is the pinned layout: when the regenerated
             description of a TRE differs from it (or the TRE no longer translates), payloads conformant to the PINNED layout are
             generated in quantity and sarpy must still read them field by field as pinned

Use from c13.py:
    t = c13t.Session(chk, tier)      # regenerates Gen/TreTables*.lean (before the driver is built)
    broken += t.prove()
    t.enqueue(drv) ; ans = drv.run() ; fails, disagreements, stats = t.collect(ans)
"""
import json
import os
import struct
import sys

from common import VERIF, LEAN, ALLOWED_AXIOMS, audit, lake_build, sh

sys.path.insert(0, os.path.join(VERIF, 'translate'))

REQUIRED_T = ['acceptInt_cel', 'okTre_iff', 'encTre_length', 'decTre_encTre', 'decTre_rest_independent', 'encTre_injective', 'okTre_length',
              'sample_wf', 'restLike_wf', 'maskLike_wf']
REQUIRED_X = ['strip_encStr', 'dec_tstr', 'acceptTStr_iff']          # added to Props.C13x for the TRE text leaf
TARGETS = ['SarpyModel.Props.C13t', 'SarpyModel.Gen.TreTables']
TRAILER = b'\x07TRAILER'
KEY_NONASCII = 'TRE-text-field:non-ascii-text-is-padded-by-characters-not-bytes'
TEXT = 'ABCDEFGHIJKLMNOPQRSTUVWXYZ0123456789 _-/.:+abcxyz'


def hx(b):
    return bytes(b).hex() or '-'


def norm(tree):
    return json.loads(json.dumps(tree))


# --------------------------------------------------------------------------------------------- description analysis

def rec_fields(n):
    return n[1]


def walk_nodes(n, fn, depth=0):
    """fn(field, inner node, condition or None, depth) for every field of every record"""
    for f in rec_fields(n):
        node = f['node']
        c = None
        if node[0] == 'cond':
            c, node = node[1], node[2]
        fn(f, node, c, depth)
        if node[0] == 'loop':
            walk_nodes(node[2], fn, depth + 1)


def analyse(tree):
    import tables_tre as T
    uses = {}

    def u(i):
        return uses.setdefault(i, {'consts': set(), 'pos': False, 'masks': [], 'count': False, 'len': False, 'read': set()})

    def cond(c):
        k = c[0]
        if k == 'strIn':
            u(c[1])['consts'] |= set(c[3])
        elif k == 'pos':
            u(c[1])['pos'] = True
            u(c[1])['read'].add('var')
        elif k == 'posDec':
            u(c[1])['pos'] = True
            u(c[1])['read'].add('dec')
        elif k == 'bit':
            u(c[1])['masks'].append(c[2])
        elif k == 'not':
            cond(c[1])
        elif k == 'and':
            cond(c[1])
            cond(c[2])

    def expr(e, role):
        k = e[0]
        if k in ('var', 'dec', 'be'):
            u(e[1])[role] = True
            u(e[1])['read'].add(k)
        elif k in ('mul', 'add', 'sub'):
            expr(e[1], role)
            expr(e[2], role)
        elif k in ('div', 'ceilDiv'):
            expr(e[1], role)
        elif k == 'ite':
            cond(e[1])
            expr(e[2], role)
            expr(e[3], role)

    conds, loops = [], []

    def visit(f, node, c, depth):
        if c is not None:
            cond(c)
            conds.append(f['id'])
        if node[0] in ('tstr', 'raw'):
            expr(node[1], 'len')
        elif node[0] == 'loop':
            expr(node[1], 'count')
            loops.append(f['id'])
    walk_nodes(tree, visit)
    return uses, conds, loops


# --------------------------------------------------------------------------------------------- values: generate / encode / print / read back

class Oversize(Exception):
    pass


class Generator:
    """payload values of one description; coverage of condition polarities and loop-count classes is accumulated"""

    def __init__(self, name, tree, rng):
        self.name = name
        self.tree = tree
        self.rng = rng
        self.uses, self.conds, self.loops = analyse(tree)
        self.cov_cond = {i: set() for i in self.conds}
        self.cov_loop = {i: set() for i in self.loops}
        self.kinds = {}
        self.picked = {}
        self.force = {}             # field id -> value (boundary cases: a count at its capacity)
        self.k = 0

    # ---- leaf values
    def driver_value(self, hi):
        """a small count / length: the preferred class of this payload, else 0..3, rarely larger"""
        r = self.rng
        pref = self.pref
        if pref == 'big' and not self.big_used and hi > 3:
            self.big_used = True
            return r.randint(4, min(hi, 12))
        if pref != 'big' and r.random() < 0.6:
            return min(pref, hi)
        return min(r.choice([0, 1, 1, 2, 2, 3]), hi)

    def length_value(self, hi):
        r = self.rng
        return min(r.choice([0, 1, 2, 5, hi if hi <= 999 else 99, r.randint(0, min(hi, 40))]), hi)

    def text(self, w, avoid=()):
        r = self.rng
        for _ in range(20):
            n = min(w, r.choice([0, 1, w, w, max(0, w - 1), r.randint(0, w)]))
            style = r.choice(['text', 'text', 'digits', 'mixed'])
            if style == 'digits':
                s = ''.join(r.choice('0123456789') for _ in range(n))
            elif style == 'mixed':
                s = ''.join(r.choice('0123456789+-.E') for _ in range(n))
            else:
                s = ''.join(r.choice(TEXT) for _ in range(n))
            s = s.strip()
            if s not in avoid:
                return s
        return ''

    def leaf(self, f, node, env):
        import tables_tre as T
        r = self.rng
        use = self.uses.get(f['id'])
        k = node[0]
        if f['id'] in self.force:
            return self.force[f['id']]
        if k == 'int':
            w = node[1]
            hi = 10 ** w - 1
            if use and (use['count'] or use['len'] or use['pos']):
                if use['len'] and not use['count']:
                    return self.length_value(hi)
                return self.driver_value(hi)
            lo = 0 if w == 1 else -(10 ** (w - 1)) + 1
            self.kinds['int'] = self.kinds.get('int', 0) + 1
            return r.choice([0, 1, hi, lo, r.randint(lo, hi), r.randint(0, hi)])
        w = T.eval_expr(node[1], env)
        if k == 'tstr':
            self.kinds['text'] = self.kinds.get('text', 0) + 1
            if use and 'dec' in use['read']:
                n = self.driver_value(10 ** min(w, 6) - 1) if w else 0
                if use['consts'] and r.random() < 0.3:
                    fit = sorted(c for c in use['consts'] if len(c) <= w and c == c.strip())
                    if fit:
                        return r.choice(fit)
                return (str(n).zfill(w) if r.random() < 0.5 else str(n)) if w else ''
            if use and use['consts']:
                # round robin over the compared constants and "anything else": every branch is reached within a few payloads
                fit = sorted(c for c in use['consts'] if len(c) <= w and c == c.strip())
                tally = self.picked.setdefault(f['id'], {})
                if not fit or r.random() < max(0.25, 1.0 / (len(fit) + 1)):
                    c = None
                else:
                    least = min(tally.get(c, 0) for c in fit)
                    c = r.choice([c for c in fit if tally.get(c, 0) == least]) if r.random() < 0.85 else r.choice(fit)
                tally[c] = tally.get(c, 0) + 1
                return self.text(w, avoid=use['consts']) if c is None else c
            return self.text(w)
        if k == 'raw':
            if f.get('typ') == 'f':
                self.kinds['float'] = self.kinds.get('float', 0) + 1
                v = r.choice([0.0, -0.0, 1.0, -1.5, 3.4028234663852886e+38, 1e-45, float('inf'), float('-inf'), r.uniform(-1e6, 1e6), r.random()])
                return struct.pack('>f', v)
            self.kinds['binary'] = self.kinds.get('binary', 0) + 1
            if use and use['masks']:
                # bits of the tested masks at a density chosen per field value: all clear, sparse, half, dense, all set
                p = r.choice([0.0, 0.15, 0.5, 0.5, 0.85, 1.0])
                v = 0
                for m in use['masks']:
                    for i in range(m.bit_length()):
                        if m >> i & 1 and r.random() < p:
                            v |= 1 << i
                return (v & ((1 << (8 * w)) - 1)).to_bytes(w, 'big') if w else b''
            if use and 'be' in use['read'] and w:
                return self.driver_value(256 ** w - 1 if w < 3 else 10 ** 6).to_bytes(w, 'big') if r.random() < 0.5 else \
                    min(self.driver_value(10 ** 6) + 1, 256 ** w - 1).to_bytes(w, 'big')
            if use and 'dec' in use['read'] and w:
                return str(self.driver_value(10 ** w - 1)).zfill(w).encode()
            style = r.choice(['rand', 'rand', 'zero', 'ff', 'ascii'])
            if style == 'zero':
                return bytes(w)
            if style == 'ff':
                return b'\xff' * w
            if style == 'ascii':
                return bytes(r.randrange(32, 127) for _ in range(w))
            return bytes(r.randrange(256) for _ in range(w))
        raise ValueError(k)

    # ---- records
    def rec(self, n, env, flags):
        import tables_tre as T
        if len(n) > 2 and n[2].get('raises'):
            flags['raises'] |= set(n[2]['raises'])
        vals = []
        for f in rec_fields(n):
            node = f['node']
            if node[0] == 'cond':
                p = T.eval_cond(node[1], env)
                self.cov_cond[f['id']].add(p)
                if not p:
                    vals.append(None)
                    env[f['id']] = None
                    continue
                node = node[2]
            if f.get('dup_key'):
                flags['dups'].add(f['dup_key'])
            if node[0] == 'loop':
                cnt = T.eval_expr(node[1], env)
                self.cov_loop[f['id']].add(cnt if cnt <= 3 else '>3')
                self.budget -= cnt
                if self.budget < 0:
                    raise Oversize()
                items = [self.rec(node[2], dict(env), flags) for _ in range(cnt)]
                vals.append(items)
                env[f['id']] = None
            else:
                v = self.leaf(f, node, env)
                self.budget -= len(v) if isinstance(v, (bytes, str)) else 0
                if self.budget < 0:
                    raise Oversize()
                vals.append(v)
                env[f['id']] = v
        return vals

    def _once(self, cel):
        import tables_tre as T
        self.big_used = False
        self.budget = 9000 if (self.attempt < 30 and not self.force) else 10 ** 6      # a layout whose fixed part alone exceeds the budget still gets payloads
        flags = {'raises': set(), 'dups': set()}
        val = self.rec(self.tree, {T.CEL: cel}, flags)
        return val, flags

    def payload(self):
        """(value, flags, payload length).  CEL (parameter 1) only enters the length of a "rest of the payload" field: the value is
        generated twice from the same PRNG state, first with CEL = 0 (the remainder is empty), then with CEL = that length + r"""
        import tables_tre as T
        uses_cel = bool(self.uses.get(T.CEL))
        for attempt in range(40):
            self.pref = [1, 2, 0, 3, 'big'][self.k % 5] if attempt < 20 else (1 if attempt < 30 else 0)
            self.attempt = attempt
            self.k += 1
            state = self.rng.getstate()
            kinds = dict(self.kinds)
            try:
                val, flags = self._once(0)
                n = len(encode_py(self.tree, val, {T.CEL: 0}))
                if not uses_cel:
                    return val, flags, n
                cel = n + [0, 1, 0, 7][self.k % 4]
                self.rng.setstate(state)
                self.kinds = kinds
                val, flags = self._once(cel)
                if len(encode_py(self.tree, val, {T.CEL: cel})) == cel:
                    return val, flags, cel
            except Oversize:
                continue
        raise RuntimeError(f'{self.name}: no payload within the size budget')

    def uncovered(self):
        return [i for i, s in self.cov_cond.items() if len(s) < 2]


def encode_py(n, vals, env, rjust=False):
    """python mirror of Spec.FieldFmt2.enc on a record value (validated against the Lean encoder on every payload);
    rjust=True writes every text value right-justified instead (leading blanks: NOT the canonical form, but the same stored value)"""
    import tables_tre as T
    env = dict(env)
    out = []
    for f, v in zip(rec_fields(n), vals):
        node = f['node']
        if node[0] == 'cond':
            if v is None:
                env[f['id']] = None
                continue
            node = node[2]
        k = node[0]
        if k == 'int':
            out.append(('{:0' + str(node[1]) + 'd}').format(v).encode() if node[1] else b'')
            env[f['id']] = v
        elif k == 'tstr':
            w = T.eval_expr(node[1], env)
            out.append(v.encode('utf-8').rjust(w) if rjust else v.encode('utf-8').ljust(w))
            env[f['id']] = v
        elif k == 'raw':
            out.append(bytes(v))
            env[f['id']] = v
        elif k == 'loop':
            for item in v:
                out.append(encode_py(node[2], item, env, rjust))
            env[f['id']] = None
    return b''.join(out)


def to_line(n, vals):
    """line-protocol syntax of a record value (Drivers/FieldFmt2.lean)"""
    out = []
    for f, v in zip(rec_fields(n), vals):
        node = f['node']
        if node[0] == 'cond':
            if v is None:
                out.append('N')
                continue
            node = node[2]
        k = node[0]
        if k == 'int':
            out.append(f'i{v}')
        elif k == 'tstr':
            out.append('s' + hx(v.encode('utf-8')))
        elif k == 'raw':
            out.append('r' + hx(v))
        elif k == 'loop':
            out.append('[' + ';'.join(to_line(node[2], item) for item in v) + ']')
    return '[' + ';'.join(out) + ']'


class Mismatch(Exception):
    pass


def from_obj(n, obj, env, path=''):
    """the value sarpy holds, read off the decoded element by the description; the order in which sarpy added the attributes
    must be the order of the present fields"""
    import tables_tre as T
    env = dict(env)
    vals, present = [], []
    for f in rec_fields(n):
        node = f['node']
        if node[0] == 'cond':
            if not T.eval_cond(node[1], env):
                vals.append(None)
                env[f['id']] = None
                continue
            node = node[2]
        name = f['name']
        k = node[0]
        if f['via'] == 'forrange':
            cnt = T.eval_expr(node[1], env)
            items = []
            for i in range(cnt):
                item = []
                for g in rec_fields(node[2]):
                    nm = eval(g['name_src'], {'__builtins__': {}}, {g['index_var']: i})
                    present.append(nm)
                    if not hasattr(obj, nm):
                        raise Mismatch(f'{path}{nm}: attribute missing')
                    item.append(leaf_from(g, g['node'], getattr(obj, nm), path + nm))
                items.append(item)
            vals.append(items)
            env[f['id']] = None
            continue
        present.append(name)
        if not hasattr(obj, name):
            raise Mismatch(f'{path}{name}: attribute missing')
        a = getattr(obj, name)
        if k == 'loop':
            try:
                entries = list(a)
            except TypeError:
                raise Mismatch(f'{path}{name}: not a loop')
            vals.append([from_obj(node[2], e, env, f'{path}{name}[{j}].') for j, e in enumerate(entries)])
            env[f['id']] = None
        else:
            v = leaf_from(f, node, a, path + name)
            vals.append(v)
            env[f['id']] = v
    order = list(getattr(obj, '_field_ordering', []))
    if order != present:
        d = next((i for i in range(min(len(order), len(present))) if order[i] != present[i]), min(len(order), len(present)))
        raise Mismatch(f'{path}: sarpy added the attributes {order[max(0, d - 1):d + 3]} where the description has {present[max(0, d - 1):d + 3]} (position {d})')
    return vals


def leaf_from(f, node, a, where):
    k = node[0]
    if k == 'int':
        if not isinstance(a, int) or isinstance(a, bool):
            raise Mismatch(f'{where}: {a!r} is not an int')
        return a
    if k == 'tstr':
        if not isinstance(a, str):
            raise Mismatch(f'{where}: {a!r} is not text')
        return a
    if f.get('typ') == 'f':
        if not isinstance(a, float):
            raise Mismatch(f'{where}: {a!r} is not a float')
        return struct.pack('>f', a)
    if not isinstance(a, (bytes, bytearray)):
        raise Mismatch(f'{where}: {a!r} is not bytes')
    return bytes(a)


def first_diff(a, b, n, path=''):
    """human-readable place where two record values differ"""
    for f, x, y in zip(rec_fields(n), a, b):
        if x == y:
            continue
        node = f['node'][2] if f['node'][0] == 'cond' else f['node']
        if node[0] == 'loop' and isinstance(x, list) and isinstance(y, list):
            if len(x) != len(y):
                return f'{path}{f["name"]}: {len(x)} items vs {len(y)}'
            for j, (p, q) in enumerate(zip(x, y)):
                if p != q:
                    return first_diff(p, q, node[2], f'{path}{f["name"]}[{j}].')
        return f'{path}{f["name"]}: {x!r} vs {y!r}'
    return f'{path}: lengths {len(a)} vs {len(b)}'


def envelope(tag, payload):
    return '{0:6s}{1:05d}'.format(tag, len(payload)).encode() + payload


def canon_dict(o):
    if isinstance(o, dict):
        return {k: canon_dict(v) for k, v in o.items()}
    if isinstance(o, (list, tuple)):
        return [canon_dict(v) for v in o]
    if isinstance(o, bytes):
        return 'b:' + o.hex()
    if isinstance(o, float):
        return 'f:' + struct.pack('>d', o).hex()
    return o


# --------------------------------------------------------------------------------------------- the property on the implementation alone

def find_class(name):
    from sarpy.io.general.nitf_elements.tres import registration
    return registration.find_tre(name)


def oracle(name, env_bytes, expect_refusal=False, origin='description'):
    """byte-level statement of the property for one tagged record given as bytes; returns (messages, decoded object or None)"""
    from sarpy.io.general.nitf_elements.base import TRE, UnknownTRE
    msgs = []
    cls = find_class(name)
    if cls is None:
        return [f'{name}: no registered TRE class of this name'], None
    try:
        obj = cls.from_bytes(env_bytes + TRAILER, 0)
    except Exception as e:
        obj = None
        if not expect_refusal:
            msgs.append(f'{name}: from_bytes of a payload conformant to the {origin} raised {type(e).__name__}: {str(e)[:160]}')
    if obj is not None and expect_refusal:
        msgs.append(f'{name}: from_bytes succeeds although the source reads an attribute of an enclosing element here')
    # the container path: whatever happens, the record must survive byte for byte
    try:
        t = TRE.from_bytes(env_bytes + TRAILER, 0)
        tb = t.to_bytes()
        if t.get_bytes_length() != len(tb):
            msgs.append(f'{name}: TRE.from_bytes(..).get_bytes_length() = {t.get_bytes_length()} but len(to_bytes()) = {len(tb)}')
        if t.get_bytes_length() != len(env_bytes):
            msgs.append(f'{name}: a record of {len(env_bytes)} bytes is decoded to an object of {t.get_bytes_length()} bytes')
        elif tb != env_bytes:
            i = next((k for k in range(len(tb)) if tb[k] != env_bytes[k]), 0)
            msgs.append(f'{name}: TRE.from_bytes(b).to_bytes() differs from b at byte {i}')
        if expect_refusal and not isinstance(t, UnknownTRE):
            msgs.append(f'{name}: TRE.from_bytes returns {type(t).__name__}, an UnknownTRE fallback was expected')
    except Exception as e:
        msgs.append(f'{name}: TRE.from_bytes raised {type(e).__name__}: {str(e)[:160]}')
    if obj is None:
        return msgs, None
    try:
        b2 = obj.to_bytes()
        ln = obj.get_bytes_length()
        if len(b2) != ln:
            msgs.append(f'{name}: len(to_bytes()) = {len(b2)} but get_bytes_length() = {ln}')
        if obj.EL + 11 != ln:
            msgs.append(f'{name}: EL = {obj.EL} but get_bytes_length() = {ln}')
        if ln != len(env_bytes):
            msgs.append(f'{name}: decoded object reports {ln} bytes for a record of {len(env_bytes)} bytes')
        if b2 != env_bytes:
            i = next((k for k in range(min(len(b2), len(env_bytes))) if b2[k] != env_bytes[k]), min(len(b2), len(env_bytes)))
            msgs.append(f'{name}: to_bytes(from_bytes(b)) differs from b at byte {i} (lengths {len(env_bytes)} -> {len(b2)})')
        back = cls.from_bytes(b2 + TRAILER, 0)
        if json.dumps(canon_dict(back.DATA.to_dict()), sort_keys=True) != json.dumps(canon_dict(obj.DATA.to_dict()), sort_keys=True):
            msgs.append(f'{name}: from_bytes(to_bytes(x)) has different field values than x')
        if back.get_bytes_length() != ln:
            msgs.append(f'{name}: from_bytes(to_bytes(x)) reports {back.get_bytes_length()} bytes, x reports {ln}')
    except Exception as e:
        msgs.append(f'{name}: to_bytes / re-decoding raised {type(e).__name__}: {str(e)[:160]}')
    return msgs, obj


# --------------------------------------------------------------------------------------------- the session used by c13.py

class Session:
    def __init__(self, chk, tier, rng=None):
        import tables_tre
        self.chk = chk
        self.tier = tier
        self.rng = rng or chk.rng
        self.gen = tables_tre.generate(os.path.join(VERIF, 'lean', 'SarpyModel', 'Gen', 'TreTables.lean'))
        self.tres = {n: dict(t, tree=norm(t['tree'])) for n, t in self.gen['tres'].items()}
        self.snapshot = tables_tre.load_snapshot()
        self.jobs = []
        self.fails = []
        self.disagreements = []
        self.stats = {}
        self.cov = {}

    # ---- proof side
    def prove(self):
        chk = self.chk
        broken = []
        ok, failed, errors, log = lake_build(TARGETS + ['SarpyModel.Drivers'])
        need_gen = list(self.gen['wf_theorems'])
        if not ok:
            broken += [f'{m} (lake build failed)' for m in failed] or ['lake build failed (C13t)']
            chk.coverage.setdefault('build_errors', [])
            chk.coverage['build_errors'] += [f'{f}:{l}:{c}: {m}' for f, l, c, m in errors[:20]]
            chk.coverage['obligations'] = chk.coverage.get('obligations', 0) + len(REQUIRED_T) + len(need_gen)
        else:
            t1 = audit('SarpyModel.Props.C13t', 'Sarpy.Props.C13t')
            t2 = audit('SarpyModel.Gen.TreTables', 'Sarpy.Gen.Tre')
            tx = audit('SarpyModel.Props.C13x', 'Sarpy.Props.C13x')
            allt = dict(t1)
            allt.update(t2)
            bad = {n: a for n, a in allt.items() if set(a) - ALLOWED_AXIOMS}
            missing = [f'Sarpy.Props.C13t.{r}' for r in REQUIRED_T if f'Sarpy.Props.C13t.{r}' not in t1]
            missing += [f'Sarpy.Gen.Tre.{r}' for r in need_gen if f'Sarpy.Gen.Tre.{r}' not in t2]
            missing += [f'Sarpy.Props.C13x.{r}' for r in REQUIRED_X if f'Sarpy.Props.C13x.{r}' not in tx]
            for n, a in bad.items():
                broken.append(f'{n} depends on non-standard axioms {sorted(set(a) - ALLOWED_AXIOMS)}')
            for r in missing:
                broken.append(f'{r} (required theorem missing)')
            chk.coverage['obligations'] = chk.coverage.get('obligations', 0) + len(allt) + len(missing)
            chk.coverage['discharged'] = chk.coverage.get('discharged', 0) + len(allt) - len(bad)
            chk.coverage['theorems'] = sorted(set(chk.coverage.get('theorems', [])) | {'C13t.' + n[len('Sarpy.Props.C13t.'):] for n in t1}
                                              | {'Tre.' + n[len('Sarpy.Gen.Tre.'):] for n in t2})
            chk.coverage['axioms_used'] = sorted(set(chk.coverage.get('axioms_used', [])) | {a for v in allt.values() for a in v})
        chk.coverage['checker_cmd_c13t'] = 'cd lean && lake build ' + ' '.join(TARGETS) + ' && lake env lean .lake/audit/Audit_Sarpy_Props_C13t.lean'
        if ok and self.tier == 'thorough':
            mods = ['SarpyModel.Props.C13x', 'SarpyModel.Props.C13t', 'SarpyModel.Gen.TreTables']
            rc, out, err = sh(['lake', 'env', 'leanchecker'] + mods, cwd=LEAN, timeout=3000)
            chk.coverage['leanchecker_c13t'] = {'modules': mods, 'ok': rc == 0}
            chk.coverage['checker_cmd_c13t'] += ' && lake env leanchecker ' + ' '.join(mods)
            if rc != 0:
                broken.append('leanchecker rejects ' + ' '.join(mods) + ': ' + (out + err)[-400:])
        # a TRE that was translated when the snapshot was taken and no longer is: the obligation "every registered TRE has a
        # kernel-checked description" is broken for it
        snap = self.snapshot or {'tres': {}, 'untranslated': {}}
        for n, u in self.gen['untranslated'].items():
            if n not in snap.get('untranslated', {}):
                broken.append(f'tables_tre: {n} is not translated any more: {u["construct"]} (line {u["line"]})')
        for n in self.gen['snapshot_diff'].get('removed', []):
            if n not in self.gen['untranslated']:
                broken.append(f'tables_tre: the registered TRE {n} of the pinned snapshot no longer exists')
        chk.coverage.setdefault('translator', {})
        if isinstance(chk.coverage['translator'], dict):
            chk.coverage['translator']['tables_tre'] = {
                'translated': len(self.tres), 'untranslated': self.gen['untranslated'], 'dispatch': self.gen['dispatch'],
                'defects': [{k: v for k, v in d.items() if k != 'path'} for d in self.gen['defects']], 'guards': self.gen['guards'],
                'snapshot_diff': self.gen['snapshot_diff'], 'source_hashes': self.gen['source_hashes'], 'changed': self.gen['changed']}
        return broken

    # ---- correspondence + oracle
    def counts(self):
        return (5, 14) if self.tier == 'quick' else (200, 260)

    def classify(self, name, flags):
        for k in sorted(flags.get('dups', ())):
            return k
        return None

    def enqueue(self, drv):
        st = self.stats
        self.jobs.append(('tables', None, None, drv.ask('tre tables'), None))
        self.jobs.append(('dispatch', None, None, drv.ask('tre dispatch'), None))
        nmin, nmax = self.counts()
        diff = self.gen['snapshot_diff']
        widened = set(diff.get('changed', [])) | set(diff.get('added', []))
        for name in sorted(self.tres):
            t = self.tres[name]
            g = Generator(name, t['tree'], self.rng)
            n_lo, n_hi = (nmin * 4, nmax * 4) if name in widened else (nmin, max(nmax, min(40, nmin + 2 * len(g.loops) + len(g.conds) // 8)))
            k = 0
            while k < n_lo or (k < n_hi and g.uncovered()):
                k += 1
                val, flags, ln = g.payload()
                self.one_payload(drv, name, t, val, flags, first=(k <= 2))
            self.cov[name] = {'payloads': k,
                              'conditions': f'{sum(len(s) for s in g.cov_cond.values())}/{2 * len(g.cov_cond)}',
                              'uncovered_conditions': [t['names'].get(str(i), t['names'].get(i, i)) for i in g.uncovered()],
                              'loop_counts': {str(t['names'].get(str(i), t['names'].get(i, i))): sorted(map(str, s)) for i, s in g.cov_loop.items()},
                              'leaf_kinds': g.kinds}
        self.captured(drv)
        self.dispatch_cases()
        self.probe_cases()
        self.snapshot_search(drv)

    def one_payload(self, drv, name, t, val, flags, first=False):
        import tables_tre as T
        st = self.stats
        st['t_payloads'] = st.get('t_payloads', 0) + 1
        payload = encode_py(t['tree'], val, {T.CEL: 0})
        if len(payload) > 99999:
            st['t_oversize'] = st.get('t_oversize', 0) + 1
            return
        envb = envelope(t['tag'], payload)
        key = self.classify(name, flags)
        refusal = bool(flags['raises'])
        msgs, obj = oracle(name, envb, expect_refusal=refusal)
        if refusal:
            st['t_expected_refusals'] = st.get('t_expected_refusals', 0) + 1
        for m in msgs:
            f = {'kind': 'tre', 'msg': m, 'case': name, 'tre': name, 'bytes': envb.hex()}
            if key:
                f['key'] = key
            self.fails.append(f)
        # decode side of the correspondence: the object sarpy built, read by the description, is the generated value
        if obj is not None:
            st['t_decoded'] = st.get('t_decoded', 0) + 1
            try:
                got = from_obj(t['tree'], obj.DATA, {T.CEL: len(payload)})
                if got != val:
                    self.disagree(name, key, 'sarpy decodes the payload to other field values than the description: ' + first_diff(val, got, t['tree']), envb)
            except Mismatch as e:
                self.disagree(name, key, 'the decoded object does not have the shape of the description: ' + str(e), envb)
        i_enc = drv.ask(f'tre enc {name} {to_line(t["tree"], val)}')
        i_dec = drv.ask(f'tre dec {name} {hx(envb + TRAILER)}')
        self.jobs.append((name, val, envb, i_enc, i_dec))
        if first and not refusal and not key:
            self.variant(drv, name, t, val, envb)

    def variant(self, drv, name, t, val, envb):
        """the same value written with right-justified text (not canonical): same length, same field values, and re-encoding gives the
        canonical record; the lenient model decoder reads the same value and the strict one says "not conformant" unless nothing moved"""
        import tables_tre as T
        st = self.stats
        alt = envelope(t['tag'], encode_py(t['tree'], val, {T.CEL: 0}, rjust=True))
        st['t_rjust_variants'] = st.get('t_rjust_variants', 0) + 1
        cls = find_class(name)
        try:
            obj = cls.from_bytes(alt + TRAILER, 0)
            got = from_obj(t['tree'], obj.DATA, {T.CEL: len(alt) - 11})
            if got != val:
                self.disagree(name, None, 'right-justified text: sarpy decodes other field values: ' + first_diff(val, got, t['tree']), alt)
            if obj.get_bytes_length() != len(alt) or len(obj.to_bytes()) != len(alt):
                self.fails.append({'kind': 'tre', 'msg': f'{name}: a record with right-justified text of {len(alt)} bytes re-encodes to {len(obj.to_bytes())} bytes '
                                   f'(reported {obj.get_bytes_length()})', 'case': name, 'tre': name, 'bytes': alt.hex()})
            elif obj.to_bytes() != envb:
                # not a clause of the property (lengths and values are): a difference between the model's and sarpy's canonical form
                self.disagree(name, None, 're-encoding a record with right-justified text does not give the left-justified record of the same values', alt)
        except Mismatch as e:
            self.disagree(name, None, 'right-justified text: the decoded object does not have the shape of the description: ' + str(e), alt)
        except Exception as e:
            self.fails.append({'kind': 'tre', 'msg': f'{name}: from_bytes of a record with right-justified text raised {type(e).__name__}: {str(e)[:160]}',
                               'case': name, 'tre': name, 'bytes': alt.hex()})
        self.jobs.append(('variant:' + name, val, (alt, envb), drv.ask(f'tre dec {name} {hx(alt + TRAILER)}'), None))

    def captured(self, drv):
        """TRE records captured in tests/data: the lenient model decoder and sarpy must read the same field values"""
        import glob
        import tables_tre as T
        st = self.stats
        data_dir = os.path.join(os.environ.get('SARPY_REPO', '/repo'), 'tests', 'data')
        for path in sorted(glob.glob(os.path.join(data_dir, '*tre*.bin')) + glob.glob(os.path.join(data_dir, '*.TRE'))):
            try:
                raw = open(path, 'rb').read()
            except OSError:
                continue
            name = raw[:6].decode('ascii', 'replace').strip()
            if name not in self.tres or len(raw) < 11 or not raw[6:11].isdigit():
                continue
            st['t_captured'] = st.get('t_captured', 0) + 1
            t = self.tres[name]
            rec = raw[:11 + int(raw[6:11])]
            cls = find_class(name)
            try:
                obj = cls.from_bytes(rec + TRAILER, 0)
                got = from_obj(t['tree'], obj.DATA, {T.CEL: len(rec) - 11})
                if obj.get_bytes_length() != len(rec) or len(obj.to_bytes()) != len(rec):
                    self.fails.append({'kind': 'tre', 'msg': f'{name} ({os.path.basename(path)}): {len(rec)} bytes re-encode to {len(obj.to_bytes())} (reported {obj.get_bytes_length()})',
                                       'case': name, 'tre': name, 'bytes': rec.hex()})
                self.jobs.append(('captured:' + name, got, (rec, obj.to_bytes()), drv.ask(f'tre dec {name} {hx(rec + TRAILER)}'), None))
            except Mismatch as e:
                self.disagree(name, None, f'captured {os.path.basename(path)}: the decoded object does not have the shape of the description: {e}', rec)
            except Exception as e:
                st['t_captured_refused'] = st.get('t_captured_refused', 0) + 1

    def disagree(self, name, key, msg, envb):
        d = {'case': name, 'msg': msg, 'bytes': envb.hex()[:4000]}
        if key:
            d['key'] = key
        self.disagreements.append(d)

    def dispatch_cases(self):
        """hand-written from_bytes overrides: a payload of a variant's length must reach the variant; a length the table sends to a
        variant of a different layout length is probed with the byte-level oracle"""
        import tables_tre as T
        from sarpy.io.general.nitf_elements.base import TRE
        st = self.stats
        bad = {(d['tre'], d['length']): d for d in self.gen['defects'] if d['kind'] == 'dispatch-length'}
        for dname, d in sorted(self.gen['dispatch'].items()):
            for ln, v in sorted(d['by_length'].items()):
                st['t_dispatch_cases'] = st.get('t_dispatch_cases', 0) + 1
                if v not in self.tres:
                    continue
                t = self.tres[v]
                if (dname, ln) in bad:
                    payload = bytes(self.rng.choice(b'0123456789') for _ in range(ln))
                    envb = envelope(d['tag'], payload)
                    msgs, _ = oracle(dname, envb)
                    for m in msgs:
                        self.fails.append({'kind': 'tre-dispatch', 'msg': m, 'case': f'{dname}:{ln}', 'tre': dname, 'bytes': envb.hex(), 'key': bad[(dname, ln)]['key']})
                    continue
                g = Generator(v, t['tree'], self.rng)
                for _ in range(8):
                    val, flags, n = g.payload()
                    if n == ln:
                        break
                else:
                    st['t_dispatch_unreached'] = st.get('t_dispatch_unreached', 0) + 1
                    continue
                envb = envelope(d['tag'], encode_py(t['tree'], val, {T.CEL: 0}))
                obj = TRE.from_bytes(envb + TRAILER, 0)
                if type(obj).__name__ != v:
                    self.fails.append({'kind': 'tre-dispatch', 'msg': f'{dname}: a payload of {ln} bytes conformant to {v} is returned as {type(obj).__name__}',
                                       'case': f'{dname}:{ln}', 'tre': dname, 'bytes': envb.hex()})
                for m in oracle(dname, envb)[0]:
                    self.fails.append({'kind': 'tre-dispatch', 'msg': m, 'case': f'{dname}:{ln}', 'tre': dname, 'bytes': envb.hex()})

    def probe_cases(self):
        """one probe per run: UTF-8 text that is not ASCII in an 's' field (outside the model: acceptance is ASCII only)"""
        import tables_tre as T
        st = self.stats
        for name in ('ICHIPB', 'STDIDC', 'USE00A'):
            t = self.tres.get(name)
            if t is None or t['fixed_length'] is None:
                continue
            f = next((f for f in rec_fields(t['tree']) if f['node'][0] == 'tstr' and f['node'][1][1] >= 4), None)
            if f is None:
                continue
            g = Generator(name, t['tree'], self.rng)
            val, flags, _ = g.payload()
            val[rec_fields(t['tree']).index(f)] = 'é' + 'x' * (f['node'][1][1] - 3)      # UTF-8: one byte short of the width
            envb = envelope(t['tag'], encode_py(t['tree'], val, {T.CEL: 0}))
            st['t_probes'] = st.get('t_probes', 0) + 1
            for m in oracle(name, envb)[0]:
                self.fails.append({'kind': 'tre-probe', 'msg': m + ' [text field holding non-ASCII UTF-8]', 'case': name, 'tre': name, 'bytes': envb.hex(),
                                   'key': KEY_NONASCII})
            return

    def snapshot_search(self, drv):
        """TREs whose regenerated description differs from the pinned one (or vanished): sarpy must still read payloads
        conformant to the PINNED layout field by field as pinned, and the byte-level property must hold on them"""
        import tables_tre as T
        st = self.stats
        snap = self.snapshot
        if not snap:
            return
        diff = self.gen['snapshot_diff']
        names = set(diff.get('changed', [])) | {n for n in diff.get('removed', [])} | \
            {n for n in self.gen['untranslated'] if n in snap['tres']}
        n = 60 if self.tier == 'quick' else 400
        for name in sorted(names):
            if name not in snap['tres']:
                continue
            tree, tag = snap['tres'][name]['tree'], snap['tres'][name]['tag']
            g = Generator(name, tree, self.rng)
            found = 0
            for _ in range(n):
                val, flags, ln = g.payload()
                if flags['raises'] or flags['dups'] or ln > 99999:
                    continue
                st['t_snapshot_payloads'] = st.get('t_snapshot_payloads', 0) + 1
                envb = envelope(tag, encode_py(tree, val, {T.CEL: 0}))
                msgs, obj = oracle(name, envb, origin='pinned layout (translate/tre_snapshot.json)')
                if obj is not None and not msgs:
                    try:
                        got = from_obj(tree, obj.DATA, {T.CEL: ln})
                        if got != val:
                            msgs.append(f'{name}: a payload conformant to the pinned layout is decoded to other field values: ' + first_diff(val, got, tree))
                    except Mismatch as e:
                        msgs.append(f'{name}: a payload conformant to the pinned layout is decoded to an object of another shape: {e}')
                for m in msgs[:1]:
                    self.fails.append({'kind': 'tre-layout', 'msg': m, 'case': name, 'tre': name, 'bytes': envb.hex(), 'pinned': True,
                                       'expected_fields': canon_dict(val)})
                    found += 1
                if found >= 2:
                    break

    def collect(self, ans):
        import tables_tre as T
        st = self.stats
        if ans is None:
            return self.fails, [], st
        seen = set()
        for name, val, envb, i_enc, i_dec in self.jobs:
            if name == 'tables':
                have = set(ans[i_enc].split(','))
                missing = sorted(set(self.tres) - have)
                if missing:
                    self.disagreements.append({'case': 'tables', 'msg': f'the driver does not know the TRE descriptions {missing[:8]} (stale Gen/TreTables build?)'})
                continue
            if name == 'dispatch':
                want = ','.join(f'{n}:' + '/'.join(f'{k}={v}' for k, v in sorted(d['by_length'].items())) for n, d in sorted(self.gen['dispatch'].items()))
                if ans[i_enc] != want:
                    self.disagreements.append({'case': 'dispatch', 'msg': 'the generated dispatch table differs from the translator output', 'model': ans[i_enc][:300]})
                continue
            if name.startswith('variant:') or name.startswith('captured:'):
                kind, name = name.split(':', 1)
                alt, canon_b = envb
                st['t_model_records'] = st.get('t_model_records', 0) + 1
                r = ans[i_enc].split()
                if r[:1] != ['ok'] or len(r) != 4:
                    self.disagreements.append({'case': name, 'msg': f'{kind}: model decode fails: ' + ans[i_enc][:80], 'bytes': alt.hex()[:4000]})
                else:
                    _, mv, rest, conf = r
                    if rest != hx(TRAILER) or mv != to_line(self.tres[name]['tree'], val):
                        self.disagreements.append({'case': name, 'msg': f'{kind}: the lenient model decoder and sarpy read different values', 'bytes': alt.hex()[:4000],
                                                   'model': mv[:300]})
                    elif (conf == 'true') != (alt == canon_b):
                        self.disagreements.append({'case': name, 'msg': f'{kind}: strict model decoder says conformant = {conf}, but sarpy re-encodes the record '
                                                   + ('identically' if alt == canon_b else 'differently'), 'bytes': alt.hex()[:4000]})
                continue
            st['t_model_records'] = st.get('t_model_records', 0) + 1
            seen.add(name)
            a = ans[i_enc].split()
            d = []
            if len(a) != 4:
                d.append('the model cannot read the generated value: ' + ans[i_enc][:80])
            else:
                okv, hexs, ln, conf = a
                if okv != 'true':
                    d.append('the model does not accept a value generated from its own description (python mirror of Cond / Expr differs?)')
                elif hexs != hx(envb):
                    d.append('Lean encoding differs from the python mirror encoding')
                elif int(ln) + 11 != len(envb):
                    d.append(f'model length {ln} + 11 != {len(envb)}')
                elif conf != 'true':
                    d.append('the encoding of an accepted value is not conformant for the strict decoder')
            r = ans[i_dec].split()
            if r[:1] != ['ok'] or len(r) != 4:
                d.append('model decode of the record + trailer fails: ' + ans[i_dec][:80])
            else:
                _, mv, rest, conf = r
                if rest != hx(TRAILER):
                    d.append(f'model decode leaves {rest[:40]} instead of the trailer')
                if mv != to_line(self.tres[name]['tree'], val):
                    d.append('model decode gives another value than the generated one')
            for m in d:
                self.disagreements.append({'case': name, 'msg': m, 'bytes': envb.hex()[:4000]})
        st['t_tres'] = len(seen)
        kept = [x for x in self.disagreements if not (x.get('key') and self.chk.known(x['key']))]
        st['t_disagreements_under_known_findings'] = len(self.disagreements) - len(kept)
        # coverage distribution
        self.chk.coverage['tre_coverage'] = {
            'per_tre': self.cov,
            'tres_with_all_condition_branches': sum(1 for c in self.cov.values() if not c['uncovered_conditions']),
            'tres': len(self.cov),
            'loop_count_classes': _hist(v for c in self.cov.values() for s in c['loop_counts'].values() for v in s),
            'leaf_kinds': _sum(c['leaf_kinds'] for c in self.cov.values()),
        }
        return self.fails, kept, st


def _hist(it):
    out = {}
    for v in it:
        out[v] = out.get(v, 0) + 1
    return dict(sorted(out.items()))


def _sum(dicts):
    out = {}
    for d in dicts:
        for k, v in d.items():
            out[k] = out.get(k, 0) + v
    return out


def replay_case(case):
    """re-run the byte-level oracle on the implementation alone for a reported TRE case"""
    import logging
    logging.disable(logging.CRITICAL)
    name = case.get('tre')
    b = bytes.fromhex(case['bytes'])
    print(f'TRE {name}: {len(b)} bytes, tag {b[:6]!r}, CEL {b[6:11]!r}')
    msgs, obj = oracle(name, b)
    if case.get('pinned'):
        import tables_tre as T
        snap = T.load_snapshot()
        tree = snap['tres'][name]['tree']
        if obj is not None:
            try:
                got = from_obj(tree, obj.DATA, {T.CEL: len(b) - 11})
                print('decoded by sarpy (read by the pinned layout):', json.dumps(canon_dict(got))[:600])
                if 'expected_fields' in case:
                    print('field values the record was generated from     :', json.dumps(case['expected_fields'])[:600])
                    if canon_dict(got) != case['expected_fields']:
                        msgs.append(f'{name}: sarpy reads other field values than the pinned layout')
            except Mismatch as e:
                msgs.append(f'{name}: decoded object does not have the pinned shape: {e}')
    for m in msgs:
        print('FAIL', m)
    if not msgs:
        print('the byte-level property holds on this record (compare the field values with the pinned layout: translate/tre_snapshot.json)')
    return 1 if msgs else 0
