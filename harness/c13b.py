"""C13 extension: BOUNDARIES of count and length fields, and refused assignments (called from harness/c13.py).

proof side : Props/C13a.lean - `slot_accepts_fits` (a setter whose limit respects the capacity 10^width - 1 of the count / length field only lets
             through values that are written in exactly `width` digits), `beyond_capacity_not_accepted`, `slot_not_ok_has_overflow`,
             `refused_assign_keeps_state / _bytes`, `stored_text_decodes_to_rstrip`; Props/C13x.lean - `acc_int_lt`, `accBlob_lt`, `loop_count_lt`
             (in the format language the capacity is part of acceptance); Gen/NitfSlots.lean - every count / length field of the element
             classes and the TRE envelope with its width and the setter's limit REGENERATED from the source (translate/tables_nitf.py:
             reflection + AST of the setters), `slots_ok` / `slots_fit` over the guarded ones, a kernel-checked negation witness
             (`unguarded_not_ok`, `unguarded_overflow`) for each of the others - those are broken obligations unless listed
tie/search : boundary families on the implementation: every count at capacity-1 / capacity / capacity+1, every data / payload length at
             capacity-3 .. capacity+1, TRE loops at capacity-1 / capacity, and for every field of every element (recursively) a battery of
             values a validating setter refuses, after which the element must encode exactly as before.  Oracle: refusal, or
             len(to_bytes()) == get_bytes_length() and from_bytes(to_bytes(x)) re-encodes identically with the same count / length.
"""
import os
import sys

from common import VERIF, ALLOWED_AXIOMS, audit, lake_build

sys.path.insert(0, os.path.join(VERIF, 'translate'))

REQUIRED_A = ['capacity_lt', 'acceptInt_of_le_capacity', 'slot_accepts_fits', 'beyond_capacity_not_accepted', 'slot_not_ok_has_overflow',
              'refused_assign_keeps_state', 'refused_assign_keeps_bytes', 'stored_text_decodes_to_rstrip']
REQUIRED_X = ['acc_int_lt', 'accBlob_lt', 'loop_count_lt']
REQUIRED_GEN = ['slots_ok', 'slots_fit', 'unguarded_not_ok', 'unguarded_overflow']
TARGETS = ['SarpyModel.Props.C13a', 'SarpyModel.Gen.NitfSlots']
TRAILER = b'\x07TRAILER'
KEY_REFUSED = 'Unstructured.data:refused-assignment-leaves-the-refused-bytes'
KEY_DLUT = 'SymbolSegmentHeader.DLUT:accepted-table-cannot-be-encoded'


class Session:
    def __init__(self, chk, tier, gen):
        self.chk = chk
        self.tier = tier
        self.rng = chk.rng
        self.slots = gen.get('slots', {})
        self.fails = []
        self.disagreements = []
        self.stats = {}

    # ---- proof side
    def prove(self):
        chk = self.chk
        broken = []
        ok, failed, errors, log = lake_build(TARGETS)
        if not ok:
            broken += [f'{m} (lake build failed)' for m in failed] or ['lake build failed (C13b)']
            chk.coverage.setdefault('build_errors', [])
            chk.coverage['build_errors'] += [f'{f}:{l}:{c}: {m}' for f, l, c, m in errors[:20]]
            chk.coverage['obligations'] = chk.coverage.get('obligations', 0) + len(REQUIRED_GEN)
        else:
            t2 = audit('SarpyModel.Gen.NitfSlots', 'Sarpy.Gen.NitfSlots')
            ta = audit('SarpyModel.Props.C13a', 'Sarpy.Props.C13a')
            tx = audit('SarpyModel.Props.C13x', 'Sarpy.Props.C13x')
            bad = {n: a for n, a in t2.items() if set(a) - ALLOWED_AXIOMS}
            missing = [f'Sarpy.Gen.NitfSlots.{r}' for r in REQUIRED_GEN if f'Sarpy.Gen.NitfSlots.{r}' not in t2]
            missing += [f'Sarpy.Props.C13a.{r}' for r in REQUIRED_A if f'Sarpy.Props.C13a.{r}' not in ta]
            missing += [f'Sarpy.Props.C13x.{r}' for r in REQUIRED_X if f'Sarpy.Props.C13x.{r}' not in tx]
            for n, a in bad.items():
                broken.append(f'{n} depends on non-standard axioms {sorted(set(a) - ALLOWED_AXIOMS)}')
            for r in missing:
                broken.append(f'{r} (required theorem missing)')
            chk.coverage['obligations'] = chk.coverage.get('obligations', 0) + len(t2) + len(missing)
            chk.coverage['discharged'] = chk.coverage.get('discharged', 0) + len(t2) - len(bad)
            chk.coverage['theorems'] = sorted(set(chk.coverage.get('theorems', [])) | {'NitfSlots.' + n[len('Sarpy.Gen.NitfSlots.'):] for n in t2})
        # the obligation "every setter keeps its count / length within the digits of the field" - one per slot
        unguarded = {k: r for k, r in self.slots.items() if not r['ok']}
        chk.coverage['obligations'] = chk.coverage.get('obligations', 0) + len(self.slots)
        chk.coverage['discharged'] = chk.coverage.get('discharged', 0) + len(self.slots) - len(unguarded)
        for k, r in sorted(unguarded.items()):
            if not chk.known(r['key']):
                lim = 'has no test' if r['limit'] is None else f"allows {r['subject']} <= {r['limit']}"
                broken.append(f"slot {k}: the field has {r['width']} digits (capacity {10 ** r['width'] - 1}), the encoder adds {r['extra']}, the setter {lim}")
        chk.coverage.setdefault('translator', {})
        if isinstance(chk.coverage['translator'], dict):
            chk.coverage['translator']['slots'] = {k: {x: r[x] for x in ('width', 'extra', 'limit', 'ok', 'key', 'src')} for k, r in self.slots.items()}
        return broken

    # ---- oracle on one constructed element
    def oracle(self, label, key, make, params=None, expect_accept=None, count_of=None):
        st = self.stats
        st['b_cases'] = st.get('b_cases', 0) + 1

        def fail(msg):
            f = {'kind': 'boundary', 'msg': f'{label}: {msg}', 'case': label}
            if key:
                f['key'] = key
            self.fails.append(f)
        try:
            x = make()
        except (ValueError, TypeError) as e:
            st['b_refused'] = st.get('b_refused', 0) + 1
            if expect_accept:
                fail(f'refused ({type(e).__name__}: {str(e)[:80]}) although the value is within the capacity of the field and the documented limit')
            return None
        st['b_accepted'] = st.get('b_accepted', 0) + 1
        try:
            b = x.to_bytes()
            n = x.get_bytes_length()
        except Exception as e:
            fail(f'accepted, but to_bytes() / get_bytes_length() raised {type(e).__name__}: {str(e)[:100]}')
            return None
        if len(b) != n:
            fail(f'accepted; len(to_bytes()) = {len(b)} but get_bytes_length() = {n}')
            return x
        try:
            back = x.__class__.from_bytes(b + TRAILER, 0, **params) if params else x.__class__.from_bytes(b + TRAILER, 0)
            b2 = back.to_bytes()
            if b2 != b:
                i = next((k for k in range(min(len(b), len(b2))) if b[k] != b2[k]), min(len(b), len(b2)))
                fail(f'accepted; from_bytes(to_bytes(x)) re-encodes differently at byte {i} (lengths {len(b)} -> {len(b2)})')
            elif count_of is not None and count_of(back) != count_of(x):
                fail(f'accepted; the decoded element has {count_of(back)} where the encoded one has {count_of(x)}')
        except Exception as e:
            fail(f'accepted; from_bytes(to_bytes(x)) raised {type(e).__name__}: {str(e)[:100]}')
        return x

    def run(self, drv=None):
        import numpy
        from sarpy.io.general.nitf_elements import base as B
        from sarpy.io.general.nitf_elements import nitf_head as H
        from sarpy.io.general.nitf_elements.image import ImageBands, ImageBand, ImageComments, ImageComment
        from sarpy.io.general.nitf_elements.des import DESUserHeader
        from sarpy.io.general.nitf_elements.res import RESUserHeader
        from sarpy.io.general.nitf_elements.symbol import SymbolSegmentHeader
        from sarpy.io.general.nitf_elements.text import TextSegmentHeader
        sl = self.slots

        def key(slot):
            r = sl.get(slot)
            return r['key'] if r and not r['ok'] else None

        def cap(slot):
            r = sl[slot]
            return 10 ** r['width'] - 1 - r['extra']

        def within(slot, n):
            r = sl[slot]
            return n <= cap(slot) and (r['limit'] is None or n <= r['limit'])
        # A. loop counts at capacity-1 / capacity / capacity+1
        c = cap('ImageComments.count')
        for n in (c - 1, c, c + 1):
            self.oracle(f'ImageComments with {n} comments', key('ImageComments.count'),
                        lambda n=n: ImageComments(values=[ImageComment(COMMENT='c%d' % i) for i in range(n)]), None, within('ImageComments.count', n), len)
        band = ImageBand(ISUBCAT='I')
        c = cap('ImageBands.count')
        for n in (9, 10, c - 1, c, c + 1):
            self.oracle(f'ImageBands with {n} bands', key('ImageBands.count'), lambda n=n: ImageBands(values=[band] * n), None, within('ImageBands.count', n), len)
        arr_classes = [getattr(H, n[:-len('.count')]) for n in sorted(sl) if n.endswith('Type.count') and hasattr(H, n[:-len('.count')])]
        for cls in arr_classes:
            nm = cls.__name__
            c = cap(nm + '.count')
            for n in (c - 1, c, c + 1):
                self.oracle(f'{nm} with {n} entries', key(nm + '.count'),
                            lambda n=n, cls=cls: cls(subhead_sizes=numpy.full((n,), 1, dtype='int64'), item_sizes=numpy.full((n,), 1, dtype='int64')),
                            None, within(nm + '.count', n), lambda x: int(x.subhead_sizes.size))
            for which, slot in (('subhead_sizes', nm + '.subhead_size'), ('item_sizes', nm + '.item_size')):
                c = cap(slot)
                for v in (c - 1, c, c + 1):
                    kw = {'subhead_sizes': numpy.array([1, 1], dtype='int64'), 'item_sizes': numpy.array([1, 1], dtype='int64')}
                    kw[which] = numpy.array([v, 1], dtype='int64')
                    self.oracle(f'{nm} with {which}[0] = {v}', key(slot), lambda kw=kw, cls=cls: cls(**kw), None, within(slot, v),
                                lambda x, which=which: int(getattr(x, which)[0]))
        # LUT tables of an image band: rows 4 / 5 (limit) and 9 / 10 (digits), entries 65536 / 65537 and 99999 / 100000
        for shape in ((4, 1), (5, 1), (9, 1), (10, 1), (1, 65536), (1, 65537), (1, 99999), (1, 100000), (4, 65536)):
            self.oracle(f'ImageBand with LUTD of shape {shape}', None, lambda shape=shape: ImageBand(LUTD=numpy.zeros(shape, dtype='uint8')), None,
                        within('ImageBand.NLUTS', shape[0]) and within('ImageBand.NELUT', shape[1]), lambda x: (x.NLUTS, x.NELUTS))
        for n in (1, 2, 255, 256, 257):
            self.oracle(f'SymbolSegmentHeader with DLUT of {n} entries', KEY_DLUT,
                        lambda n=n: SymbolSegmentHeader(SY='SY', ENCRYP='0', STYPE='B', DLUT=numpy.zeros((n, 3), dtype='uint8')), None, None)
        # look-up tables with VALUES, handed over in C order, in Fortran order and as a transposed stack of channel planes: the same table
        # encodes to the same bytes and decodes to the same table whatever its memory layout
        for n in (2, 5):
            tab = (numpy.arange(3 * n, dtype='int64').reshape((n, 3)) * 7 % 251).astype('uint8')
            ref_b = None
            for nm, arr in (('C order', numpy.ascontiguousarray(tab)), ('Fortran order', numpy.asfortranarray(tab)),
                            ('transposed channel planes', numpy.ascontiguousarray(tab.T).T)):
                self.stats['b_cases'] = self.stats.get('b_cases', 0) + 1
                try:
                    x = SymbolSegmentHeader(SY='SY', ENCRYP='0', STYPE='B', DLUT=arr)
                    b = x.to_bytes()
                    back = SymbolSegmentHeader.from_bytes(b + TRAILER, 0)
                    if ref_b is None:
                        ref_b = b
                    if b != ref_b or not numpy.array_equal(numpy.asarray(back.DLUT), tab):
                        self.fails.append({'kind': 'boundary', 'case': f'SymbolSegmentHeader DLUT {n} x 3 ({nm})',
                                           'msg': f'SymbolSegmentHeader with a DLUT of {n} entries handed over in {nm}: the encoding differs from that of the same table in C order, '
                                                  f'or decodes to another table ({numpy.asarray(back.DLUT).tolist()} for {tab.tolist()})'})
                except Exception as e:
                    self.fails.append({'kind': 'boundary', 'case': f'SymbolSegmentHeader DLUT {n} x 3 ({nm})', 'key': KEY_DLUT,
                                       'msg': f'SymbolSegmentHeader with a DLUT of {n} entries ({nm}): {type(e).__name__}: {str(e)[:100]}'})
        # B. data / payload lengths at capacity-3 .. capacity+1
        c = cap('UnknownTRE.CEL')
        for n in range(c - 3, c + 2):
            self.oracle(f'UnknownTRE with a payload of {n} bytes', key('UnknownTRE.CEL'), lambda n=n: B.UnknownTRE('ABCDEF', b'x' * n), None,
                        within('UnknownTRE.CEL', n), lambda x: len(x.DATA))
        c = cap('UserHeaderType.length')
        for n in list(range(c - 3, c + 2)) + [c + 2, c + 3, c + 4]:
            self.oracle(f'UserHeaderType with TRE data of {n} bytes', key('UserHeaderType.length'),
                        lambda n=n: B.UserHeaderType(OFL=0, data=B.TREList(tres=[B.UnknownTRE('ABCDEF', b'x' * (n - 11))])), None,
                        within('UserHeaderType.length', n) if n <= c else None, lambda x: x.data.get_bytes_length())
            self.oracle(f'UserHeaderType with data given as {n} bytes', key('UserHeaderType.length'),
                        lambda n=n: B.UserHeaderType(OFL=999, data=b'ABCDEF%05d' % (n - 11) + b'y' * (n - 11)), None,
                        within('UserHeaderType.length', n) if n <= c else None, lambda x: x.data.get_bytes_length())
        self.oracle(f'TextSegmentHeader whose extended header holds {c} bytes', key('UserHeaderType.length'),
                    lambda: TextSegmentHeader(UserHeader=B.UserHeaderType(OFL=0, data=B.TREList(tres=[B.UnknownTRE('ABCDEF', b'x' * (c - 11))]))), None, True)
        for cls, slot in ((DESUserHeader, 'DESUserHeader.length'), (RESUserHeader, 'RESUserHeader.length')):
            c = cap(slot)
            for n in range(c - 3, c + 2):
                self.oracle(f'{cls.__name__} with data of {n} bytes', key(slot), lambda n=n, cls=cls: cls(data=b'z' * n), None, within(slot, n),
                            lambda x: len(x.data or b''))
        self.tre_loops()
        self.refusals()

    # C. registered TRE loops at capacity-1 / capacity (a decimal count field cannot announce capacity+1)
    def tre_loops(self):
        import logging
        import tables_tre as T
        import c13t
        st = self.stats
        gen = T.build()
        todo = []
        for name in sorted(gen['tres']):
            tree = c13t.norm(gen['tres'][name]['tree'])
            top = tree[1]
            widths = {f['id']: f['node'][1] for f in top if f['node'][0] == 'int'}
            for f in top:
                n = f['node']
                if n[0] == 'loop' and n[1][0] == 'var' and n[1][1] in widths and not (len(n[2]) > 2 and n[2][2].get('raises')):
                    item = T.fixed_total(n[2])
                    w = widths[n[1][1]]
                    if item and w <= 3 and (10 ** w - 1) * item < 60000:
                        todo.append((name, gen['tres'][name], tree, n[1][1], w))
                        break
        limit = 10 if self.tier == 'quick' else len(todo)
        for name, t, tree, fid, w in todo[:limit]:
            for cnt in (10 ** w - 2, 10 ** w - 1):
                g = c13t.Generator(name, tree, self.rng)
                g.force = {fid: cnt}
                try:
                    val, flags, ln = g.payload()
                except RuntimeError:
                    continue
                if ln > 99999 or flags['raises'] or flags['dups']:
                    continue
                st['b_tre_loop_cases'] = st.get('b_tre_loop_cases', 0) + 1
                envb = c13t.envelope(t['tag'], c13t.encode_py(tree, val, {T.CEL: 0}))
                msgs, obj = c13t.oracle(name, envb)
                if obj is not None and not msgs:
                    try:
                        if c13t.from_obj(tree, obj.DATA, {T.CEL: ln}) != val:
                            msgs.append(f'{name}: a loop of {cnt} items (count field of {w} digits) is decoded to other values')
                    except c13t.Mismatch as e:
                        msgs.append(f'{name}: a loop of {cnt} items: decoded object has another shape: {e}')
                for m in msgs:
                    self.fails.append({'kind': 'tre', 'msg': m + f' [loop count {cnt}]', 'case': name, 'tre': name, 'bytes': envb.hex()})
        st['b_tre_loops_eligible'] = len(todo)

    # D. refused-then-encode: every attribute of every element (recursively), a battery of values a validating setter refuses
    def refusals(self):
        import numpy
        import random
        import c13
        import c13x
        from sarpy.io.general.nitf_elements import base as B
        st = self.stats
        battery = [object(), 3.5, b'garbage-that-is-no-TRE', 10 ** 30, -10 ** 30, 'ZZZZ', numpy.zeros((2, 2, 2), dtype='float32'),
                   numpy.zeros((300, 3), dtype='uint8'), [1, 2, 3], b'x' * 100001, {'a': 1}]
        rng = random.Random(self.rng.random())
        insts = [(l, i, {}) for l, i in c13.build_instances(rng, 'quick') if not isinstance(i, Exception)]
        insts += [(l, i, p) for l, _d, i, p in c13x.build_instances(rng, 'quick') if not isinstance(i, Exception)]
        per_class = {}
        for label, inst, params in insts:
            per_class.setdefault(inst.__class__.__name__, (label, inst, params))
        # a user header that CARRIES TRE data (the overflow field is only rendered then): refused assignments to it must leave its bytes alone
        try:
            per_class['UserHeaderType(with TRE data)'] = ('user header with data', B.UserHeaderType(data=B.UnknownTRE('ABCDEF', b'x' * 20).to_bytes()), {})
            battery = battery + [1000, '12345', -7]
        except Exception:
            pass
        seen = set()

        def nodes(obj, path, depth=0):
            yield obj, path
            if depth > 3 or not isinstance(obj, B.NITFElement):
                return
            for fld in obj._ordering:
                try:
                    v = getattr(obj, fld)
                except Exception:
                    continue
                if isinstance(v, B.BaseNITFElement):
                    yield from nodes(v, path + '.' + fld, depth + 1)
                elif isinstance(v, (tuple, list)) and v and isinstance(v[0], B.BaseNITFElement):
                    yield from nodes(v[0], path + '.' + fld + '[0]', depth + 1)
        for cname in sorted(per_class):
            label, root, params = per_class[cname]
            for obj, path in nodes(root, cname):
                attrs = list(getattr(obj, '_ordering', ()))
                if isinstance(obj, B.UserHeaderType):
                    attrs.append('OFL')
                for fld in attrs:
                    tag = f'{obj.__class__.__name__}.{fld}' + ('+data' if cname.endswith('(with TRE data)') else '')
                    if tag in seen:
                        continue
                    seen.add(tag)
                    for bad in battery:
                        try:
                            b0 = root.to_bytes()
                            n0 = root.get_bytes_length()
                            old = getattr(obj, fld)
                        except Exception:
                            break
                        try:
                            setattr(obj, fld, bad)
                        except Exception as e:
                            st['b_refused_assignments'] = st.get('b_refused_assignments', 0) + 1
                            what = f'{path}.{fld} = {type(bad).__name__} value refused ({type(e).__name__})'
                            key = KEY_REFUSED if isinstance(obj, B.Unstructured) and fld == 'data' else None
                            try:
                                b1 = root.to_bytes()
                                if b1 != b0 or root.get_bytes_length() != n0:
                                    i = next((k for k in range(min(len(b0), len(b1))) if b0[k] != b1[k]), min(len(b0), len(b1)))
                                    f = {'kind': 'refused', 'msg': f'{what}, but the element changed: it now encodes {len(b1)} bytes (before {len(b0)}), first '
                                         f'difference at byte {i}', 'case': what}
                                    if key:
                                        f['key'] = key
                                    self.fails.append(f)
                            except Exception as e2:
                                f = {'kind': 'refused', 'msg': f'{what}, and the element no longer encodes: {type(e2).__name__}: {str(e2)[:80]}', 'case': what}
                                if key:
                                    f['key'] = key
                                self.fails.append(f)
                            # put the element back into the state before (the refused value may have been left inside)
                            try:
                                setattr(obj, fld, old)
                            except Exception:
                                pass
                            continue
                        st['b_battery_accepted'] = st.get('b_battery_accepted', 0) + 1
                        try:
                            setattr(obj, fld, old)
                        except Exception:
                            pass
        st['b_refusal_fields'] = len(seen)

    def collect(self):
        return self.fails, self.disagreements, self.stats
