"""C14 — each file opens with exactly its own family's opener; others refuse cleanly.

proof side : lean/SarpyModel/Props/C14.lean over lean/SarpyModel/Spec/Opener.lean (decision model of the openers,
             `_find_sicd`, `_find_sidd`, the cascade, writer models; all DES lists / image counts, no bounds);
             lean/SarpyModel/Props/C14Vendor.lean over Spec/OpenerVendor.lean (every registered is_a as a guard table over the
             observations of its argument, the full trial loops for any registration order, NITF 2.0 containers)
translator : translate/gen_openers.py regenerates the guard tables, registration orders, trial-loop shapes and the order of
             sarpy.io.open from the AST of /repo (Gen/Openers.lean); Bridge/Openers.lean proves them equal to the specified ones
tie        : correspondence - for every real file the harness extracts the descriptor itself (magic bytes, NITF header
             and subheaders parsed out-of-band, DES ids, XML root tags), asks the Lean driver what every opener decides, and
             compares with what each real entry point does (path and, where documented, open binary file object); the
             writer models are tied by comparing the descriptor of each written file with the model writer's descriptor;
             `_find_sicd`/`_find_sidd` are tied on NITF files with arbitrary DES lists (SICDDetails / SIDDDetails)
search     : direct oracle on the implementation over the opener x file-kind matrix, stated from the construction recipe
             of each file (not from the model): right reader class from the right family, every other family raises
             SarpyIOError, sarpy.io.open returns the same kind, signature-less byte strings rejected by every opener,
             a rejected file object is still open and seekable
"""
import io
import json
import logging
import os
import re
import shutil
import struct
import tempfile
import time
import traceback
import warnings
import xml.etree.ElementTree as ET

from common import Check, Driver, Infra, VERIF, sarpy_guard
import c14x

REQUIRED = ['cascade_first_accept', 'cascade_reject', 'cascade_raises', 'findSicd_some_iff', 'findSicd_none_iff',
            'mem_findSidd_fst', 'mem_findSidd_snd', 'findSidd_fst_length', 'findSidd_snd_length', 'findSidd_isSidd_iff',
            'no_signature_rejects', 'unsupported_nitf_version_rejects', 'sicd_written_exclusive',
            'sidd_written_exclusive', 'exclusive_on_written', 'written_unique_family', 'general_on_written']

# extension (Props/C14Vendor.lean): every registered opener as a guard table, full trial loops, NITF 2.0
REQUIRED_V = ['cascade_append_rejects', 'cascade_filter_rejects', 'cascade_unique_accept', 'cascade_const',
              'foreign_rejects_fileobj', 'foreign_rejects_missing', 'foreign_rejects_signed', 'foreign_rejects_unsigned', 'foreign_rejects_dir',
              'capella_raises_iff', 'tiff_raises_iff', 'radarsat_raises_iff', 'tsx_raises_iff', 'palsar2_raises_iff', 'guards_never_raise',
              'isAV_sio', 'isAV_final', 'openComplexWith_eq', 'complexOrder_ok', 'openGeneralV_eq', 'full_eq_model',
              'exclusive_on_written_full', 'no_signature_rejects_full', 'missing_path_rejects', 'dir_rejects_full',
              'nitf_without_family_des_rejects', 'nitf20_fallback', 'symbols_labels_irrelevant',
              'scanBands_cases', 'scanBands_classes', 'runBand_bandTab', 'checkBand_take_iff', 'checkBand_real', 'scanBands_real',
              'general_nitf_exclusive']
# Bridge/Openers.lean: regenerated tables / orders = specified ones
BRIDGE_REQUIRED = ['gen_tab_eq', 'gen_complexOrder_eq', 'gen_productOrder_eq', 'gen_phaseHistoryOrder_eq', 'gen_receivedOrder_eq',
                   'gen_generalOrder_eq', 'gen_topOrder_eq', 'gen_entryShape_eq', 'gen_pins', 'gen_isA_eq', 'gen_bandTab_eq']
GEN_OPENERS = os.path.join(VERIF, 'lean', 'SarpyModel', 'Gen', 'Openers.lean')

DATA = os.path.join(os.environ.get('SARPY_REPO', '/repo'), 'tests', 'data')

# ---------------------------------------------------------------------------------------------------------------
# out-of-band descriptor extraction (nothing here comes from sarpy)

SIO_MAGICS = {bytes.fromhex(h) for h in ('FF017FFE', 'FE7F01FF', 'FF027FFD', 'FD7F02FF')}
# first bytes that some opener of sarpy treats as a format signature: "signature-less" strings must avoid them
SIGNATURES = [b'NITF', b'CPHD', b'CRSD', b'II*\x00', b'MM\x00*', b'II+\x00', b'MM\x00+', b'\x89HDF\r\n\x1a\n', b'GSATIMG'] + sorted(SIO_MAGICS)


def magic_of(head):
    if len(head) >= 9 and head[:4] == b'NITF':
        try:
            head[4:9].decode('utf-8')
        except ValueError:
            return 'none'
        return {b'02.10': 'nitf21', b'02.00': 'nitf20'}.get(head[4:9], 'nitfOther')
    if head[:4] == b'CPHD':
        return 'cphd'
    if head[:4] == b'CRSD':
        return 'crsd'
    if head[:4] in SIO_MAGICS and len(head) >= 4:
        return 'sio'
    return 'none'


def parse_nitf(b, v20):
    """MIL-STD-2500C (2.1) / 2500A (2.0) file header and subheader walk.  Returns images, graphics count, des list"""
    pos = 280
    if v20:
        dwng = b[pos:pos + 6]
        pos = 342 + (40 if dwng == b'999998' else 0)
    else:
        pos = 342
    pos += 12                    # FL
    hl = int(b[pos:pos + 6]); pos += 6

    def table(pos, wsh, wit):
        n = int(b[pos:pos + 3]); pos += 3
        out = []
        for _ in range(n):
            sh = int(b[pos:pos + wsh]); it = int(b[pos + wsh:pos + wsh + wit]); pos += wsh + wit
            out.append((sh, it))
        return pos, out
    pos, imgs = table(pos, 6, 10)
    pos, graphics = table(pos, 4, 6)          # graphics (2.1) / symbols (2.0)
    if v20:
        pos, labels = table(pos, 4, 3)
    else:
        pos += 3                              # NUMX
        labels = []
    pos, texts = table(pos, 4, 5)
    pos, des = table(pos, 4, 9)
    pos, res = table(pos, 4, 7)
    cur = hl
    images = []
    for sh, it in imgs:
        h = b[cur:cur + sh]
        iid1 = h[2:12].decode('latin1')
        pvtype = h[349:352].decode('latin1').strip()
        icat = h[360:368].decode('latin1').strip()
        p = 371
        icords = h[p:p + 1]; p += 1
        has_geo = icords not in ((b'N', b' ') if v20 else (b' ',))
        if has_geo:
            p += 60
        nicom = int(h[p:p + 1]); p += 1 + 80 * nicom
        ic = h[p:p + 2]; p += 2
        if ic not in (b'NC', b'NM'):
            p += 4
        nbands = int(h[p:p + 1]); p += 1
        if nbands == 0 and not v20:
            nbands = int(h[p:p + 5]); p += 5
        subcats = []
        for _ in range(nbands):
            subcats.append(h[p + 2:p + 8].decode('latin1').strip())
            nluts = int(h[p + 12:p + 13]); p += 13
            if nluts > 0:
                nelut = int(h[p:p + 5]); p += 5 + nluts * nelut
        images.append({'iid1': iid1, 'pvtype': pvtype, 'icat': icat, 'subcats': subcats, 'geo': has_geo})
        cur += sh + it
    for sh, it in graphics + labels + texts:
        cur += sh + it
    dess = []
    shift = sum(sh + it for sh, it in graphics + labels) if v20 else 0     # bytes of the symbol and label segments
    shifted = []
    for sh, it in des:
        h = b[cur:cur + sh]
        body = b[cur + sh:cur + sh + it]
        dess.append((h, body))
        # what a reader finds that leaves the symbol / label segments out of its running offset
        shifted.append((b[cur - shift:cur - shift + sh], b[cur - shift + sh:cur - shift + sh + it]))
        cur += sh + it
    extra = {'symbols': len(graphics) if v20 else 0, 'labels': len(labels), 'shifted': shifted}
    return images, (0 if v20 else len(graphics)), dess, extra


PV_TOKEN = {'INT': 'int', 'B': 'b', 'SI': 'si', 'R': 'r', 'C': 'c'}


def img_token(im):
    """map an image subheader to the model's image classes; None = outside the modelled classes.
    c / d<k> / o are the classes of the writer models; any other SAR / SARIQ segment becomes g.s.<pvtype>.<one letter per band>"""
    if im['icat'] not in ('SAR', 'SARIQ'):
        return 'o'
    iid1 = im['iid1'].rstrip()
    if im['icat'] == 'SAR' and iid1[:4] == 'SIDD' and iid1[4:].isdigit() and len(iid1) >= 7 \
            and im['pvtype'] not in ('C', 'R', 'SI') and int(iid1[4:7]) >= 1:
        return 'd%d' % (int(iid1[4:7]) - 1)
    if im['pvtype'] in ('R', 'SI') and im['subcats'] == ['I', 'Q'] and iid1[:4] != 'SIDD':
        return 'c'
    if iid1[:4] == 'SICD' and im['pvtype'] == 'INT':
        return None        # AMP8I_PHS8I image of the SICD writer: the SICD reader takes it, the model's SICD class is the I/Q one (oracle only)
    if im['pvtype'] not in PV_TOKEN or any(len(x) > 1 for x in im['subcats']):
        return None        # a band label of several characters: the concatenation test of the code is not the model's pair test
    return 'g.s.%s.%s' % (PV_TOKEN[im['pvtype']], ''.join(x.lower() if x in ('I', 'Q', 'M', 'P') else 'o' for x in im['subcats']) or '-')


def des_token(h, body):
    if h.startswith(b'DEXML_DATA_CONTENT'):
        i = 'x'
    elif h.startswith(b'DESIDD_XML'):
        i = 'os'
    elif h.startswith(b'DESICD_XML'):
        i = 'oc'
    else:
        i = 'ot'
    try:
        root = ET.fromstring(body.decode('utf-8').strip())
        tag = root.tag
        k = 'sidd' if 'SIDD' in tag else ('sicd' if 'SICD' in tag else 'oxml')
    except Exception:
        k = 'nxml'
    return f'{i}:{k}'


def describe(path, skips_symlab=False):
    """-> (descriptor token string or None when an image is outside the modelled classes, magic, 'symbols labels' tokens).
    A directory / special file / missing path has the empty descriptor."""
    if not os.path.isfile(path):
        return 'none - 0 -', 'none', '0 0'
    with open(path, 'rb') as f:
        b = f.read()
    m = magic_of(b[:16])
    if m not in ('nitf21', 'nitf20'):
        return f'{m} - 0 -', m, '0 0'
    images, g, dess, extra = parse_nitf(b, m == 'nitf20')
    it = [img_token(im) for im in images]
    dt = [des_token(h, body) for h, body in dess]
    if any(t is None for t in it):
        return None, m, '0 0'
    if skips_symlab and extra['symbols'] + extra['labels'] > 0:
        # the model takes a DES read at a wrong offset as "unknown id, not XML": check that this is what the bytes there look like
        if any(des_token(h, body) != 'ot:nxml' for h, body in extra['shifted']):
            return None, m, '0 0'
    return f'{m} {",".join(it) or "-"} {g} {",".join(dt) or "-"}', m, f'{extra["symbols"]} {extra["labels"]}'


def source_policy():
    """reader-side switch read from the current source: does SIDDDetails.__init__ still refuse graphics segments?
    (passed to the model as Policy.siddRefusesGraphics; a wrong reading shows up as a correspondence disagreement)"""
    src = open(os.path.join(os.environ.get('SARPY_REPO', '/repo'), 'sarpy', 'io', 'product', 'sidd.py')).read()
    m = re.search(r'class SIDDDetails\b.*?\n    def _find_sidd', src, flags=re.S)
    body = m.group(0) if m else src
    return 1 if re.search(r'item_sizes\.size\s*>\s*0\s*:\s*\n\s*raise SarpyIOError\([^)]*graphics', body) else 0


# ---------------------------------------------------------------------------------------------------------------
# file factory: every file is built from a JSON-serialisable recipe (also used by replay)

OTHER_XML = c14x.OTHER_XML
NON_XML = c14x.NON_XML


class Factory:
    def __init__(self, tmp):
        self.tmp = tmp
        self.n = 0
        self._sicd = {}
        self._sidd = {}
        self._helper = None
        self._swd = None
        self._dwd = None

    def new_path(self, ext):
        self.n += 1
        return os.path.join(self.tmp, f'file_{self.n:05d}.{ext}')

    # ---- metadata
    def sicd_meta(self, pixel='RE32F_IM32F', rows=6, cols=5):
        key = (pixel, rows, cols)
        if key not in self._sicd:
            from sarpy.io.complex.sicd import SICDType
            m = SICDType.from_xml_file(os.path.join(DATA, 'example.sicd.xml'))
            m.ImageData.NumRows, m.ImageData.NumCols = rows, cols
            m.ImageData.FullImage.NumRows, m.ImageData.FullImage.NumCols = rows, cols
            m.ImageData.SCPPixel.Row, m.ImageData.SCPPixel.Col = rows // 2, cols // 2
            m.ImageData.ValidData = None
            m.ImageData.PixelType = pixel
            if pixel == 'AMP8I_PHS8I':
                import numpy
                m.ImageData.AmpTable = numpy.linspace(0, 1, 256)
            self._sicd[key] = m
        return self._sicd[key].copy()

    def ortho_helper(self):
        if self._helper is None:
            import numpy
            from sarpy.io.complex.sicd import SICDWriter, SICDReader
            from sarpy.processing.ortho_rectify import NearestNeighborMethod
            p = self.new_path('sicd')
            with SICDWriter(p, self.sicd_meta(rows=40, cols=36)) as w:
                w.write(numpy.zeros((40, 36), dtype='complex64'))
            self._helper = NearestNeighborMethod(SICDReader(p))
        return self._helper

    def sidd_meta(self, version, pixel, rows, cols=9):
        key = (version, pixel)
        if key not in self._sidd:
            import numpy
            from sarpy.processing.sidd.sidd_structure_creation import create_sidd_structure
            self._sidd[key] = create_sidd_structure(self.ortho_helper(), numpy.array([0, 8, 0, cols]), 'Detected Image', pixel,
                                                    version=version)
        m = self._sidd[key].copy()
        m.Measurement.PixelFootprint.Row, m.Measurement.PixelFootprint.Col = rows, cols
        return m

    # ---- NITF parts
    def des_manager(self, kind):
        from sarpy.io.general.nitf import DESSubheaderManager
        from sarpy.io.general.nitf_elements.des import DataExtensionHeader
        from sarpy.io.complex.sicd import SICDWritingDetails
        from sarpy.io.product.sidd import SIDDWritingDetails
        if self._swd is None:
            self._swd = SICDWritingDetails(self.sicd_meta())
            self._dwd = SIDDWritingDetails([self.sidd_meta(2, 'MONO8I', 7)] * 2, None)
        idk, body = kind
        src = {'sicd': self._swd.des_managers[-1], 'sidd': self._dwd.des_managers[0]}.get(body, self._swd.des_managers[-1])
        b = {'sicd': self._swd.des_managers[-1].item_bytes, 'sidd': self._dwd.des_managers[0].item_bytes,
             'oxml': OTHER_XML, 'nxml': NON_XML}[body]
        if idk == 'x':
            h = DataExtensionHeader.from_bytes(src.subheader.to_bytes(), 0)
        else:
            h = DataExtensionHeader(DESID={'oc': 'SICD_XML', 'os': 'SIDD_XML', 'ot': 'MY_OWN_DES'}[idk], DESVER=1)
        return DESSubheaderManager(h, b)

    def img_manager(self, kind):
        from sarpy.io.general.nitf import ImageSubheaderManager
        from sarpy.io.general.nitf_elements.image import ImageSegmentHeader
        self.des_manager(('x', 'oxml'))
        if kind in ('c', 'cn'):
            src = self._swd.image_managers[0]
        else:
            src = self._dwd.image_managers[0]
        hdr = ImageSegmentHeader.from_bytes(src.subheader.to_bytes(), 0)
        if kind == 'cn':          # complex segment without geolocation
            hdr.ICORDS = ' '
            hdr.IGEOLO = None
        m = ImageSubheaderManager(hdr)
        if kind.startswith('d'):
            m.subheader.IID1 = 'SIDD%03d001' % (int(kind[1:]) + 1)
        elif kind == 'o':
            m.subheader.ICAT = 'VIS'
            m.subheader.IID1 = 'OTHER00001'
        return m

    # ---- recipes
    def make(self, r):
        import numpy
        k = r['kind']
        if k == 'file':
            return r['path']
        if k == 'blob':
            p = self.new_path('bin')
            with open(p, 'wb') as f:
                f.write(blob_bytes(r))
            return p
        if k == 'sicd':
            from sarpy.io.complex.sicd import SICDWriter, SICDWritingDetails
            meta = self.sicd_meta(r.get('pixel', 'RE32F_IM32F'))
            wd = SICDWritingDetails(meta, row_limit=r.get('row_limit'), additional_des=[self.des_manager(tuple(e)) for e in r['extra']] or None,
                                    check_older_version=r.get('older', False))
            p = self.new_path('nitf')
            with SICDWriter(p, sicd_writing_details=wd) as w:
                w.write(numpy.zeros((6, 5), dtype='complex64'))
            return p
        if k == 'sidd':
            from sarpy.io.product.sidd import SIDDWriter, SIDDWritingDetails
            metas = [self.sidd_meta(r['version'], r['pixel'], rows) for rows in r['rows']]
            sic = [self.sicd_meta() for _ in range(r['nsicd'])] or None
            gm = None
            if r.get('graphics', 0):
                from sarpy.io.general.nitf import GraphicsSubheaderManager
                from sarpy.io.general.nitf_elements.graphics import GraphicsSegmentHeader
                gm = tuple(GraphicsSubheaderManager(GraphicsSegmentHeader(), b'\x00' * 20) for _ in range(r['graphics']))
            wd = SIDDWritingDetails(metas if len(metas) > 1 else metas[0], sic if sic is None or len(sic) > 1 else sic[0],
                                    row_limit=r.get('row_limit'),
                                    additional_des=[self.des_manager(tuple(e)) for e in r['extra']] or None, graphics_managers=gm)
            p = self.new_path('nitf')
            with SIDDWriter(p, sidd_writing_details=wd) as w:
                for i, rows in enumerate(r['rows']):
                    shape = (rows, 9) if r['pixel'] == 'MONO8I' else (rows, 9, 3)
                    w.write(numpy.zeros(shape, dtype='uint8'), index=i)
            return p
        if k == 'cphd':
            from sarpy.io.phase_history.cphd import CPHDWriter1
            from sarpy.io.phase_history.cphd1_elements.CPHD import CPHDType
            m = CPHDType.from_xml_file(os.path.join(DATA, f'syntax-only-cphd-{r["src"]}.xml'))
            # the syntax-only documents are made self-consistent: no support arrays, no compression, tiny channels
            d = m.Data
            d.SignalCompressionID = None
            d.SupportArrays = None
            m.SupportArray = None
            dt = m.PVP.get_vector_dtype()
            d.NumBytesPVP = dt.itemsize
            pvp, sig = {}, {}
            for c in d.Channels:
                c.NumVectors, c.NumSamples, c.CompressedSignalSize = r.get('nv', 4), r.get('ns', 3), None
                pvp[c.Identifier] = numpy.ones((c.NumVectors,), dtype=dt)
                sig[c.Identifier] = numpy.zeros((c.NumVectors, c.NumSamples), dtype='complex64')
            p = self.new_path('cphd')
            with CPHDWriter1(p, m, check_existence=False, check_older_version=r.get('older', False)) as w:
                w.write_file(pvp, sig, {})
            if r.get('older'):
                with open(p, 'rb') as f:
                    first = f.readline()
                if not first.startswith(b'CPHD/1.0'):
                    raise Infra(f'harness: expected a CPHD/1.0.x file from check_older_version=True, header says {first!r}')
            return p
        if k == 'crsd':
            from sarpy.io.received.crsd import CRSDWriter1
            from sarpy.io.received.crsd1_elements.CRSD import CRSDType
            from sarpy.io.received.crsd1_elements.CollectionID import CollectionIDType
            from sarpy.io.received.crsd1_elements.Data import DataType, ChannelSizeType
            from sarpy.io.received.crsd1_elements import PVP as P
            off, kw = 0, {}
            for n in ['RcvTime', 'RcvPos', 'RcvVel', 'RefPhi0', 'RefFreq', 'DFIC0', 'FICRate', 'FRCV1', 'FRCV2']:
                if n in ('RcvPos', 'RcvVel'):
                    kw[n] = P.PerVectorParameterXYZ(Offset=off); off += 3
                else:
                    kw[n] = P.PerVectorParameterF8(Offset=off); off += 1
            nv, ns = r.get('nv', 4), r.get('ns', 3)
            chans = [ChannelSizeType(Identifier=f'C{i}', NumVectors=nv, NumSamples=ns, SignalArrayByteOffset=i * nv * ns * 8,
                                     PVPArrayByteOffset=i * nv * off * 8) for i in range(r.get('nchan', 1))]
            m = CRSDType(CollectionID=CollectionIDType(CollectorName='S', CoreName='C', CollectType='RECEIVE_ONLY',
                                                       Classification='UNCLASSIFIED', ReleaseInfo='UNRESTRICTED'),
                         Data=DataType(SignalArrayFormat='CF8', NumBytesPVP=off * 8, Channels=chans), PVP=P.PVPType(**kw))
            dt = m.PVP.get_vector_dtype()
            p = self.new_path('crsd')
            with CRSDWriter1(p, m, check_existence=False) as w:
                w.write_file({c.Identifier: numpy.zeros((nv,), dtype=dt) for c in chans},
                             {c.Identifier: numpy.zeros((nv, ns), dtype='complex64') for c in chans}, {})
            return p
        if k == 'sio':
            from sarpy.io.complex.sio import SIOWriter
            p = self.new_path('sio')
            with SIOWriter(p, self.sicd_meta()) as w:
                w.write(numpy.zeros((6, 5), dtype='complex64'))
            return p
        if k == 'nitf':
            from sarpy.io.general.nitf import NITFWritingDetails, NITFWriter
            from sarpy.io.general.nitf_elements.nitf_head import NITFHeader
            ims = tuple(self.img_manager(x) for x in r['images'])
            for i, m in enumerate(ims):
                m.subheader.IDLVL, m.subheader.IALVL = i + 1, 0
            dms = tuple(self.des_manager(tuple(e)) for e in r['des'])
            gm = None
            if r.get('graphics', 0):
                from sarpy.io.general.nitf import GraphicsSubheaderManager
                from sarpy.io.general.nitf_elements.graphics import GraphicsSegmentHeader
                gm = tuple(GraphicsSubheaderManager(GraphicsSegmentHeader(), b'\x00' * 20) for _ in range(r['graphics']))
            wd = NITFWritingDetails(NITFHeader(), image_managers=ims, image_segment_collections=tuple((i,) for i in range(len(ims))),
                                    des_managers=dms or None, graphics_managers=gm)
            p = self.new_path('nitf')
            with open(p, 'w+b') as f:
                with NITFWriter(f, wd):
                    pass
            return p
        if k == 'nitf20':
            # a NITF 2.0 file assembled from sarpy's own 2.0 element classes: one VIS image, one XML DES
            from sarpy.io.general.nitf_elements.nitf_head import NITFHeader0
            from sarpy.io.general.nitf_elements.image import ImageSegmentHeader0, ImageBands, ImageBand
            from sarpy.io.general.nitf_elements.des import DataExtensionHeader0
            img = ImageSegmentHeader0(NROWS=3, NCOLS=4, PVTYPE='INT', IREP='MONO', ICAT='VIS', ABPP=8, IC='NC', IMODE='B',
                                      NPPBH=4, NPPBV=3, NBPP=8, NBPC=1, NBPR=1)
            img.Bands = ImageBands(values=[ImageBand(IREPBAND='M')])
            ib, idata = img.to_bytes(), bytes(12)
            db, ddata = DataExtensionHeader0(DESTAG='XML_DATA_CONTENT', DESVER=1).to_bytes(), OTHER_XML
            h = NITFHeader0(FHDR='NITF', FVER='02.00')
            h.ImageSegments.subhead_sizes = numpy.array([len(ib)]); h.ImageSegments.item_sizes = numpy.array([len(idata)])
            h.DataExtensions.subhead_sizes = numpy.array([len(db)]); h.DataExtensions.item_sizes = numpy.array([len(ddata)])
            hl = h.get_bytes_length()
            h.HL, h.FL = hl, hl + len(ib) + len(idata) + len(db) + len(ddata)
            p = self.new_path('nitf')
            with open(p, 'wb') as f:
                f.write(h.to_bytes() + ib + idata + db + ddata)
            return p
        if k == 'gnitf':
            # a general NITF 2.1 with one image segment written by NITFWriter: category, PVTYPE, NBPP, band labels from the recipe
            from sarpy.io.general.nitf import NITFWritingDetails, NITFWriter, ImageSubheaderManager
            from sarpy.io.general.nitf_elements.nitf_head import NITFHeader
            from sarpy.io.general.nitf_elements.image import ImageSegmentHeader, ImageBands, ImageBand
            sc, rows, cols = r['subcats'], 4, 5
            nb = len(sc)
            hdr = ImageSegmentHeader(IID1='GENERAL001', NROWS=rows, NCOLS=cols, PVTYPE=r['pv'], NBPP=r['nbpp'], ABPP=r['nbpp'],
                                     IREP='MONO' if nb == 1 else ('NODISPLY' if r['icat'].startswith('SAR') else 'MULTI'), ICAT=r['icat'],
                                     IMODE='B' if nb == 1 else 'P', IC='NC', ICORDS='', NPPBH=cols, NPPBV=rows, NBPR=1, NBPC=1, IDLVL=1, IALVL=0,
                                     ILOC='0000000000', Bands=ImageBands(values=[ImageBand(ISUBCAT=x, IREPBAND='M' if nb == 1 else '') for x in sc]))
            wd = NITFWritingDetails(NITFHeader(CLEVEL=3, OSTAID='c14', FTITLE='general', FL=0), image_managers=(ImageSubheaderManager(hdr),),
                                    image_segment_collections=((0,),))
            p = self.new_path('ntf')
            with open(p, 'w+b') as f:
                with NITFWriter(f, wd):
                    pass
            if r.get('relabel'):
                # band labels the writer refuses for this PVTYPE, patched into the written subheader (same field widths)
                with open(p, 'rb') as f:
                    b = f.read()
                for old, new in r['relabel']:
                    if b.count(old.ljust(6).encode()) == 0:
                        raise Infra('harness: band label to patch not found')
                    b = b.replace(old.ljust(6).encode(), new.ljust(6).encode())
                with open(p, 'wb') as f:
                    f.write(b)
            return p
        if k == 'nitf20x':
            # NITF 2.0 assembled by hand (c14x.build_nitf20): image / symbol / label / text / DES segments
            self.des_manager(('x', 'oxml'))
            bodies = {'sicd': self._swd.des_managers[-1].item_bytes, 'sidd': self._dwd.des_managers[0].item_bytes,
                      'oxml': OTHER_XML, 'nxml': NON_XML}
            p = self.new_path('ntf')
            c14x.build_nitf20(p, r['images'], r['nsym'], r['nlab'], r['ntext'], [tuple(e) for e in r['des']], bodies)
            return p
        if k == 'placed':
            # the base file under another name / beside other directory entries
            src = self.make(r['base'])
            self.n += 1
            d = os.path.join(self.tmp, f'env_{self.n:05d}')
            os.mkdir(d)
            dst = os.path.join(d, r.get('name') or os.path.basename(src))
            shutil.move(src, dst)
            for name, hx in r.get('siblings', {}).items():
                with open(os.path.join(d, name), 'wb') as f:
                    f.write(bytes.fromhex(hx))
            return dst
        if k == 'dir':
            self.n += 1
            d = os.path.join(self.tmp, f'dir_{self.n:05d}')
            os.mkdir(d)
            for name, e in r['entries'].items():
                q = os.path.join(d, name)
                os.makedirs(os.path.dirname(q), exist_ok=True)
                if isinstance(e, dict):
                    shutil.move(self.make(e), q)
                else:
                    with open(q, 'wb') as f:
                        f.write(bytes.fromhex(e))
            return d
        if k == 'special':
            if not os.path.exists(r['path']):
                raise Infra(f'{r["path"]} is not available on this machine')
            return r['path']
        raise Infra(f'unknown recipe {r}')

    def discard(self, r, path):
        if r['kind'] in ('file', 'special'):
            return
        top = path
        while os.path.dirname(top) != self.tmp and os.path.dirname(top) not in ('', '/'):
            top = os.path.dirname(top)
        if os.path.dirname(top) != self.tmp:
            return
        if os.path.isdir(top):
            shutil.rmtree(top, ignore_errors=True)
        else:
            try:
                os.remove(top)
            except OSError:
                pass


def blob_bytes(r):
    import random
    n, g = r['n'], r['gen']
    if g == 'bytes':
        return bytes.fromhex(r['hex'])
    if g == 'zeros':
        return b'\x00' * n
    if g == 'text':
        return (b'The quick brown fox jumps over the lazy dog. 0123456789\n' * (n // 56 + 1))[:n]
    if g == 'xml':
        return (b'<?xml version="1.0"?>\n<root><a>1</a><b attr="x">text</b></root>\n' + b' ' * n)[:n]
    rr = random.Random(r['seed'])
    while True:
        b = rr.randbytes(n)
        if not any(b.startswith(s) for s in SIGNATURES) and b[:4] != b'\x89HDF':
            return b


# ---------------------------------------------------------------------------------------------------------------
# running the real entry points

READER_KIND = {'SICDReader': 'sicd', 'ComplexNITFReader': 'complexNitf', 'SIDDReader': 'sidd', 'CPHDReader1': 'cphd',
               'CPHDReader0_3': 'cphd', 'CRSDReader1': 'crsd', 'NITFReader': 'nitf', 'SIOReader': 'sio'}
# (driver key, entry point name, argument kind)
CELLS = [('cp', 'open_complex', 'path'), ('cf', 'open_complex', 'fileobj'), ('pr', 'open_product', 'path'),
         ('pp', 'open_phase_history', 'path'), ('pf', 'open_phase_history', 'fileobj'), ('rc', 'open_received', 'path'),
         ('ge', 'open_general', 'path'), ('op', 'open', 'path')]
FAMILY_OF_EP = {'open_complex': 'complex', 'open_product': 'product', 'open_phase_history': 'phase_history',
                'open_received': 'received', 'open_general': 'general', 'open': 'top'}


def entry_points():
    import sarpy.io
    from sarpy.io.complex.converter import open_complex
    from sarpy.io.product.converter import open_product
    from sarpy.io.phase_history.converter import open_phase_history
    from sarpy.io.received.converter import open_received
    from sarpy.io.general.converter import open_general
    return {'open': sarpy.io.open, 'open_complex': open_complex, 'open_product': open_product,
            'open_phase_history': open_phase_history, 'open_received': open_received, 'open_general': open_general}


def call(ep, path, argkind):
    """-> dict(out='A:<kind>'|'R'|'X', cls, reader_type, exc, fo_ok)"""
    from sarpy.io.general.base import SarpyIOError
    res = {'out': None, 'cls': None, 'reader_type': None, 'exc': None, 'fo_ok': None}
    fo = None
    try:
        if argkind == 'fileobj':
            fo = open(path, 'rb')
            fo.seek(min(3, os.path.getsize(path)))
            arg = fo
        else:
            arg = path
        try:
            rd = ep(arg)
            if rd is None or not hasattr(rd, 'reader_type'):
                res['out'], res['exc'] = 'X', f'returned {type(rd).__name__}'
            else:
                res['cls'] = type(rd).__name__
                res['mro'] = [c.__name__ for c in type(rd).__mro__]
                res['reader_type'] = rd.reader_type
                res['out'] = 'A:' + READER_KIND.get(res['cls'], res['cls'])
                try:
                    rd.close()
                except Exception:
                    pass
        except SarpyIOError:
            res['out'] = 'R'
            if fo is not None:
                try:
                    with open(path, 'rb') as g:
                        first = g.read(4)
                    ok = (not fo.closed) and fo.seek(0) == 0 and fo.read(4) == first
                except Exception as e:
                    ok = False
                    res['exc'] = f'file object unusable after rejection: {type(e).__name__}: {e}'
                res['fo_ok'] = ok
        except Exception as e:
            res['out'] = 'X'
            res['exc'] = f'{type(e).__module__}.{type(e).__name__}: {str(e)[:160]}'
            res['exc_type'] = type(e).__name__
    finally:
        if fo is not None and not fo.closed:
            fo.close()
    return res


def details_level(path):
    """SICDDetails / SIDDDetails on a NITF file -> ('sd', n|'N'|'X'), ('dd', 'a/b'|'N'|'X')"""
    from sarpy.io.general.base import SarpyIOError
    from sarpy.io.complex.sicd import SICDDetails
    from sarpy.io.product.sidd import SIDDDetails
    try:
        d = SICDDetails(path)
        sd = str(d._des_index) if d.is_sicd else 'N'
        d.close() if hasattr(d, 'close') else None
    except SarpyIOError:
        sd = 'N'
    except Exception as e:
        sd = 'X ' + type(e).__name__
    try:
        d = SIDDDetails(path)
        dd = f'{len(d.sidd_meta)}/{len(d.sicd_meta)}' if d.is_sidd else 'N'
    except SarpyIOError:
        dd = 'N'
    except Exception as e:
        dd = 'X ' + type(e).__name__
    return sd, dd


# ---------------------------------------------------------------------------------------------------------------
# expectations stated from the recipe (direct oracle)

EXPECT = {   # label -> (entry point that must accept, base class name that the reader must derive from, reader_type)
    'SICD': ('open_complex', 'SICDReader', 'SICD'),
    'SIDD': ('open_product', 'SIDDReader', 'SIDD'),
    'CPHD': ('open_phase_history', 'CPHDTypeReader', 'CPHD'),
    'CRSD': ('open_received', 'CRSDTypeReader', 'CRSD'),
    'SIO': ('open_complex', 'SIOReader', 'SICD'),
    'NITF-complex': ('open_complex', 'ComplexNITFReader', 'SICD'),
    'NITF-general': (None, None, None),
}
FILEOBJ_OK = {'SICD', 'CPHD'}     # kinds for which the file-object form of the right opener must also accept


def base_recipe(r):
    """the recipe of the file itself (a `placed` recipe wraps one)"""
    while r.get('kind') == 'placed':
        r = r['base']
    return r


def nitf20_complex_like(r):
    """stated from the recipe: a complex-like SAR segment and no integer SAR segment (which makes extract_sicd refuse)"""
    return any(x in ('c', 'cn') for x in r['images']) and not any(x.startswith('d') for x in r['images'])


def is_a_outcome(fn, path, argkind):
    """one real `is_a` -> 'A:<kind>' | 'R' | 'X' (+ exception text)"""
    from sarpy.io.general.base import SarpyIOError
    fo = None
    try:
        if argkind == 'fileobj':
            fo = open(path, 'rb')
            fo.seek(min(3, os.path.getsize(path)))
        try:
            rd = fn(fo if fo is not None else path)
        except SarpyIOError as e:
            return 'XS', f'SarpyIOError escaped is_a: {str(e)[:80]}'
        except Exception as e:
            return 'X', f'{type(e).__name__}: {str(e)[:80]}'
        if rd is None:
            return 'R', None
        cls = type(rd).__name__
        try:
            rd.close()
        except Exception:
            pass
        return 'A:' + READER_KIND.get(cls, cls), None
    finally:
        if fo is not None and not fo.closed:
            fo.close()


def classify_failure(label, recipe, epname, argkind, res):
    """stable keys for the defects this check is known to reproduce"""
    et = res.get('exc_type')
    if recipe['kind'] == 'blob' and recipe['n'] < 4 and epname in ('open_complex', 'open') and argkind == 'path' and et == 'error':
        return 'short-file-struct-error-via-sio'
    if recipe['kind'] == 'nitf20' and epname in ('open_complex', 'open_product', 'open') and et == 'AttributeError':
        return 'nitf20-graphics-attribute-error'
    if recipe['kind'] == 'sidd' and recipe.get('graphics', 0) and epname in ('open_product', 'open'):
        return 'sidd-writer-graphics-segment'
    b = base_recipe(recipe)
    sibs = recipe.get('siblings', {}) if recipe['kind'] == 'placed' else recipe.get('entries', {}) if recipe['kind'] == 'dir' else {}
    if epname in ('open_complex', 'open', 'open_general') and et == 'IndexError' and b['kind'] == 'blob' and b['n'] < 4 \
            and blob_bytes(b)[:2] in (b'II', b'MM'):
        return 'tiff-short-index-error'
    if epname in ('open_complex', 'open') and argkind == 'path' and et == 'ParseError' and \
            (recipe.get('name') == 'product.xml' or 'product.xml' in sibs or 'metadata/product.xml' in sibs):
        return 'product-xml-name-parse-error'
    if epname in ('open_complex', 'open') and argkind == 'path' and et == 'ValueError' and 'Poorly formed xml declaration' in (res.get('exc') or '') \
            and ((recipe.get('name') or '').endswith('.xml') or any(k.endswith('.xml') for k in sibs)):
        return 'tsx-dangling-xml-declaration'
    if epname in ('open_complex', 'open') and argkind == 'path' and et == 'ValueError' and recipe['kind'] == 'special':
        return 'special-file-value-error'
    if epname in ('open_complex', 'open') and argkind == 'path' and et == 'error' and \
            any(k.startswith(c14x.PALSAR_PREFIXES) and len(v) < 24 for k, v in sibs.items() if isinstance(v, str)):
        return 'palsar-short-sibling-struct-error'
    if b['kind'] == 'nitf20x' and epname in ('open_complex', 'open') and argkind == 'path' and et == 'AttributeError' \
            and any(x != 'o' for x in b['images']):
        return 'nitf20-sar-image-attribute-error'
    if b['kind'] in ('nitf20x', 'nitf') and epname in ('open_complex', 'open') and argkind == 'path' and et == 'TypeError' \
            and 'cn' in b['images']:
        return 'nitf-sar-image-without-igeolo-type-error'
    return f'{label}:{epname}:{argkind}:{res["out"]}:{et}'


def oracle_cell(label, recipe, epname, argkind, res, results):
    """-> failure message or None.  `results` = all cells of this file (for the top-level comparison)"""
    out = res['out']
    place = ''
    if recipe.get('kind') == 'placed':
        place = f' (as {recipe.get("name") or "its own name"}' + (f', beside {sorted(recipe["siblings"])}' if recipe.get('siblings') else '') + ')'
        recipe_file = base_recipe(recipe)
    else:
        recipe_file = recipe
    if label in ('BLOB', 'DIR', 'SPECIAL'):
        what = {'BLOB': lambda: f'signature-less {recipe_file["gen"]} string of length {recipe_file["n"]}{place}',
                'DIR': lambda: f'directory with entries {sorted(recipe["entries"])}',
                'SPECIAL': lambda: f'special file {recipe["path"]}'}[label]()
        if out != 'R':
            return f'{what}: {epname}({argkind}) ' + \
                   (f'raised {res["exc"]}' if out == 'X' else f'returned a {res["cls"]}') + ' instead of raising SarpyIOError'
        if res['fo_ok'] is False:
            return f'{epname}(file object) rejected {what} but left the file object unusable'
        return None
    if label == 'NITF20':
        # NITF 2.0 container without SICD / SIDD document, stated from the recipe
        cl = nitf20_complex_like(recipe_file)
        what = f'NITF 2.0 file {short(recipe_file)}{place}'
        if out == 'X':
            return f'{what}: {epname}({argkind}) raised {res["exc"]} (neither a reader nor SarpyIOError)'
        if res['fo_ok'] is False:
            return f'{what}: {epname}(file object) rejected the file but left the file object closed/unusable'
        want = {('open_complex', 'path'): 'ComplexNITFReader' if cl else None, ('open_general', 'path'): 'NITFReader',
                ('open', 'path'): 'ComplexNITFReader' if cl else 'NITFReader'}.get((epname, argkind))
        if want is None and out != 'R':
            return f'{what}: {epname}({argkind}) returned a {res["cls"]} instead of raising SarpyIOError'
        if want is not None and res['cls'] != want:
            return f'{what}: {epname}({argkind}) gave {out} ({res["cls"]}), expected a {want}'
        return None
    if label == 'NITF-arbitrary':
        if out == 'X' and not recipe.get('inconsistent'):
            return f'general NITF {short(recipe)}: {epname}({argkind}) raised {res["exc"]}'
        if res['fo_ok'] is False:
            return f'{epname}(file object) rejected the file but left the file object unusable'
        return None
    want_ep, want_base, want_rt = EXPECT[label]
    fam = FAMILY_OF_EP[epname]
    if out == 'X':
        return f'{label} file {short(recipe_file)}{place}: {epname}({argkind}) raised {res["exc"]} (neither a reader nor SarpyIOError)'
    if res['fo_ok'] is False:
        return f'{label} file {short(recipe_file)}{place}: {epname}(file object) rejected the file but left the file object closed/unusable'
    if epname == want_ep:
        must_accept = argkind == 'path' or label in FILEOBJ_OK
        if must_accept:
            if out == 'R':
                return f'{label} file {short(recipe_file)}{place}: its own opener {epname}({argkind}) refused it'
            if want_base not in res['mro'] or res['reader_type'] != want_rt:
                return f'{label} file {short(recipe)}: {epname}({argkind}) returned {res["cls"]} (reader_type {res["reader_type"]}), expected a {want_base}'
        elif out.startswith('A:') and want_base not in res['mro']:
            return f'{label} file {short(recipe)}: {epname}({argkind}) returned {res["cls"]}, expected a {want_base} or SarpyIOError'
        return None
    if fam == 'general':
        if label in ('CPHD', 'CRSD', 'SIO') and out != 'R':
            return f'{label} file: open_general returned {res["cls"]}'
        if label in ('SICD', 'SIDD', 'NITF-complex', 'NITF-general') and (out != 'A:nitf' or res['cls'] != 'NITFReader'):
            return f'{label} file {short(recipe)}: open_general gave {out}, expected the plain NITFReader'
        return None
    if fam == 'top':
        if want_ep is None:
            if res['cls'] != 'NITFReader':
                return f'general NITF {short(recipe)}: sarpy.io.open gave {out}/{res["cls"]}, expected the plain NITFReader'
            return None
        own = results.get((want_ep, 'path'))
        if out == 'R' or own is None or res['cls'] != own['cls'] or res['reader_type'] != want_rt:
            return f'{label} file {short(recipe_file)}{place}: sarpy.io.open gave {out} ({res["cls"]}) but {want_ep} gives {own and own["out"]}'
        return None
    # one of the three other families
    if out != 'R':
        return f'{label} file {short(recipe_file)}{place}: foreign opener {epname}({argkind}) returned a {res["cls"]} instead of raising SarpyIOError'
    return None


def short(recipe):
    r = {k: v for k, v in recipe.items() if k not in ('kind', 'label')}
    return json.dumps(r, separators=(',', ':'))[:150]


# ---------------------------------------------------------------------------------------------------------------
# case generation

NEUTRAL_DES = [('x', 'oxml'), ('x', 'nxml'), ('ot', 'oxml'), ('ot', 'nxml'), ('ot', 'sicd'), ('ot', 'sidd'), ('oc', 'oxml'), ('oc', 'nxml')]
ALL_DES = [(i, b) for i in ('x', 'os', 'oc', 'ot') for b in ('sicd', 'sidd', 'oxml', 'nxml')]


def rand_extra(rng, maxlen=4):
    n = rng.choice([0, 0, 1, 1, 2, 3, maxlen])
    return [list(rng.choice(NEUTRAL_DES)) for _ in range(n)]


def written_recipes(rng, tier):
    out = []
    nrep = 2 if tier == 'quick' else 12
    # SICD: additional DES in front, 1..3 image segments, pixel types, older version
    sic = [{'extra': [], 'row_limit': None}, {'extra': [['x', 'oxml']], 'row_limit': None}, {'extra': [['x', 'nxml'], ['ot', 'sidd']], 'row_limit': 3},
           {'extra': [], 'row_limit': 2, 'older': True}, {'extra': [['oc', 'oxml']], 'row_limit': None, 'pixel': 'RE16I_IM16I'},
           {'extra': [], 'row_limit': None, 'pixel': 'AMP8I_PHS8I'}]
    for _ in range(6 * nrep):
        sic.append({'extra': rand_extra(rng), 'row_limit': rng.choice([None, None, 2, 3, 4]), 'pixel': rng.choice(['RE32F_IM32F', 'RE32F_IM32F', 'RE16I_IM16I'])})
    for s in sic:
        out.append(dict(s, kind='sicd', label='SICD'))
    # SIDD: versions 1..3, 1..3 products, 0..2 embedded SICD, additional DES, segments per product, pixel type
    sid = []
    for v in (1, 2, 3):
        sid.append({'version': v, 'pixel': 'MONO8I', 'rows': [7], 'nsicd': 0, 'extra': [], 'row_limit': None})
        sid.append({'version': v, 'pixel': 'MONO8I', 'rows': [7], 'nsicd': 1, 'extra': [], 'row_limit': None})
        sid.append({'version': v, 'pixel': rng.choice(['MONO8I', 'RGB24I']), 'rows': [rng.randint(4, 9) for _ in range(rng.choice([2, 3]))],
                    'nsicd': rng.choice([0, 1, 2]), 'extra': rand_extra(rng), 'row_limit': rng.choice([None, 3, 4])})
    for _ in range(7 * nrep):
        sid.append({'version': rng.choice([1, 2, 3]), 'pixel': rng.choice(['MONO8I', 'RGB24I']),
                    'rows': [rng.randint(4, 9) for _ in range(rng.choice([1, 1, 2, 3, 4]))], 'nsicd': rng.choice([0, 1, 1, 2]),
                    'extra': rand_extra(rng), 'row_limit': rng.choice([None, None, 2, 3, 5])})
    for s in sid:
        out.append(dict(s, kind='sidd', label='SIDD', graphics=0))
    # the SIDD writer's graphics_managers parameter
    out.append({'kind': 'sidd', 'label': 'SIDD', 'version': 3, 'pixel': 'MONO8I', 'rows': [7], 'nsicd': 1, 'extra': [], 'row_limit': None, 'graphics': 1})
    for src in ['1.0.1-monostatic', '1.0.1-bistatic', '1.1.0-monostatic', '1.1.0-bistatic', '1.1.0-monostatic-minimal']:
        out.append({'kind': 'cphd', 'label': 'CPHD', 'src': src, 'nv': rng.randint(1, 6), 'ns': rng.randint(1, 6)})
        if src.startswith('1.0.1'):
            # the oldest version that can hold the metadata: the file type header then says CPHD/1.0.1
            out.append({'kind': 'cphd', 'label': 'CPHD', 'src': src, 'nv': rng.randint(1, 6), 'ns': rng.randint(1, 6), 'older': True})
    for nchan in (1, 2, 3):
        out.append({'kind': 'crsd', 'label': 'CRSD', 'nchan': nchan, 'nv': rng.randint(1, 6), 'ns': rng.randint(1, 6)})
    out.append({'kind': 'sio', 'label': 'SIO'})
    # general NITF
    out.append({'kind': 'file', 'label': 'NITF-general', 'path': os.path.join(DATA, 'iq.nitf')})
    out.append({'kind': 'nitf', 'label': 'NITF-general', 'images': ['o'], 'des': [], 'graphics': 0})
    out.append({'kind': 'nitf', 'label': 'NITF-general', 'images': ['o'], 'des': [['x', 'oxml'], ['ot', 'nxml']], 'graphics': 0})
    out.append({'kind': 'nitf', 'label': 'NITF-general', 'images': ['o', 'o'], 'des': [['x', 'nxml']], 'graphics': 1})
    out.append({'kind': 'nitf', 'label': 'NITF-complex', 'images': ['c'], 'des': [], 'graphics': 0})
    out.append({'kind': 'nitf', 'label': 'NITF-complex', 'images': ['o', 'c'], 'des': [['x', 'oxml']], 'graphics': 0})
    out.append({'kind': 'nitf20', 'label': 'NITF-general'})
    # a complex NITF 2.1 whose SAR image segment carries no geolocation (ICORDS blank, no IGEOLO)
    out.append({'kind': 'nitf', 'label': 'NITF-complex', 'images': ['cn'], 'des': [], 'graphics': 0})
    return out


def arbitrary_recipes(rng, tier):
    out = []
    n = 160 if tier == 'quick' else 2500
    pool = ['c', 'd0', 'd1', 'o']
    for _ in range(n):
        k = rng.choice([1, 1, 2, 2, 3])
        imgs = rng.sample(pool, k)
        des = [list(rng.choice(ALL_DES)) for _ in range(rng.choice([0, 1, 1, 2, 2, 3, 4, 5]))]
        if rng.random() < 0.5:     # bias towards SICD/SIDD documents under the XML id
            des = [list(rng.choice([('x', 'sicd'), ('x', 'sidd'), ('x', 'oxml'), ('x', 'nxml'), ('os', 'sidd'), ('oc', 'sicd')])) for _ in des]
        g = 1 if rng.random() < 0.1 else 0
        # stated from the recipe: SIDD documents present, SIDD-named segments present, and their bookkeeping does not match
        nsidd = sum(1 for i, b in des if i in ('x', 'os') and b == 'sidd')
        dk = sorted(int(x[1:]) for x in imgs if x.startswith('d'))
        inconsistent = nsidd > 0 and len(dk) > 0 and dk != list(range(nsidd))
        out.append({'kind': 'nitf', 'label': 'NITF-arbitrary', 'images': imgs, 'des': des, 'graphics': g, 'inconsistent': inconsistent})
    return out


def blob_recipes(rng, tier):
    out = []
    lengths = list(range(0, 65)) + [2 ** k for k in range(7, 21)]
    reps = 1 if tier == 'quick' else 6
    for n in lengths:
        for g in ('random', 'zeros', 'text', 'xml'):
            for _ in range(reps if g == 'random' else 1):
                out.append({'kind': 'blob', 'label': 'BLOB', 'gen': g, 'n': n, 'seed': rng.getrandbits(48)})
    return out


def env_recipes(rng, tier):
    """the same files under the names / in the surroundings the vendor openers look at; directories; a special file"""
    out = []
    sicd = {'kind': 'sicd', 'label': 'SICD', 'extra': [], 'row_limit': None}
    sidd = {'kind': 'sidd', 'label': 'SIDD', 'version': 3, 'pixel': 'MONO8I', 'rows': [7], 'nsicd': 1, 'extra': [], 'row_limit': None, 'graphics': 0}
    cphd = {'kind': 'cphd', 'label': 'CPHD', 'src': '1.1.0-monostatic-minimal', 'nv': 2, 'ns': 3}
    crsd = {'kind': 'crsd', 'label': 'CRSD', 'nchan': 1, 'nv': 2, 'ns': 3}
    text = {'kind': 'blob', 'label': 'BLOB', 'gen': 'text', 'n': 40, 'seed': 0}
    empty = {'kind': 'blob', 'label': 'BLOB', 'gen': 'zeros', 'n': 0, 'seed': 0}
    xml = {'kind': 'blob', 'label': 'BLOB', 'gen': 'xml', 'n': 80, 'seed': 0}

    def raw(b):
        return {'kind': 'blob', 'label': 'BLOB', 'gen': 'bytes', 'hex': b.hex(), 'n': len(b), 'seed': 0}
    bases = [sicd, sidd, cphd, crsd, text, empty, xml]
    if tier != 'quick':
        bases += [dict(sicd, extra=[['x', 'oxml']], row_limit=3), dict(sidd, version=2, rows=[5, 6]), raw(rng.randbytes(33))]
    for b in bases:
        for name in ('product.xml', 'manifest.safe', 'data.xml'):
            out.append({'kind': 'placed', 'label': b['label'], 'base': b, 'name': name})
    # PALSAR-named directory entries: the file itself, a long sibling that is no PALSAR file, a short sibling
    other = bytes(range(32)).hex()
    for b in (sicd, text):
        out.append({'kind': 'placed', 'label': b['label'], 'base': b, 'name': 'IMG-OWN-NAME.dat'})
        out.append({'kind': 'placed', 'label': b['label'], 'base': b, 'name': None, 'siblings': {'IMG-OTHER': other, 'LED-OTHER': other}})
        out.append({'kind': 'placed', 'label': b['label'], 'base': b, 'name': None, 'siblings': {'IMG-x': '6162'}})
    # leading bytes that are a prefix of a vendor signature but no signature
    for b in (b'II', b'MM', b'II*', b'MM\x00', b'I', b'M', b'IIII', b'MMMM', b'II\x00*', b'\x89HD', b'\x89', b'GSATIM', b'GSAT', b'NIT', b'NITF', b'NITF02.1',
              b'CPH', b'CRS', b'\xff\x01\x7f', b'<?xm'):
        out.append(raw(b))
    # XML-looking content under an .xml name (TerraSAR-X looks at the first 200 bytes)
    for b in (b'<?xml', b'<?xml version="1.0"', b'<?xml version="1.0"?><root/>', b'hello', b'', b'<level1Produc', b'  <root/>'):
        out.append({'kind': 'placed', 'label': 'BLOB', 'base': raw(b), 'name': 'x.xml'})
    # directories
    junk = b'not xml at all'.hex()
    out.append({'kind': 'dir', 'label': 'DIR', 'entries': {}})
    out.append({'kind': 'dir', 'label': 'DIR', 'entries': {'plain.nitf': sicd}})
    out.append({'kind': 'dir', 'label': 'DIR', 'entries': {'a.txt': junk, 'b.bin': '00'}})
    out.append({'kind': 'dir', 'label': 'DIR', 'entries': {'product.xml': junk}})
    out.append({'kind': 'dir', 'label': 'DIR', 'entries': {'metadata/product.xml': junk}})
    out.append({'kind': 'dir', 'label': 'DIR', 'entries': {'manifest.safe': junk}})
    out.append({'kind': 'dir', 'label': 'DIR', 'entries': {'q.xml': b'<?xml ver'.hex()}})
    out.append({'kind': 'dir', 'label': 'DIR', 'entries': {'q.xml': b'<?xml version="1.0"?><root/>'.hex(), 'r.xml': junk}})
    out.append({'kind': 'dir', 'label': 'DIR', 'entries': {'IMG-x': '6162'}})
    out.append({'kind': 'dir', 'label': 'DIR', 'entries': {'IMG-OTHER': other}})
    if os.path.exists('/dev/null'):
        out.append({'kind': 'special', 'label': 'SPECIAL', 'path': '/dev/null'})
    return out


NEUTRAL_20 = [('x', 'oxml'), ('x', 'nxml'), ('ot', 'oxml'), ('ot', 'nxml'), ('oc', 'oxml'), ('oc', 'nxml')]


def nitf20_recipes(rng, tier):
    """hand-assembled NITF 2.0 containers without SICD / SIDD document (label NITF20: decided by the oracle), and a few with one
    (label NITF20-des: SICDDetails / SIDDDetails level only - no sarpy writer produces them)"""
    def rec(images, nsym, nlab, ntext, des, label='NITF20'):
        return {'kind': 'nitf20x', 'label': label, 'images': images, 'nsym': nsym, 'nlab': nlab, 'ntext': ntext, 'des': [list(e) for e in des]}
    out = [rec(['o'], 0, 0, 0, []), rec(['o'], 0, 0, 0, [('x', 'oxml')]), rec(['c'], 0, 0, 0, []), rec(['c'], 0, 0, 0, [('x', 'oxml')]),
           rec(['c', 'o'], 1, 0, 0, [('x', 'oxml')]), rec(['o', 'c'], 0, 2, 1, [('x', 'oxml'), ('ot', 'nxml')]),
           rec(['d0'], 1, 1, 1, [('ot', 'nxml')]), rec(['d0', 'c'], 0, 0, 0, []), rec(['c', 'c'], 2, 1, 0, [('oc', 'nxml')]),
           rec(['cn'], 0, 0, 0, []), rec(['o', 'cn'], 1, 0, 0, [('x', 'oxml')])]
    for _ in range(6 if tier == 'quick' else 60):
        imgs = [rng.choice(['c', 'o', 'o', 'd0']) for _ in range(rng.choice([1, 1, 2, 3]))]
        out.append(rec(imgs, rng.choice([0, 0, 1, 2]), rng.choice([0, 0, 1, 2]), rng.choice([0, 1]),
                       [rng.choice(NEUTRAL_20) for _ in range(rng.choice([0, 1, 1, 2, 3]))]))
    for nsym, nlab, des in [(0, 0, [('x', 'sicd')]), (1, 0, [('x', 'sicd')]), (0, 2, [('x', 'oxml'), ('oc', 'sicd')]), (0, 0, [('x', 'sidd'), ('x', 'sicd')]),
                            (2, 1, [('os', 'sidd')])]:
        out.append(rec(['c'], nsym, nlab, 0, des, label='NITF20-des'))
    return out


GN_PIXELS = [('INT', 8), ('INT', 16), ('INT', 32), ('SI', 16), ('SI', 32), ('R', 32), ('R', 64), ('C', 64)]
GN_LABELS = {1: [['']], 2: [['I', 'Q'], ['Q', 'I'], ['M', 'P'], ['P', 'M'], ['', ''], ['I', '']], 3: [['', '', ''], ['I', 'Q', '']],
             4: [['I', 'Q', 'I', 'Q'], ['M', 'P', 'M', 'P'], ['I', 'Q', 'Q', 'I'], ['Q', 'I', 'Q', 'I'], ['', '', '', ''], ['I', 'Q', 'M', 'P']]}


def gnitf_label(r):
    """what the property expects of a general NITF with this one image segment, stated from the recipe alone"""
    sar, pv, sc = r['icat'] in ('SAR', 'SARIQ'), r['pv'], r['subcats']
    n = len(sc)
    first = (sc[0] + sc[1]) if n >= 2 else ''
    pair = n % 2 == 0 and first in ('IQ', 'QI', 'MP', 'PM')
    if pv != 'C' and not pair:
        return 'NITF-general'        # real-valued pixels, no complex band pairing: a general NITF whatever its category
    if not sar:
        return 'NITF-arbitrary'      # complex-looking data outside the SAR categories: no expectation beyond "does not raise"
    if n % 2 == 1:
        return 'NITF-complex'        # natively complex pixels (PVTYPE C)
    if pair and all(sc[i] + sc[i + 1] == first for i in range(2, n, 2)) and \
            ((first in ('IQ', 'QI') and pv in ('SI', 'R')) or (first in ('MP', 'PM') and pv == 'R')):
        return 'NITF-complex'
    return 'NITF-arbitrary'


def writer_refuses(pv, sc):
    """NITFWriter itself refuses band labels that do not fit the PVTYPE (validation of the image subheader)"""
    if len(sc) < 2:
        return False
    first = sc[0] + sc[1]
    return (first in ('IQ', 'QI') and pv not in ('SI', 'R')) or (first in ('MP', 'PM') and pv not in ('INT', 'R'))


def gnitf_recipes(rng, tier):
    """general NITF files over ICAT x (PVTYPE, NBPP) x band count 1..4 x ISUBCAT labellings"""
    out = []
    for icat in ('SAR', 'SARIQ', 'VIS', 'EO'):
        cases = []
        for pv, nbpp in GN_PIXELS:
            for n in (1, 2, 3, 4):
                for sc in GN_LABELS[n]:
                    if writer_refuses(pv, sc) or (icat in ('VIS', 'EO') and any(sc) and sc[:2] not in (['I', 'Q'], ['M', 'P'])):
                        continue
                    cases.append({'kind': 'gnitf', 'icat': icat, 'pv': pv, 'nbpp': nbpp, 'subcats': sc})
        if tier == 'quick' and icat != 'SAR':
            cases = rng.sample(cases, 24)
        for c in cases:
            c['label'] = gnitf_label(c)
            out.append(c)
    # a PVTYPE that does not fit the labelling of a multi-pair segment (the writer refuses these: labels patched afterwards)
    out.append({'kind': 'gnitf', 'label': 'NITF-muddled', 'icat': 'SAR', 'pv': 'SI', 'nbpp': 16, 'subcats': ['I', 'Q', 'I', 'Q'],
                'relabel': [['I', 'M'], ['Q', 'P']]})
    return out


def writer_model_query(r):
    """driver request that makes the writer model produce the descriptor of this recipe (None if not a modelled writer)"""
    def toks(extra):
        return ','.join(f'{i}:{b}' for i, b in extra) or '-'
    if r['kind'] == 'sicd':
        rl = r.get('row_limit')
        nseg = 1 if not rl else -(-6 // rl)
        return f'opener wsicd {nseg - 1} {toks(r["extra"])}'
    if r['kind'] == 'sidd':
        rl = r.get('row_limit')
        segs = [(1 if not rl else -(-rows // rl)) - 1 for rows in r['rows']]
        return f'opener wsidd {",".join(map(str, segs))} {r["nsicd"]} {r.get("graphics", 0)} {toks(r["extra"])}'
    if r['kind'] in ('cphd', 'crsd', 'sio'):
        return f'opener w{r["kind"]}'
    return None


# ---------------------------------------------------------------------------------------------------------------

def run(tier):
    sarpy_guard()
    logging.disable(logging.CRITICAL)
    warnings.simplefilter('ignore')
    chk = Check('C14', tier)
    rng = chk.rng
    import gen_openers
    try:
        gen_info = gen_openers.generate(GEN_OPENERS)
    except Exception as e:
        gen_info = {'unsupported': [f'translate/gen_openers.py crashed: {type(e).__name__}: {e}']}
    broken = chk.prove(['SarpyModel.Props.C14Vendor', 'SarpyModel.Bridge.Openers'], 'SarpyModel.Props.C14Vendor', 'Sarpy.Props.C14',
                       REQUIRED + REQUIRED_V, gen_info, extra=[('SarpyModel.Bridge.Openers', 'Sarpy.Bridge.Openers', BRIDGE_REQUIRED)])
    if gen_info['unsupported']:
        broken.append('the opener translator could not express: ' + json.dumps(gen_info['unsupported'])[:600])
    eps = entry_points()
    policy = source_policy()
    reg = c14x.registered()

    tmp = tempfile.mkdtemp(dir='/var/tmp', prefix='c14_')
    fails, disagreements, notes = [], [], []
    cells_run = 0
    classes = set()
    matrix = {}
    unmodelled = 0
    timing = {}
    try:
        fac = Factory(tmp)
        # ---- reader-side switches measured on the implementation (Policy2 of the model)
        try:
            bits, policy_info = c14x.probe_policy(tmp, policy)
        except Exception as e:
            raise Infra(f'policy probes failed: {type(e).__name__}: {e}')
        skips = bits[1] == '1'
        tab_flags = c14x.flags_from_tables(GEN_OPENERS)
        if policy_info.get('palsar2_on_dev_null') == 'unavailable' and tab_flags is not None:
            bits = bits[:6] + tab_flags[3]      # no special file to probe with on this machine: take the switch from the regenerated table
        if tab_flags is not None and tab_flags != bits[3:7]:
            disagreements.append({'msg': f'guard-defect flags: the regenerated tables show {tab_flags} (tiffShort radarsatParse tsxDangling palsarSpecial) '
                                         f'but the probes on the implementation measure {bits[3:7]}', 'recipe': {'kind': 'probe'}})
        recipes = written_recipes(rng, tier) + nitf20_recipes(rng, tier) + gnitf_recipes(rng, tier) + env_recipes(rng, tier) + \
            arbitrary_recipes(rng, tier) + blob_recipes(rng, tier)
        drv = Driver()
        records = []
        t_build = time.time()
        for r in recipes:
            try:
                path = fac.make(r)
            except Infra:
                raise
            except Exception as e:
                fails.append({'key': f'build:{r["kind"]}', 'msg': f'could not build {r["label"]} file {short(r)}: {type(e).__name__}: {e}',
                              'recipe': r, 'trace': traceback.format_exc()[-1500:]})
                continue
            desc, magic, symlab = describe(path, skips)
            rec = {'recipe': r, 'path': path, 'desc': desc, 'magic': magic, 'q': None, 'wq': None, 'vq': {}}
            if desc is not None:
                rec['q'] = drv.ask(f'opener eval {policy} ' + desc)
                for argkind in ('path', 'fileobj'):
                    if argkind == 'fileobj' and not os.path.isfile(path) and r['kind'] != 'special':
                        continue
                    rec['vq'][argkind] = drv.ask(f'opener vendor {bits} {c14x.world_of(path, argkind)} {desc} {symlab}')
            else:
                unmodelled += 1
            wq = writer_model_query(base_recipe(r))
            if wq is not None:
                rec['wq'] = drv.ask(wq)
            records.append(rec)
            # files are built and looked at one after the other, but they must exist while the openers run: keep them
        timing['build_s'] = round(time.time() - t_build, 2)
        try:
            ans = drv.run()
        except Infra as e:
            ans = None
            broken.append('model driver does not build/run: ' + str(e)[:300])

        t_run = time.time()
        isa_checked = 0
        isa_opaque = 0
        for rec in records:
            r, path, label = rec['recipe'], rec['path'], rec['recipe']['label']
            model = None
            vmodel = {}
            if ans is not None and rec['q'] is not None:
                if ans[rec['q']] == 'bad-op':
                    disagreements.append({'msg': f'driver refused descriptor {rec["desc"]}', 'recipe': r})
                else:
                    model = dict(t.split('=', 1) for t in ans[rec['q']].split())
                for argkind, q in rec['vq'].items():
                    if ans[q] == 'bad-op':
                        disagreements.append({'msg': f'driver refused world/descriptor of {short(r)} ({argkind})', 'recipe': r})
                    else:
                        vmodel[argkind] = dict(t.split('=', 1) for t in ans[q].split())
            # writer model tie
            if ans is not None and rec['wq'] is not None and rec['desc'] is not None:
                if ans[rec['wq']] != rec['desc']:
                    disagreements.append({'msg': f'writer model gives descriptor [{ans[rec["wq"]]}] but the written file has [{rec["desc"]}]', 'recipe': r})
            if label == 'NITF20-des':
                # no writer of sarpy produces these: SICDDetails / SIDDDetails level only (what the DES scan finds where it looks)
                if vmodel.get('path') is not None:
                    sd, dd = details_level(path)
                    cells_run += 2
                    if skips and rec['recipe']['nsym'] + rec['recipe']['nlab'] > 0:
                        exp_sd, exp_dd = 'N', 'N'        # every DES is read at a wrong offset: nothing is found
                    else:
                        exp_sd, exp_dd = model['sd'], model['dd']
                    if sd != exp_sd:
                        disagreements.append({'msg': f'NITF 2.0 [{rec["desc"]}] symbols/labels {rec["recipe"]["nsym"]}/{rec["recipe"]["nlab"]}: model sicdDetails={exp_sd} but SICDDetails gives {sd}', 'recipe': r})
                    if dd != exp_dd:
                        disagreements.append({'msg': f'NITF 2.0 [{rec["desc"]}] symbols/labels {rec["recipe"]["nsym"]}/{rec["recipe"]["nlab"]}: model siddDetails={exp_dd} but SIDDDetails gives {dd}', 'recipe': r})
                fac.discard(r, path)
                continue
            if label == 'NITF-muddled':
                # an inconsistent subheader no writer of sarpy produces: only the decision of the fallback opener is compared
                if vmodel.get('path') is not None and vmodel['path']['final'] != 'D':
                    out, exc = is_a_outcome(reg['final'], path, 'path')
                    isa_checked += 1
                    if out != vmodel['path']['final']:
                        disagreements.append({'msg': f'guard table of final says {vmodel["path"]["final"]} for {short(r)} [{rec["desc"]}] but final_attempt gives {out} {exc or ""}', 'recipe': r})
                fac.discard(r, path)
                continue
            results = {}
            cells = [c for c in CELLS if c[2] == 'path' or os.path.isfile(path) or r['kind'] == 'special']
            for key, epname, argkind in cells:
                res = call(eps[epname], path, argkind)
                results[(epname, argkind)] = res
                cells_run += 1
                matrix.setdefault(label, {}).setdefault(f'{epname}/{argkind}', {}).setdefault(res['out'], 0)
                matrix[label][f'{epname}/{argkind}'][res['out']] += 1
            flagged = set()
            vkey = {'cp': ('path', 'cx'), 'cf': ('fileobj', 'cx'), 'pr': ('path', 'pr'), 'pp': ('path', 'ph'), 'pf': ('fileobj', 'ph'),
                    'rc': ('path', 'rc'), 'ge': ('path', 'ge'), 'op': ('path', 'op')}
            for key, epname, argkind in cells:
                res = results[(epname, argkind)]
                msg = oracle_cell(label, r, epname, argkind, res, results)
                if msg:
                    flagged.add((epname, argkind))
                    fails.append({'key': classify_failure(label, r, epname, argkind, res), 'msg': msg, 'recipe': r,
                                  'entry_point': epname, 'argument': argkind, 'observed': {k: v for k, v in res.items() if k != 'mro'},
                                  'descriptor': rec['desc']})
                # the model with every registered opener (Spec.OpenerVendor): compared on every cell, flagged or not - the model
                # carries the measured defect switches, so it predicts the raised cells too
                vm = vmodel.get(vkey[key][0])
                if vm is not None:
                    mv = vm[vkey[key][1]]
                    if mv == 'D':
                        isa_opaque += 1
                    elif mv != res['out']:
                        disagreements.append({'msg': f'model (all registered openers) says {key}={mv} for {short(r)} [{rec["desc"]}] but {epname}({argkind}) gives '
                                                     f'{res["out"]} {res["exc"] or ""}', 'recipe': r, 'entry_point': epname, 'argument': argkind})
                if rec['desc'] is not None:
                    b = base_recipe(r)
                    cls = rec['desc'] if b['kind'] != 'blob' else f'blob:{b["gen"]}:{min(b["n"], 10)}'
                    classes.add((cls, r.get('name'), bool(r.get('siblings')), key))
            # every registered is_a on its own against its guard table
            for argkind, vm in vmodel.items():
                if label == 'BLOB' and r['kind'] == 'blob' and r['n'] > 40 and r['gen'] != 'random':
                    continue
                for v in c14x.VENDORS:
                    if vm[v] == 'D':
                        isa_opaque += 1
                        continue
                    out, exc = is_a_outcome(reg[v], path, argkind)
                    isa_checked += 1
                    if out != vm[v]:
                        disagreements.append({'msg': f'guard table of {v} says {vm[v]} for {short(r)} ({argkind}; world {c14x.world_of(path, argkind)}) but the real '
                                                     f'is_a gives {out} {exc or ""}', 'recipe': r, 'opener': v, 'argument': argkind})
            # details level: `_find_sicd` / `_find_sidd` against SICDDetails / SIDDDetails
            if model is not None and rec['magic'] == 'nitf21' and not flagged:
                sd, dd = details_level(path)
                cells_run += 2
                if sd != model['sd']:
                    disagreements.append({'msg': f'model sicdDetails={model["sd"]} for [{rec["desc"]}] but SICDDetails gives {sd}', 'recipe': r})
                if dd != model['dd']:
                    disagreements.append({'msg': f'model siddDetails={model["dd"]} for [{rec["desc"]}] but SIDDDetails gives {dd}', 'recipe': r})
            fac.discard(r, path)
        cells_run += isa_checked
        # a path that does not exist
        missing = os.path.join(tmp, 'does_not_exist.nitf')
        for epname in ('open', 'open_complex', 'open_product', 'open_phase_history', 'open_received', 'open_general'):
            res = call(eps[epname], missing, 'path')
            cells_run += 1
            if res['out'] != 'R':
                fails.append({'key': f'missing-path:{epname}', 'msg': f'{epname} on a non-existent path: {res["out"]} {res["exc"]}',
                              'recipe': {'kind': 'missing'}, 'entry_point': epname, 'argument': 'path', 'observed': res})
        timing['openers_s'] = round(time.time() - t_run, 2)
    finally:
        shutil.rmtree(tmp, ignore_errors=True)

    by_label = {}
    for rec in records:
        by_label[rec['recipe']['label']] = by_label.get(rec['recipe']['label'], 0) + 1
    chk.coverage.update({
        'evaluations': cells_run,
        'distinct_nontrivial': len(classes),
        'rule': 'files built from recipes: SICD (0..4 additional DES before the SICD DES, 1..3 image segments, 3 pixel types), SIDD (versions 1-3, '
                '1..4 products, 1..5 segments per product, 0..2 embedded SICD DES, additional DES, MONO8I/RGB24I, one with a graphics segment), '
                'CPHD x5 (syntax-only documents made self-consistent: no support arrays), CRSD x3 (built from element classes), SIO, general NITF '
                '(iq.nitf, NITFWriter files, one NITF 2.0 file), hand-assembled NITF 2.0 containers (complex-like / non-SAR / integer SAR image segments, '
                '0..2 symbol, label and text segments, DES without SICD / SIDD document; five with one, at SICDDetails / SIDDDetails level only), '
                'the same kinds of file under the names product.xml / manifest.safe / *.xml, under an IMG-* name and beside IMG-* / LED-* entries '
                '(long and 2-byte ones), 20 prefixes of vendor signatures ("II", "MM", "II*", 3 bytes of the HDF5 magic, "GSATIM", "NIT", ...), XML-looking '
                'strings in x.xml, 10 directories (empty, with a SICD, with junk product.xml / metadata/product.xml / manifest.safe / *.xml / IMG-*), /dev/null, '
                'NITF files with random image arrangements and random DES lists (4 ids x 4 payload kinds), '
                'signature-less strings of every length 0..64 and 2^7..2^20 (random, zeros, text, XML text); each file x 8 cells '
                '(6 entry points by path + open_complex/open_phase_history with an open binary file object at position 3) + SICDDetails/SIDDDetails '
                '+ each of the 17 registered is_a / final_attempt functions on its own, by path and by file object, against its guard table; '
                'distinct = distinct (descriptor, name, surroundings, cell) tuples (blob lengths above 10 merged)',
        'files': by_label,
        'matrix': matrix,
        'unmodelled_image_class_files': unmodelled,
        'samples': [rec['desc'] for rec in records if rec['desc'] and rec['recipe']['label'] in ('SICD', 'SIDD')][:4] +
                   [rec['desc'] for rec in records if rec['recipe']['label'] == 'NITF-arbitrary'][:3],
        'traces_validated_against_impl': cells_run,
        'disagreements_checked': len(disagreements),
        'timing': timing,
        'source_policy': {'siddRefusesGraphics': bool(policy)},
        'policy2_bits': dict(zip(['siddRefusesGraphics', 'nitf20SkipsSymLab', 'nitf20SarRaises', 'tiffShortUnguarded', 'radarsatParseUncaught',
                                  'tsxDanglingRaises', 'palsarSpecialValueError'], [b == '1' for b in bits])),
        'policy2_probes': policy_info,
        'guard_flags_from_regenerated_tables': tab_flags,
        'is_a_calls_compared_with_guard_tables': isa_checked,
        'decisions_left_to_unmodelled_remainder': isa_opaque,
    })
    chk.assumptions += [
        'the descriptor abstraction: an opener decision depends on the file only through (signature, image classes, graphics count, DES id/payload classes); '
        'checked by correspondence on the generated files, not proved',
        'image classes modelled: complex I/Q SAR segment (PVTYPE R/SI), SIDD-named integer SAR segment, non-SAR segment; files with any other class '
        '(e.g. AMP8I_PHS8I SICD) are run through the direct oracle only',
        'vendor openers (Capella, CSK, GFF, ICEYE, NISAR, PALSAR2, RadarSat, Sentinel, TSX, TIFF): their guards (is_a + the head of each details constructor) are '
        'modelled as guard tables regenerated from the source and bridged by theorem; what follows the guards (HDF5 / TIFF tag / CEOS / product.xml content '
        'parsing) is an opaque parameter of every theorem - no valid vendor product is generated, cells whose model value depends on it are counted, not compared',
        'the observations of a path (os.path kind, base-name class, leading-bytes class, parses as XML, first-200-bytes probe, directory entries) are extracted by the '
        'harness; that an opener depends on its argument only through them is checked by the per-is_a correspondence, not proved',
        'four guard defects and two NITF 2.0 reader defects are switches of the model (Policy2), measured on the implementation with one stand-in input each and '
        'cross-checked against the regenerated tables; every theorem holds for all values, the findings are decided by the direct oracle',
        'NITF 2.0: image / symbol / label / text / DES segments assembled by hand from sarpy\'s 2.0 element classes; a DES read at a wrong offset is taken as "unknown id, not XML" '
        '(checked on the bytes of each file); 2.0 files that carry a SICD / SIDD document are compared at SICDDetails / SIDDDetails level only. '
        'NITF files without image segments are not exercised',
        'Policy.siddRefusesGraphics is read from sarpy/io/product/sidd.py by a regular expression on every run (and checked by the correspondence on files with graphics segments)',
        '`raises` in the model covers only SIDD image/DES bookkeeping mismatches (ValueError from SIDDReader); truncated or corrupt files that carry a valid signature are excluded by the property',
        'open_general accepting SICD/SIDD files as plain NITF containers is taken as intended (it is the documented catch-all and last in the cascade): exclusivity is stated over the four family openers',
        'CPHD files come from the syntax-only test documents with support arrays and compression removed; CRSD files are built from element classes (no CRSD sample document exists in /repo)',
    ]
    # ---- standard ending
    seen, uniq = {}, []
    for f in fails:
        if f['key'] in seen:
            seen[f['key']]['repeats'] += 1
            continue
        f['repeats'] = 1
        seen[f['key']] = f
        uniq.append(f)
    unknown = [f for f in uniq if not chk.known(f.get('key', ''))]
    for f in unknown[:8]:
        chk.violation(f['msg'], {'case': f, 'replay_cmd': './check C14 --replay <this file>'}, True)
    if not unknown and (broken or disagreements):
        chk.violation('proof obligation or correspondence no longer checks: ' + '; '.join(broken[:3] + [d['msg'][:200] for d in disagreements[:2]]),
                      {'broken_obligations': broken, 'disagreements': disagreements[:10]}, False)
    chk.coverage['failing_inputs'] = len(fails)
    chk.coverage['failing_keys'] = {k: v['repeats'] for k, v in seen.items()}
    if disagreements:
        chk.notes.append({'disagreements': [d['msg'][:300] for d in disagreements[:10]]})
    if broken:
        chk.notes.append({'broken': broken[:10]})
    return chk.finish()


def replay(path):
    """rebuild the file of the recorded case from its recipe and run the recorded entry point on the implementation alone"""
    sarpy_guard()
    logging.disable(logging.CRITICAL)
    warnings.simplefilter('ignore')
    doc = json.load(open(path))
    case = doc.get('case')
    if case is None:
        print(json.dumps(doc, indent=1)[:3000])
        return 1
    print('recorded:', case['msg'])
    r = case['recipe']
    if r.get('kind') == 'missing':
        return 1
    tmp = tempfile.mkdtemp(dir='/var/tmp', prefix='c14r_')
    try:
        p = Factory(tmp).make(r)
        print('recipe  :', json.dumps(r))
        print('file    :', os.path.getsize(p) if os.path.isfile(p) else '(not a regular file)', 'bytes, descriptor', describe(p)[0], '| observations', c14x.world_of(p, case['argument']))
        eps = entry_points()
        res = call(eps[case['entry_point']], p, case['argument'])
        print(f'{case["entry_point"]}({case["argument"]}) ->', res['out'], res['cls'] or '', res['exc'] or '')
        results = {(e, a): call(eps[e], p, a) for _, e, a in CELLS if a == 'path' or os.path.isfile(p) or r['kind'] == 'special'}
        msg = oracle_cell(r['label'], r, case['entry_point'], case['argument'], results[(case['entry_point'], case['argument'])], results)
        print('oracle  :', msg or 'ok')
        return 1 if msg else 0
    finally:
        shutil.rmtree(tmp, ignore_errors=True)
