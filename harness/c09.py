"""C09 — a CPHD written by sarpy reads back identically and its header describes the file.

proof side : lean/SarpyModel/Props/C09.lean (alignment, block order, header fits, packed element ranges), Props/C09H.lean (explicit header
             text, its length, termination of the retry under an explicit bound), Props/C09W.lean (writer state machine: histories),
             Bridge/Cphd.lean (the regenerated make_file_header kernels and header tables equal the reference definitions)
tie        : translator (translate/gen_cphd.py regenerates Gen/CphdKernels.lean from CPHD.py / CRSD.py on every run; bridge theorems in REQUIRED;
             three-way differential Python fragment / Gen / Spec on random integers); correspondence of the header sarpy computes (and writes)
             with the Lean layout model and the Lean-rendered header text on generated metadata; op-history correspondence of the writer
             machine (harness/cphdwriter.py: refusals, file-object write log, element flags, close report, file image)
search     : independent byte-level parser of the written file + reopen through open_phase_history and compare everything; direct oracle of
             the writer clauses on every history
"""
import io
import json
import logging
import os
import shutil
import tempfile

import numpy

from common import Check, Driver, Infra, sarpy_guard, VERIF
import cphdgen
import cphdwriter
import cphdkernels
from c02 import meta_diff

REQUIRED = ['align_ge', 'align_lt', 'align_mod', 'layout_ordered', 'layout_aligned', 'choose_fits', 'choose_first', 'packed_ranges_tile',
            # Bridge/Cphd.lean: regenerated CPHD.py kernels / tables = reference definitions
            'gen_align', 'gen_retry_align', 'gen_chain', 'gen_retry', 'gen_header_tables',
            # Props/C09H.lean: explicit header text, retry termination
            'decimal_length', 'valueOf_decimal', 'decimal_digits', 'line_length', 'line_eq_format', 'headerBytes_length', 'chooseText_eq',
            'choose_succ', 'header_text_fits', 'choose_mono', 'choose_mono_le', 'choose_terminates_aux', 'digits_le_of_lt_pow', 'hdrLen_ge',
            'fileEnd_lt', 'hdrLen_le', 'chooseText_terminates', 'retry_terminates_7'] + cphdwriter.REQUIRED_W
KIND = 'CPHD'
import crsdgen
SUPPORT_KIND_NAMES = ['IAZ', 'IAZ'] + sorted(crsdgen.SUPPORT_KINDS_CPHD)
K_AMPSF = 'refused-pvp-rewrite-replaces-ampsf'


def write_case(rng, meta, pvp, raw, support, target, tmpdir, plan):
    """plan: dict(order=[...'pvp','support','signal'], mode='file'|'pieces', formatted=bool, chunks=bool)"""
    from sarpy.io.phase_history.cphd import CPHDWriter1
    path = os.path.join(tmpdir, 'out.cphd')
    if os.path.exists(path):
        os.remove(path)
    fo = path if target == 'path' else (io.BytesIO() if target == 'bytesio' else open(path, 'w+b'))
    w = CPHDWriter1(fo, meta if plan.get('same_meta_object') else meta.copy(), check_existence=False)
    if plan.get('permute_pvp_fields'):
        pvp = cphdgen.permute_pvp_fields(rng, pvp)
    amp = {k: (v['AmpSF'] if 'AmpSF' in v.dtype.names else None) for k, v in pvp.items()}
    # the caller's arrays may be big-endian (as the file), little-endian or native: the file must hold the VALUES
    order = rng.choice(cphdwriter.BYTE_ORDERS)
    raw_in = raw
    pvp = {k: cphdwriter.reorder(v, order) for k, v in pvp.items()}
    support = {k: cphdwriter.reorder(v, rng.choice(cphdwriter.BYTE_ORDERS)) for k, v in (support or {}).items()}
    if plan['mode'] == 'file':
        if plan['formatted']:
            w.write_file(pvp, {k: cphdgen.formatted(v, amp[k]) for k, v in raw.items()}, support or None)
        else:
            w.write_file_raw(pvp, {k: cphdwriter.reorder(v, order) for k, v in raw_in.items()}, support or None)
    else:
        for step in plan['order']:
            if step == 'pvp':
                w.write_pvp_block(pvp)
            elif step == 'support' and support:
                w.write_support_block(support)
            elif step == 'signal':
                for k, v in raw.items():
                    nv = v.shape[0]
                    cuts = sorted(rng.sample(range(1, nv), min(nv - 1, rng.randint(0, 2)))) if (plan['chunks'] and nv > 1) else []
                    edges = [0] + cuts + [nv]
                    pieces = list(zip(edges[:-1], edges[1:]))
                    rng.shuffle(pieces)
                    for a, b in pieces:
                        where = cphdwriter.place_kwargs(rng.choice(cphdwriter.FORMS + ['int']), a, b, not plan['formatted'], v.shape[1])
                        if plan['formatted']:
                            w.write(cphdgen.formatted(v[a:b], None if amp[k] is None else amp[k][a:b]), index=k, **where)
                        else:
                            w.write_raw(cphdwriter.reorder(v[a:b], rng.choice(cphdwriter.BYTE_ORDERS)), index=k, **where)
    w.close()
    if target == 'path':
        return open(path, 'rb').read()
    if target == 'bytesio':
        if fo.closed:
            raise ValueError("the writer closed the caller's file object")
        return fo.getvalue()
    if fo.closed:
        raise ValueError("the writer closed the caller's file object")
    fo.flush()
    fo.seek(0)
    out = fo.read()
    fo.close()
    return out


def run(tier):
    sarpy_guard()
    from sarpy.io.phase_history.converter import open_phase_history
    from sarpy.io.phase_history.cphd import CPHDWritingDetails
    chk = Check('C09', tier)
    rng = chk.rng
    gen_info = cphdkernels.regenerate()
    broken = chk.prove(['SarpyModel.Props.C09All', 'SarpyModel.Drivers'], 'SarpyModel.Props.C09All', 'Sarpy.Props.C09', REQUIRED, gen_info)
    if gen_info['unsupported']:
        broken.append('translator could not express: ' + json.dumps(gen_info['unsupported']))
    fails, stats, seen, jobs, disagreements = [], {}, set(), [], []
    tw_jobs, w_jobs, w_stats, w_seen = [], [], {}, set()
    drv = Driver()
    tmpdir = tempfile.mkdtemp(prefix='c09_', dir=os.environ.get('VERIF_SCRATCH', '/var/tmp'))
    logging.disable(logging.CRITICAL)
    try:
        for _ in range(70 if tier == 'quick' else 700):
            fmt = rng.choice(['CI2', 'CI4', 'CF8'])
            nch = rng.choice([1, 1, 2, 3, 4])
            sizes = [(rng.randint(1, 9) if rng.random() < 0.3 else rng.randint(4, 12), rng.randint(1, 8)) for _ in range(nch)]
            amp = rng.random() < 0.6
            nsup = rng.choice([0, 0, 1, 2, 3])
            sup = [(rng.randint(1, 5), rng.randint(1, 6), rng.choice(SUPPORT_KIND_NAMES)) for _ in range(nsup)]
            text = rng.choice([None, None, 'café Ünïcode', 'x' * rng.randint(1, 70), '日本'])
            template = rng.choice(['syntax-only-cphd-1.1.0-monostatic-minimal.xml'] * 3 + ['syntax-only-cphd-1.0.1-monostatic.xml'])
            target = rng.choice(['path', 'bytesio', 'fileobj'])
            plan = {'mode': rng.choice(['file', 'pieces']), 'formatted': rng.random() < 0.5, 'chunks': rng.random() < 0.7,
                    'order': rng.sample(['pvp', 'support', 'signal'], 3)}
            if amp and plan['formatted'] and plan['mode'] == 'pieces' and plan['order'].index('pvp') > plan['order'].index('signal'):
                plan['order'] = ['pvp'] + [x for x in plan['order'] if x != 'pvp']   # AmpSF must be known before formatted writes (documented)
            plan['permute_pvp_fields'] = rng.random() < 0.3
            # header markings: mostly the defaults, sometimes long enough that the header text exceeds the first-guess XML offset of 1024 (retry path)
            release = rng.choice(['UNRESTRICTED'] * 5 + ['APPROVED FOR TEST USE', ('LONG RELEASE TEXT ' * rng.randint(50, 90)).strip()])
            classification = rng.choice(['UNCLASSIFIED'] * 5 + ['UNCLASSIFIED//TEST DATA ONLY', ('UNCLASSIFIED//' + 'HANDLING CAVEAT ' * rng.randint(48, 80)).strip()])
            case = {'fmt': fmt, 'sizes': sizes, 'amp_sf': amp, 'support': sup, 'text': text, 'target': target, 'plan': plan, 'template': template,
                    'release_info': release, 'classification': classification}
            seen.add((fmt, min(nch, 3), amp, min(nsup, 2), text is not None and not text.isascii(), target, plan['mode'], plan['formatted'],
                      len(release) > 600, len(classification) > 600))
            try:
                meta = cphdgen.build_meta(fmt, sizes, amp, sup, text, template)
                meta.CollectionID.ReleaseInfo = release
                meta.CollectionID.Classification = classification
            except Exception as e:
                stats['meta_errors'] = stats.get('meta_errors', 0) + 1
                continue
            if rng.random() < 0.25:
                # a metadata object that has been used before (its vector dtype was requested) and is then edited in place
                cphdgen.make_pvp(meta, rng)
                cphdgen.relayout_pvp_in_place(meta, rng)
                plan['same_meta_object'] = True
                case['relayout_in_place'] = True
            pvp, raw, support = cphdgen.make_pvp(meta, rng), cphdgen.make_raw(meta, rng), cphdgen.make_support(meta, rng)
            try:
                buf = write_case(rng, meta, pvp, raw, support, target, tmpdir, plan)
            except Exception as e:
                fails.append({'kind': 'write', 'msg': f'CPHD write failed: {type(e).__name__}: {e}', 'case': case,
                              'key': 'writer-closes-caller-file' if 'closed the caller' in str(e) else None})
                continue
            stats['files'] = stats.get('files', 0) + 1
            problems, kv = cphdgen.check_layout(buf, KIND)
            if problems:
                case = dict(case, file_bytes=len(buf), file_head_hex=buf[:1536].hex())      # the replay carries the head of the file itself
            for p in problems:
                fails.append({'kind': 'layout', 'msg': 'header does not describe the file: ' + p, 'case': case})
            if kv and not problems:
                g = lambda k: int(kv[k])
                for name in ['SUPPORT', 'PVP', 'SIGNAL']:
                    if name + '_BLOCK_BYTE_OFFSET' in kv and g(name + '_BLOCK_BYTE_OFFSET') % 64 != 0:
                        fails.append({'kind': 'layout', 'msg': f'{name} block offset {g(name + "_BLOCK_BYTE_OFFSET")} is not 64-byte aligned', 'case': case})
                if kv.get('CLASSIFICATION') != classification or kv.get('RELEASE_INFO') != release:
                    fails.append({'kind': 'layout', 'msg': 'header CLASSIFICATION / RELEASE_INFO differ from CollectionID', 'case': case})
                if g('XML_BLOCK_BYTE_OFFSET') != 1024:
                    stats['retry_layouts'] = stats.get('retry_layouts', 0) + 1
                    for nm, v in (('retry_by_release_info', release), ('retry_by_classification', classification)):
                        if len(v) > 600:
                            stats[nm] = stats.get(nm, 0) + 1
                ss = str(g('SUPPORT_BLOCK_SIZE')) if 'SUPPORT_BLOCK_SIZE' in kv else 'N'
                hend = cphdgen.parse_header(buf)[3]
                jobs.append((case, kv, drv.ask(f'cphd layout {g("XML_BLOCK_BYTE_OFFSET")} {g("XML_BLOCK_SIZE")} {ss} {g("PVP_BLOCK_SIZE")} {g("SIGNAL_BLOCK_SIZE")}'),
                             drv.ask(f'cphd gen cphd {g("XML_BLOCK_BYTE_OFFSET")} {g("XML_BLOCK_SIZE")} {meta.Data.NumSupportArrays} {0 if ss == "N" else ss} '
                                     f'{g("PVP_BLOCK_SIZE")} {g("SIGNAL_BLOCK_SIZE")} {hend}')))
            # reopen
            path = os.path.join(tmpdir, 'rd.cphd')
            open(path, 'wb').write(buf)
            try:
                rdr = open_phase_history(path)
            except Exception as e:
                fails.append({'kind': 'read', 'msg': f'open_phase_history raised {type(e).__name__}: {e}', 'case': case})
                continue
            try:
                rp, rs = rdr.read_pvp_block(), rdr.read_support_block()
                rraw, rfmt = rdr.read_signal_block_raw(), rdr.read_signal_block()
                for k in pvp:
                    for name in pvp[k].dtype.names:
                        if not numpy.array_equal(rp[k][name], pvp[k][name]):
                            fails.append({'kind': 'data', 'msg': f'PVP field {name} of channel {k} differs after write/read', 'case': case})
                            break
                    if not numpy.array_equal(numpy.asarray(rraw[k]).reshape(raw[k].shape), raw[k]):
                        fails.append({'kind': 'data', 'msg': f'raw signal of channel {k} differs after write/read', 'case': case})
                    want = cphdgen.formatted(raw[k], pvp[k]['AmpSF'] if amp else None)
                    # sub-region reads of the formatted signal (offset, strided, trailing rows)
                    nv, ns = want.shape
                    ci = [c.Identifier for c in meta.Data.Channels].index(k)
                    for _r in range(3):
                        a = rng.randrange(nv)
                        b = rng.randint(a + 1, nv)
                        st = rng.choice([1, 1, 2])
                        c0 = rng.randrange(ns)
                        c1 = rng.randint(c0 + 1, ns)
                        try:
                            got = rdr.read(slice(a, b, st), slice(c0, c1, 1), index=ci, squeeze=False)
                        except Exception as e:
                            fails.append({'kind': 'data', 'msg': f'sub-region read [{a}:{b}:{st}, {c0}:{c1}] of channel {k} raised {type(e).__name__}: {e}', 'case': case})
                            break
                        w = want[a:b:st, c0:c1]
                        if got.shape != w.shape or not numpy.allclose(got, w, rtol=1e-6, atol=0):
                            fails.append({'kind': 'data', 'msg': f'sub-region read [{a}:{b}:{st}, {c0}:{c1}] of the formatted signal of channel {k} differs from the written values', 'case': case})
                            break
                    if numpy.size(rfmt[k]) != want.size or not numpy.allclose(numpy.reshape(rfmt[k], want.shape), want, rtol=1e-6, atol=0):
                        fails.append({'kind': 'data', 'msg': f'formatted signal of channel {k} differs after write/read', 'case': case})
                for k in support:
                    got = numpy.asarray(rs[k])
                    if got.shape != support[k].shape or got.dtype != support[k].dtype:
                        fails.append({'kind': 'data', 'msg': f'support array {k} ({meta.SupportArray.find_support_array(k).ElementFormat}) reads back with shape {got.shape} dtype '
                                                             f'{got.dtype}, the element format gives {support[k].shape} {support[k].dtype}', 'case': case})
                    elif not numpy.array_equal(got, support[k]):
                        fails.append({'kind': 'data', 'msg': f'support array {k} differs after write/read', 'case': case})
                m = meta_diff(meta.to_dict(), rdr.cphd_meta.to_dict())
                if m:
                    fails.append({'kind': 'metadata', 'msg': 'metadata differs after write/read: ' + m, 'case': case})
            except Exception as e:
                fails.append({'kind': 'read', 'msg': f'reading back raised {type(e).__name__}: {e}', 'case': case})
            finally:
                rdr.close()
        # translator tie: Python fragment / regenerated Lean / reference on random integers
        tw_jobs, tw_problems = cphdkernels.three_way(KIND, rng, drv, 150 if tier == 'quick' else 3000)
        broken += tw_problems
        # writer state machine: op histories on the real CPHDWriter1 vs the Lean machine, plus the direct oracle of the writer clauses
        w_jobs, w_fails, w_stats, w_seen = cphdwriter.run_batch(KIND, rng, 60 if tier == 'quick' else 1500, tmpdir, drv)
        fails += w_fails
        fails += cphdwriter.finding_probes(KIND, tmpdir)
    finally:
        shutil.rmtree(tmpdir, ignore_errors=True)
        logging.disable(logging.NOTSET)
    try:
        ans = drv.run()
        disagreements += cphdkernels.settle_three_way(KIND, tw_jobs, ans)
        disagreements += cphdwriter.settle(w_jobs, ans)
        for case, kv, i, ig in jobs:
            stats['model_cases'] = stats.get('model_cases', 0) + 1
            t = ans[i].split()
            g = lambda k: kv.get(k)
            impl = [g('XML_BLOCK_BYTE_OFFSET'), g('XML_BLOCK_SIZE'), g('SUPPORT_BLOCK_BYTE_OFFSET') or 'N', g('SUPPORT_BLOCK_SIZE') or 'N',
                    g('PVP_BLOCK_BYTE_OFFSET'), g('PVP_BLOCK_SIZE'), g('SIGNAL_BLOCK_BYTE_OFFSET'), g('SIGNAL_BLOCK_SIZE')]
            if t[:8] != impl:
                disagreements.append({'case': case, 'model': t, 'impl': impl})
            gt = ans[ig].split()      # regenerated kernels: sizes/offsets in the order of the header fields, then the retry decision
            gimpl = [impl[1], impl[0], impl[3], impl[2], impl[5], impl[4], impl[7], impl[6], 'N']
            if gt != gimpl:
                disagreements.append({'what': 'regenerated make_file_header kernels (cphd gen) vs the header of the written file', 'case': case, 'model': gt, 'impl': gimpl})
    except Infra as e:
        broken.append('model driver does not build/run: ' + str(e)[:300])
    chk.coverage.update({
        'evaluations': stats.get('files', 0) + stats.get('model_cases', 0) + len(tw_jobs) + w_stats.get('histories', 0),
        'distinct_nontrivial': len(seen) + len(w_seen), 'writer_histories': w_stats, 'kernel_three_way_cases': len(tw_jobs),
        'rule': 'self-consistent CPHD 1.0.1/1.1.0 metadata: 1-4 channels of differing sizes x CI2/CI4/CF8 x AmpSF present/absent x 0-3 support arrays x '
                'ASCII / non-ASCII / long metadata text x write_file vs piecewise writes (PVP/support/signal in random order, signal in shuffled row chunks, '
                'formatted or raw) x path / BytesIO / caller file; distinct = the tuple of those classes. Writer histories: 1-3 channels x 0-2 support arrays x '
                'AmpSF x short / >700 byte release string x BytesIO / caller file (both behind a logging proxy) / path x complete (shuffled, chunked, with flushes, '
                'repeated, malformed and out-of-range calls) / random / premature-close op lists; distinct = (target, protocol, AmpSF, counts, complete, rewrote, '
                'refusals seen, flushes, early close, header retry). Kernel three-way: random integers up to 2^44 incl. alignment boundaries',
        'samples': [j[0] for j in jobs[:2]] + [j['case'] for j in w_jobs[:1]], 'stats': stats,
        'traces_validated_against_impl': stats.get('model_cases', 0) + w_stats.get('histories', 0) + len(tw_jobs),
        'disagreements_checked': len(disagreements)})
    chk.assumptions += ['make_file_header: the integer arithmetic of one attempt and the retry decision are regenerated from the source and bridged by theorem; the recursion '
                        'itself (same object, new offset) is the hand-written `choose`, validated by the header text / XML offset comparison on every written file',
                        'the three float idioms of _align (ceil of a float quotient times 64) are read as exact integer arithmetic (operands below 2^53)',
                        'termination of the retry is proved for files below 10^18 bytes (retry_terminates_7); above that only with fuel',
                        'writer machine: hand model of cphd.py (no translator), tied by op-history correspondence; loop -> comprehension in flush, zero-fill '
                        'semantics of seek-past-end and of numpy.memmap creation, memory maps and the file object being one file are modelling steps',
                        'writer histories use full-row signal chunks; a repeated PVP write carries the same AmpSF (the machine does not model scaling values); dtype '
                        'mismatches, subscript-style writes and signal compression are not generated',
                        'signal compression is not generated; XML payload equality is C05/C06 (here: to_dict equality)',
                        'PVP layouts come from the syntax-only example documents with offsets re-packed']
    unknown = [f for f in fails if not (f.get('key') and chk.known(f['key']))]
    for f in unknown[:5]:
        chk.violation(f['msg'], {'case': f, 'replay_cmd': f'./check {chk.pid} --replay <this file>'}, True)
    if len(unknown) > 5:
        chk.notes.append(f'{len(unknown)} failing inputs found, first 5 reported')
    if not unknown and (broken or disagreements):
        chk.violation('proof obligation or correspondence no longer checks: ' + '; '.join(broken[:3] + [json.dumps(d, default=str)[:300] for d in disagreements[:2]]),
                      {'broken_obligations': broken, 'disagreements': disagreements[:10]}, False)
    chk.coverage['failing_inputs'] = len(fails)
    return chk.finish()


def replay(path):
    rec = json.load(open(path))
    case = rec.get('case', {})
    case = case.get('case', case)
    print(json.dumps(case)[:2000])
    if isinstance(case, dict) and 'ops' in case and 'seed' in case:      # a writer history: re-run it on the implementation alone
        sarpy_guard()
        tmpdir = tempfile.mkdtemp(prefix='c09_', dir=os.environ.get('VERIF_SCRATCH', '/var/tmp'))
        logging.disable(logging.CRITICAL)
        try:
            fails = cphdwriter.replay_case(case, tmpdir)
        finally:
            shutil.rmtree(tmpdir, ignore_errors=True)
            logging.disable(logging.NOTSET)
        for f in fails:
            print('FAIL:', f['msg'])
        if not fails:
            print('no failure on the current source')
        return 1 if fails else 0
    return 1
