"""C07 — chunked writes compose: any partition, any order, same stored image.

proof side : lean/SarpyModel/Props/C07.lean (history theorems over Spec.Scatter) + the C01 kernel theorems/bridges
tie        : translator for the kernels (shared with C01); correspondence of the store/counter state machine:
             every real write is observed as a list of (raw position, sample) assignments and the Lean model
             replays the observed history (store, pixel counter, fully-written flags)
search     : numpy oracles on the implementation (provenance arrays; whole-image write; read-back)
"""
import json
import os
import shutil
import sys
import tempfile

import numpy

from common import Check, Driver, Infra, VERIF, sarpy_guard
import segtree
import segmodel
import c01
import dispatch
import seg_hist

REQUIRED = ['scatter_length', 'writes_commute_of_disjoint', 'partition_history', 'history_eq_whole_write',
            'scatter_get', 'scatter_untouched', 'fully_written_iff', 'store_complete_iff']


# ------------------------------------------------------------------ writable trees

def rand_wtree(rng, depth, shape=None, base=0):
    """random writable tree (identity formats, plus complex leaves at top level)"""
    if shape is not None:
        ndim = len(shape)
        rev, trans = segtree.rand_orient(rng, ndim)
        raw = [0] * ndim
        for i in range(ndim):
            raw[(trans[i] if trans is not None else i)] = shape[i]
        leaf = {'kind': rng.choice(['array', 'array', 'memmap']), 'shape': raw, 'dtype': 'int32', 'base': base,
                'rev': rev, 'trans': trans}
        if leaf['kind'] == 'memmap':
            leaf['offset'] = rng.choice([0, 8])
            leaf['trail'] = 0
        if depth > 0 and rng.random() < 0.3:
            r, _ = segtree.rand_orient(rng, ndim, 0.6, 0.0)
            return {'kind': 'reorient', 'parent': leaf, 'rev': r, 'trans': None}
        return leaf
    r = rng.random()
    if depth <= 0 or r < 0.25:
        if rng.random() < 0.25:
            spec = segtree.rand_complex_leaf(rng)
            if spec['kind'] == 'fileread':
                spec['kind'] = 'array'
                spec.pop('offset', None)
            return spec
        return segtree.rand_leaf(rng, kinds=('array', 'array', 'memmap'))
    if r < 0.4:
        parent = rand_wtree(rng, depth - 1)
        pshape = segtree.full_shape_of(parent)
        if not pshape:
            return parent
        if parent['kind'] != 'subset' and not parent.get('fmt') and rng.random() < 0.4:
            # raw-basis definition, the way nitf.py cuts the padding off a block
            rshape = segtree.raw_shape_of(parent)
            if rshape and all(n > 0 for n in rshape):
                d = [segtree.rand_norm_slice(rng, n, steps=(1, 1, 1, -1, 2)) for n in rshape]
                return {'kind': 'subset', 'parent': parent, 'def': d, 'squeeze': rng.random() < 0.6, 'basis': 'raw'}
        d = [segtree.rand_norm_slice(rng, n, steps=(1, 1, 1, -1, 2)) for n in pshape]
        return {'kind': 'subset', 'parent': parent, 'def': d, 'squeeze': rng.random() < 0.7, 'basis': 'formatted'}
    if r < 0.55:
        parent = rand_wtree(rng, depth - 1)
        pshape = segtree.full_shape_of(parent)
        if not pshape:
            return parent
        rev, trans = segtree.rand_orient(rng, len(pshape))
        return segtree.maybe_complex(rng, {'kind': 'reorient', 'parent': parent, 'rev': rev, 'trans': trans})
    if r < 0.8:
        # blocks: tiling (possibly padded children are modelled by subset children over larger leaves)
        ndim = rng.choice([1, 2, 2])
        shape_ = segtree.rand_shape(rng, ndim, 2, 8)
        tilings = [segtree.rand_tiling(rng, n) for n in shape_]
        cells = [[]]
        for t in tilings:
            cells = [c + [list(x)] for c in cells for x in t]
        children = []
        arrangement = []
        for i, c in enumerate(cells):
            cshape = [b - a for a, b in c]
            if rng.random() < 0.35:
                # padded block as the NITF writer builds it: a subset of a larger leaf
                pad = [n + rng.randint(0, 2) for n in cshape]
                leaf = {'kind': 'array', 'shape': pad, 'dtype': 'int32', 'base': 0, 'rev': None, 'trans': None}
                ch = {'kind': 'subset', 'parent': leaf, 'def': [[0, n, 1] for n in cshape], 'squeeze': False, 'basis': 'formatted'}
            else:
                ch = rand_wtree(rng, depth - 1, shape=cshape)
            children.append(ch)
            if rng.random() < 0.12:
                # block definition running backwards (served since the repair F1 of _find_slice_overlap)
                arrangement.append([[b - 1, (a - 1 if a > 0 else None), -1] for a, b in c])
            else:
                arrangement.append([[a, b, 1] for a, b in c])
        spec = {'kind': 'blocks', 'shape': shape_, 'children': children, 'arrangement': arrangement, 'fill': -7}
        spec['rev'], spec['trans'] = segtree.rand_orient(rng, ndim, 0.4, 0.3)
        return segtree.maybe_complex(rng, spec)
    ndim_c = rng.choice([1, 2])
    cshape = segtree.rand_shape(rng, ndim_c, 1, 6)
    nb = rng.randint(2, 3)
    bd = rng.randint(0, ndim_c)
    children = [rand_wtree(rng, depth - 1, shape=cshape) for _ in range(nb)]
    spec = {'kind': 'bands', 'children': children, 'band_dim': bd}
    nd = ndim_c + 1
    rev = None
    if rng.random() < 0.4:
        cand = [i for i in range(nd) if i != bd]
        if cand:
            rev = sorted(rng.sample(cand, rng.randint(1, len(cand))))
    spec['rev'], spec['trans'] = rev, None
    return segtree.maybe_complex(rng, spec)


def axis_classes(rng, n, allow_stride=True):
    """partition range(n) into classes, each a python slice (contiguous intervals and/or strided lattices)"""
    if allow_stride and n >= 2 and rng.random() < 0.35:
        k = rng.randint(2, min(3, n))
        return [[r, n, k] for r in range(k)]
    cuts = sorted(set(rng.sample(range(1, n), min(n - 1, rng.randint(0, 2))))) if n > 1 else []
    edges = [0] + cuts + [n]
    return [[a, b, 1] for a, b in zip(edges[:-1], edges[1:])]


def rand_partition(rng, shape, allow_stride=True):
    per_axis = [axis_classes(rng, n, allow_stride) for n in shape]
    chunks = [[]]
    for cls in per_axis:
        chunks = [c + [x] for c in chunks for x in cls]
    rng.shuffle(chunks)
    return chunks


def leaf_stores(b):
    return [numpy.array(arr).copy() for _, arr in b.leaves]


def run_history(spec, chunks, modes, data, tmpdir, observe=True):
    """write `data` chunk by chunk; returns dict(stores, flags, assignments) or raises"""
    b = segtree.Builder('w', tmpdir)
    seg, _ = b.build(spec)
    before = leaf_stores(b)
    hist = []
    flags = []
    try:
        for ch, mode in zip(chunks, modes):
            sl = tuple(slice(*x) for x in ch)
            piece = numpy.ascontiguousarray(data[sl])
            if mode == 'start':
                seg.write(piece, start_indices=tuple(x[0] for x in ch))
            else:
                seg.write(piece, subscript=sl)
            if observe:
                after = leaf_stores(b)
                assign = []
                off = 0
                for a0, a1 in zip(before, after):
                    pos = numpy.nonzero(a0.reshape(-1) != a1.reshape(-1))[0]
                    assign += [(int(off + p), int(a1.reshape(-1)[p])) for p in pos]
                    off += a0.size
                hist.append(assign)
                before = after
            flags.append(bool(seg.check_fully_written(warn=False)))
        stores = leaf_stores(b)
        return {'stores': stores, 'flags': flags, 'hist': hist, 'builder': b, 'seg': seg}
    except Exception:
        b.cleanup()
        raise


def make_data(spec, rng):
    shape = tuple(segtree.full_shape_of(spec))
    n = int(numpy.prod(shape)) if shape else 1
    is_complex = bool(segmodel._fmts(spec))
    vals = numpy.arange(1, n + 1).reshape(shape)
    if segtree.has_polar(spec):
        # magnitude and phase that the uint16 storage holds exactly: m * exp(2 pi i t / 65536), m and t integers
        return (vals * numpy.exp(2j * numpy.pi * (vals + 1000) / 65536.0)).astype('complex64')
    if is_complex:
        return (vals + 1j * (vals + 1000)).astype('complex64')
    return vals.astype('int32')


def _leaves(spec):
    if spec['kind'] in ('array', 'memmap', 'fileread'):
        return [spec]
    out = []
    if 'parent' in spec:
        out += _leaves(spec['parent'])
    for c in spec.get('children', []):
        out += _leaves(c)
    return out


def check_case(spec, chunks, modes, tmpdir, fails, stats, drv_jobs):
    shape = tuple(segtree.full_shape_of(spec))
    try:
        b0 = segtree.Builder('w', tmpdir)
        seg0, _ = b0.build(spec)
    except Exception:
        stats['construct_refused'] = stats.get('construct_refused', 0) + 1
        return
    if not seg0.can_write_regular:
        b0.cleanup()
        return
    rng_data = make_data(spec, None)
    data = rng_data
    case = {'kind': 'write', 'tree': spec, 'chunks': chunks, 'modes': modes}
    # whole-image write through sarpy on a fresh tree
    try:
        seg0.write(data, start_indices=tuple(0 for _ in shape))
        whole = leaf_stores(b0)
        whole_flag = bool(seg0.check_fully_written())
    except Exception as e:
        fails.append(dict(case, msg=f'whole-image write refused: {type(e).__name__}: {e}'))
        b0.cleanup()
        return
    finally:
        try:
            seg0.close()
        except Exception:
            pass
        b0.cleanup()
    stats['histories'] = stats.get('histories', 0) + 1
    # independent numpy expectation for identity formats: leaf sample <- data pixel that reads from it
    expected = None
    if not segmodel._fmts(spec):
        rb = segtree.Builder('r', tmpdir)
        try:
            _, orc = rb.build(spec)
            prov = orc.full           # formatted image of provenance ids
            leaves = [segtree.Builder('r').leaf_array(l) for l in _leaves(spec)]
            expected = [numpy.full(a.shape, -1, dtype=a.dtype) for a in leaves]
            idmap = {}
            for li, a in enumerate(leaves):
                for p, v in enumerate(a.reshape(-1)):
                    idmap.setdefault(int(v), []).append((li, p))
            # provenance ids may collide between leaves that share a base; only assert when unique
            if all(len(v) == 1 for v in idmap.values()):
                for idx in numpy.ndindex(prov.shape):
                    li, p = idmap[int(prov[idx])][0]
                    expected[li].reshape(-1)[p] = data[idx]
            else:
                expected = None
        except Exception:
            expected = None
        finally:
            rb.cleanup()
    if expected is not None:
        for e_, w_ in zip(expected, whole):
            if not numpy.array_equal(e_, w_):
                fails.append(dict(case, msg='whole-image write stores different raw samples than the orientation/format inverse of the image'))
                return
    try:
        res = run_history(spec, chunks, modes, data, tmpdir)
    except Exception as e:
        fails.append(dict(case, msg=f'chunk of a valid partition refused: {type(e).__name__}: {e}'))
        return
    try:
        stats['writes'] = stats.get('writes', 0) + len(chunks)
        for a_, w_ in zip(res['stores'], whole):
            if not numpy.array_equal(a_, w_):
                fails.append(dict(case, msg='chunked history stores different raw samples than one whole-image write'))
                return
        if res['flags'][-1] is not True or any(res['flags'][:-1]):
            fails.append(dict(case, msg=f'check_fully_written trace {res["flags"]} (whole write: {whole_flag}); expected False...,True'))
            return
        if not whole_flag:
            fails.append(dict(case, msg='whole-image write does not report fully written'))
            return
        # read back over the same storage
        rb = segtree.Builder('r', tmpdir, preset=res['stores'])
        try:
            rseg, _ = rb.build(spec)
            got = rseg.read(None, squeeze=False)
            if not segtree.arrays_equal(got, data, segtree.has_polar(spec)):
                fails.append(dict(case, msg='a reader over the written storage does not return the written image'))
                return
        finally:
            rb.cleanup()
        # model correspondence: replay the observed assignment history in the Lean scatter model
        total = sum(a.size for a in res['stores'])
        if total <= 400:
            body = ';'.join(','.join(f'{p}:{v}' for p, v in ch) if ch else '-' for ch in res['hist'])
            # unwritten samples (still the sentinel of their dtype) are shown as -1, like the model's empty cells
            flat = numpy.concatenate([numpy.where(a.reshape(-1) == segtree.sentinel(a.dtype), -1, a.reshape(-1).astype('int64'))
                                      for a in res['stores']])
            drv_jobs.append((case, f'scatter hist {total} {body}', flat, res['flags'][-1], sum(len(c) for c in res['hist'])))
    finally:
        try:
            res['seg'].close()
        except Exception:
            pass
        res['builder'].cleanup()
    # refusal is atomic: a chunk that does not fit is refused and nothing is stored
    try:
        b = segtree.Builder('w', tmpdir)
        seg, _ = b.build(spec)
        before = leaf_stores(b)
        bad = numpy.zeros(tuple(n + 1 for n in shape), dtype=data.dtype)
        try:
            seg.write(bad, start_indices=tuple(0 for _ in shape))
            fails.append(dict(case, msg='an over-sized chunk was accepted'))
        except Exception:
            after = leaf_stores(b)
            if any(not numpy.array_equal(x, y) for x, y in zip(before, after)):
                fails.append(dict(case, msg='a refused chunk was partly stored'))
        if shape and shape[0] > 1:
            piece = numpy.ascontiguousarray(data[-1:])
            try:
                seg.write(piece, start_indices=(shape[0],) + tuple(0 for _ in shape[1:]))
                fails.append(dict(case, msg='a chunk starting beyond the image was accepted'))
            except Exception:
                after = leaf_stores(b)
                if any(not numpy.array_equal(x, y) for x, y in zip(before, after)):
                    fails.append(dict(case, msg='a refused chunk was partly stored'))
        seg.close()
        b.cleanup()
    except Exception:
        pass
    # addressing is honoured also when the chunk has the full shape: (a) the whole image handed over through a reversed subscript is
    # stored reversed (same stores as the plain whole-image write of the same pixels), (b) a full-size chunk at a non-zero start is refused
    axes = [k for k, n in enumerate(shape) if n > 1]
    if axes and not segmodel._fmts(spec):
        ax = axes[sum(shape) % len(axes)]
        sl = tuple(slice(None, None, -1) if k == ax else slice(0, n, 1) for k, n in enumerate(shape))
        b = None
        try:
            b = segtree.Builder('w', tmpdir)
            seg, _ = b.build(spec)
            stats['full_shape_addressing'] = stats.get('full_shape_addressing', 0) + 1
            try:
                seg.write(numpy.ascontiguousarray(data[sl]), subscript=sl)
                got = leaf_stores(b)
                if any(not numpy.array_equal(x, y) for x, y in zip(whole, got)):
                    fails.append(dict(case, msg=f'the whole image written through the reversed subscript (axis {ax}, step -1) is not stored where a plain whole-image write stores it: the subscript of a full-shape chunk is ignored'))
            except Exception as e:
                fails.append(dict(case, msg=f'whole image through a reversed subscript (axis {ax}) refused: {type(e).__name__}: {e}', exc=str(e)))
            seg.close()
            b.cleanup()
            b = segtree.Builder('w', tmpdir)
            seg, _ = b.build(spec)
            before = leaf_stores(b)
            try:
                seg.write(data, start_indices=tuple(1 if k == ax else 0 for k in range(len(shape))))
                fails.append(dict(case, msg=f'a full-size chunk at start index 1 along axis {ax} was accepted (it cannot fit)'))
            except Exception:
                after = leaf_stores(b)
                if any(not numpy.array_equal(x, y) for x, y in zip(before, after)):
                    fails.append(dict(case, msg='a refused full-size chunk was partly stored'))
            seg.close()
        except Exception:
            pass
        finally:
            if b is not None:
                b.cleanup()


def classify(f):
    return c01.classify(f)


def run(tier):
    sarpy_guard()
    chk = Check('C07', tier)
    rng = chk.rng
    import gen_slices
    gen_info = gen_slices.generate(os.path.join(VERIF, 'lean', 'SarpyModel', 'Gen', 'Slices.lean'))
    gen_info['dispatch'] = dispatch.regen()
    gen_info['segstate'] = seg_hist.regen()      # Gen/SegState.lean: the accounting sites and field writes of data_segment.py
    broken = chk.prove(['SarpyModel.Props.C07', 'SarpyModel.Props.C01', segmodel.WSEG_MODULE, 'SarpyModel.Drivers'] + dispatch.targets_writes() + seg_hist.targets_writes(),
                       'SarpyModel.Props.C07', 'Sarpy.Props.C07', REQUIRED, gen_info, extra=dispatch.extra_writes() + seg_hist.extra_writes())
    # the kernel bridges live in C01's namespace: they are obligations of this property too
    if not broken:
        from common import audit, ALLOWED_AXIOMS
        k = audit('SarpyModel.Props.C01', 'Sarpy.Props.C01')
        need = ['gen_verify_slice', 'gen_size', 'gen_mirror', 'gen_overlap', 'gen_reverse', 'mirror_spec', 'overlap_spec', 'compose_spec']
        for r in need:
            nm = 'Sarpy.Props.C01.' + r
            if nm not in k:
                broken.append(nm + ' (required theorem missing)')
            elif set(k[nm]) - ALLOWED_AXIOMS:
                broken.append(nm + ' uses non-standard axioms')
        chk.coverage['obligations'] += len(need)
        chk.coverage['discharged'] += len([r for r in need if 'Sarpy.Props.C01.' + r in k])
        segmodel.obligations_writes(chk, broken)     # Props/C07Seg.lean: where the segment classes store a chunk

    fails = []
    stats = {}
    drv_jobs = []
    seen = set()
    tmpdir = tempfile.mkdtemp(prefix='c07_', dir=os.environ.get('VERIF_SCRATCH', '/var/tmp'))
    try:
        # kernel oracles (shared with C01) are the first search when a bridge breaks
        kcases = c01.kernel_cases(rng, 'quick')
        koracle = [{'kind': 'kernel', 'case': c, 'msg': m} for c in kcases for m in [c01.kernel_oracle(c)] if m]
        ncases = 120 if tier == 'quick' else 2500
        for _ in range(ncases):
            spec = rand_wtree(rng, rng.choice([0, 1, 1, 2, 2]))
            try:
                shape = segtree.full_shape_of(spec)
            except Exception:
                continue
            if not shape or any(n == 0 for n in shape):
                continue
            chunks = rand_partition(rng, shape, allow_stride=True)
            modes = []
            for ch in chunks:
                contiguous = all(x[2] == 1 for x in ch)
                modes.append('start' if contiguous and rng.random() < 0.5 else 'sub')
            seen.add(segtree.tree_class(spec) + '|' + str(len(chunks)) + ('S' if any(x[2] != 1 for ch in chunks for x in ch) else 'C'))
            check_case(spec, chunks, modes, tmpdir, fails, stats, drv_jobs)
    finally:
        shutil.rmtree(tmpdir, ignore_errors=True)

    disagreements = []
    try:
        drv = Driver()
        idx = [drv.ask(j[1]) for j in drv_jobs]
        seg_plan = segmodel.plan_writes(drv, rng, tier, rand_wtree)
        ans = drv.run()
        seg_dis, seg_stats = segmodel.check_writes(seg_plan, ans)
        disagreements += seg_dis
        chk.coverage['segment_model'] = seg_stats
        # search: the numpy oracles on the trees where model and implementation part ways (random partitions of the same tree)
        if seg_dis:
            tmp2 = tempfile.mkdtemp(prefix='c07s_', dir=os.environ.get('VERIF_SCRATCH', '/var/tmp'))
            try:
                for dsg in seg_dis[:8]:
                    try:
                        shape = segtree.full_shape_of(dsg['tree'])
                    except Exception:
                        continue
                    for _ in range(3):
                        chunks = rand_partition(rng, shape, allow_stride=True)
                        check_case(dsg['tree'], chunks, ['sub'] * len(chunks), tmp2, fails, stats, [])
            finally:
                shutil.rmtree(tmp2, ignore_errors=True)
        for (case, line, flat, flag, nassign), i in zip(drv_jobs, idx):
            store, _, tail = ans[i].partition(' | ')
            cells = store.split(',') if store else []
            pw, rfw, fw = tail.split()
            impl_cells = [('_' if int(v) == -1 else str(int(v))) for v in flat]
            if cells != impl_cells:
                disagreements.append({'case': case, 'model_store': store[:200], 'impl_store': ','.join(impl_cells)[:200]})
            elif (fw == 'true') != all(c != '_' for c in impl_cells):
                disagreements.append({'case': case, 'model_fullyWritten': fw})
    except Infra as e:
        broken.append('model driver does not build/run: ' + str(e)[:300])

    # ---- the writer dispatch layer (BaseWriter.__call__ / write / write_raw / write_chip; SIDDWriter / NITFWriter with several images)
    try:
        dsp = dispatch.run_writes(chk, tier)
        fails += dsp['fails']
        disagreements += dsp['disagreements']
        broken += dsp['broken']
        chk.coverage['dispatch'] = dsp['stats']
        stats['dispatch_puts'] = dsp['evaluations']
        seen |= {('dispatch', k) for k in range(dsp['stats'].get('classes', 0))}
    except Infra as e:
        broken.append('dispatch model driver does not build/run: ' + str(e)[:300])

    # ---- written-sample accounting: histories of write / write_raw chunks on ONE object, and SICDWriter write_raw histories
    sh = seg_hist.run_writes(chk, tier, consumers=True)
    fails += sh['fails']
    disagreements += sh['disagreements']
    broken += sh['broken']
    chk.coverage['write_accounting'] = sh['stats']
    stats['accounting_writes'] = sh['evaluations']

    chk.coverage.update({
        'evaluations': stats.get('writes', 0) + len(drv_jobs) + chk.coverage.get('segment_model', {}).get('writes', 0) + stats.get('dispatch_puts', 0) + stats.get('accounting_writes', 0),
        'distinct_nontrivial': len(seen),
        'rule': 'random writable segment trees (array/memmap leaves, identity and complex IQ/QI/MP/PM formats, subset (formatted / raw basis) incl. padded blocks, '
                'reorientation, band and block aggregates) x random partitions of the formatted index set into rectangular chunks '
                '(contiguous intervals and strided lattices per axis) x random chunk order x addressing mode (start_indices / subscript); '
                'distinct = distinct (tree class, chunk count, strided?) triples; each history has >= 1 write and is compared with a whole-image write, '
                'with a numpy provenance expectation, with a read-back, and replayed in the Lean scatter model; '
                'writer dispatch: BaseWriter over 1-4 recording segments (orientations, a segment without inverse format) x __call__ / write / write_raw / write_chip '
                'by keyword and by position x index (in range, negative, out of range) x start_indices / subscript / neither; SIDDWriter and NITFWriter files with 2-3 '
                'images written in interleaved row chunks through every entry point and re-read',
        'samples': [{'tree': j[0]['tree'], 'chunks': j[0]['chunks'][:4], 'modes': j[0]['modes'][:4]} for j in drv_jobs[:2]],
        'segment_stats': stats,
        'traces_validated_against_impl': len(drv_jobs),
        'disagreements_checked': len(disagreements),
    })
    chk.assumptions += [
        'each real write is observed from outside as the set of raw leaf positions it changed (sentinel -1 / distinct sample values)',
        'translator py2lean for the shared slice kernels (checked by C01\'s three-way differential)',
        'the map from a formatted chunk to raw positions inside the segment classes: theorem write_routes (Props/C07Seg.lean) is about '
        'Spec.Segment, a hand-written mirror of data_segment.py / format_function.py, tied to the code by the write correspondence of this run '
        '(array / memmap leaves, reverse + transpose, ReorientationSegment, subsets with and without squeezed axes in either basis, band '
        'aggregates, tilings, ComplexFormatFunction IQ/QI/MP/PM with the band axis collapsed or kept: every stored sample is identified as '
        'real / imaginary / magnitude / phase part of one chunk element); the store theorems (write_then_full, chunks_commute) are stated for '
        'trees without a complex format, the routing theorem write_routesG for all writable trees',
        'numpy.memmap flushing and the OS page cache are outside the model',
        'writer dispatch layer: Spec/Dispatch.lean (dispatchPut) is tied to BaseWriter by the translator (Gen/Dispatch.lean, Bridge/Dispatch.lean) and by '
        'the observed hand-over to recording data segments (segment, write vs write_raw, start_indices, subscript); the inference of the subscript from '
        'start_indices inside the segment (_infer_subscript_for_write) is covered by the numpy store oracle, not modelled',
    ]
    # SubsetSegment._from_parent_subscript (subset coordinates of a parent subscript, used when writing through subsets of subsets) is
    # regenerated from the source and bridged: Bridge/Kernels2.lean gen_from_parent_axis / fromParentAxis_spec
    import kernels2
    from common import audit as _audit, lake_build as _lb, ALLOWED_AXIOMS as _AA
    k2_info = kernels2.regen()
    if any(n == 'from_parent_axis' for n, _ in k2_info['unsupported']):
        broken.append('translator could not express _from_parent_subscript: ' + json.dumps(k2_info['unsupported']))
    _ok, _failed, _errs, _log = _lb(['SarpyModel.Bridge.Kernels2'])
    if not _ok:
        broken.append('SarpyModel.Bridge.Kernels2 (lake build failed): ' + '; '.join(f'{f}:{l}: {m}' for f, l, c, m in _errs[:3]))
    else:
        _k = _audit('SarpyModel.Bridge.Kernels2', 'Sarpy.Bridge.K2')
        for r in ('gen_from_parent_axis', 'fromParentAxis_spec', 'cnt_mul_succ'):
            nm = 'Sarpy.Bridge.K2.' + r
            if nm not in _k:
                broken.append(nm + ' (required theorem missing)')
            elif set(_k[nm]) - _AA:
                broken.append(nm + ' depends on non-standard axioms')
            else:
                chk.coverage['obligations'] = chk.coverage.get('obligations', 0) + 1
                chk.coverage['discharged'] = chk.coverage.get('discharged', 0) + 1
                chk.coverage.setdefault('theorems', []).append(nm)
    kfails = []
    nk = kernels2.run_kernels(rng, tier, ['fromparent'], kfails, disagreements, stats)
    chk.coverage['evaluations'] = chk.coverage.get('evaluations', 0) + nk
    all_fail = koracle + fails + kfails
    unknown = [f for f in all_fail if not (classify(f) and chk.known(classify(f)))]
    for f in unknown[:5]:
        chk.violation(f['msg'], {'case': f, 'replay_cmd': './check C07 --replay <this file>'}, True)
    if len(unknown) > 5:
        chk.notes.append(f'{len(unknown)} failing inputs found, first 5 reported')
    if not unknown and (broken or disagreements):
        chk.violation('proof obligation or correspondence no longer checks: ' + '; '.join(broken[:3] + [json.dumps(d, default=str)[:300] for d in disagreements[:2]]),
                      {'broken_obligations': broken, 'disagreements': disagreements[:10]}, False)
    chk.coverage['failing_inputs'] = len(all_fail)
    return chk.finish()


def replay(path):
    case = json.load(open(path))['case']
    if case['kind'] in ('dispatch', 'dispatch-write'):
        return dispatch.replay_case(case)
    if case['kind'] == 'kernel':
        return c01.replay(path)
    if case['kind'].startswith('seghist'):
        return seg_hist.replay_case(case)
    fails = []
    tmpdir = tempfile.mkdtemp(prefix='c07r_', dir='/var/tmp')
    try:
        check_case(case['tree'], case['chunks'], case['modes'], tmpdir, fails, {}, [])
    finally:
        shutil.rmtree(tmpdir, ignore_errors=True)
    for f in fails:
        print(f['msg'])
    return 1 if fails else 0
