"""Self-consistent CRSD 1.0 metadata and data generators (C11).

There is no example CRSD document in /repo, so the metadata is constructed in code from the element classes in
sarpy/io/received/crsd1_elements (required children of the bundled schema CRSD_schema_V1.0.0_2021_06_12.xsd:
CollectionID, Global, Data, Channel, PVP, ReferenceGeometry; optional here: SceneCoordinates-free receive-only product,
SupportArray, PVP.SIGNAL / DGRGC / AmpSF / RcvAntenna / TxPulse / AddedPVP).
`validate(meta)` checks the rendered XML against the bundled schema with lxml (sanity check of this generator)."""
import os

import numpy

REPO = os.environ.get('SARPY_REPO', '/repo')
BPS = {'CI2': 2, 'CI4': 4, 'CF8': 8}
SIG_DTYPE = {'CI2': '>i1', 'CI4': '>i2', 'CF8': '>f4'}

# support array kinds: (element format, numpy dtype of one component, bytes per element, components) - written down from the standard's
# binary format table, NOT derived from sarpy: scalar formats, homogeneous multi-component formats (a trailing depth axis), the two
# component sets sarpy maps to numpy sub-array dtypes (X/Y/Z and DCX/DCY), complex formats, strings
SUPPORT_KINDS = {
    'IAZ': ('IAZ=F4;', '>f4', 4, 1),
    'AGP': ('Gain=F4;Phase=F4;', '>f4', 8, 2),
    'ADD_I2': ('I2', '>i2', 2, 1),
    'ADD_F8': ('F8', '>f8', 8, 1),
    'ADD_U1': ('U1', 'u1', 1, 1),
    'ADD_CI4': ('CI4', '>i2', 4, 2),
    'ADD_CF8': ('CF8', '>c8', 8, 1),
    'ADD_XYZ8': ('X=F8;Y=F8;Z=F8;', '>f8', 24, 3),
    'ADD_XYZ4': ('X=F4;Y=F4;Z=F4;', '>f4', 12, 3),
    'ADD_DCXY': ('DCX=F4;DCY=F4;', '>f4', 8, 2),
    'ADD_AB_I2': ('A=I2;B=I2;', '>i2', 4, 2),
    'ADD_3I4': ('P=I4;Q=I4;R=I4;', '>i4', 12, 3),
}
# CPHD only (the CRSD schema has no dwell time arrays)
SUPPORT_KINDS_CPHD = dict(SUPPORT_KINDS, DTA=('COD=F4;DT=F4;', '>f4', 8, 2))
# heterogeneous element format -> one structured element (known finding: sarpy refuses it)
HETEROGENEOUS = ('A=F4;B=I2;', [('A', '>f4'), ('B', '>i2')], 6, 1)
EXPECT_BY_FORMAT = {v[0]: v for v in SUPPORT_KINDS_CPHD.values()}


def support_layout(element_format):
    """(dtype, depth) an array of this element format has, from the table above (independent of sarpy)"""
    _, dt, _, depth = EXPECT_BY_FORMAT[element_format]
    return numpy.dtype(dt), depth


PVP_OPTIONAL = ('DGRGC', 'SIGNAL', 'RcvAntenna', 'TxPulse', 'TxLFM', 'TxAntenna', 'AddedPVP')


def _normalise_support(support):
    out = []
    for k, s in enumerate(support or []):
        if len(s) == 2:
            out.append((s[0], s[1], 'IAZ'))
        else:
            out.append((s[0], s[1], s[2]))
    return out


def build_meta(fmt, channel_sizes, amp_sf, support, text=None, pvp_options=(), collect_type='MONOSTATIC',
               classification='UNCLASSIFIED', release_info='UNRESTRICTED'):
    """channel_sizes: [(vectors, samples)]; support: list of (rows, cols[, kind]) with kind a key of SUPPORT_KINDS;
    pvp_options: subset of PVP_OPTIONAL; text: CollectorName (None = a fixed ASCII name);
    classification / release_info go to CollectionID and from there into the file header (kept ASCII by the callers)"""
    from sarpy.io.received.crsd1_elements.CRSD import CRSDType
    from sarpy.io.received.crsd1_elements.CollectionID import CollectionIDType
    from sarpy.io.received.crsd1_elements.Global import GlobalType, TimelineType, FrcvBandType
    from sarpy.io.received.crsd1_elements.Data import DataType, ChannelSizeType
    from sarpy.io.received.crsd1_elements.Channel import ChannelType, ChannelParametersType
    from sarpy.io.received.crsd1_elements.PVP import PVPType, RcvAntennaType, TxPulseType, TxAntennaType, \
        PerVectorParameterDCXY, PerVectorParameterTxLFM
    from sarpy.io.received.crsd1_elements.ReferenceGeometry import ReferenceGeometryType, CRPType, RcvParametersType
    from sarpy.io.phase_history.cphd1_elements.PVP import PerVectorParameterI8, PerVectorParameterF8, \
        PerVectorParameterXYZ, UserDefinedPVPType
    from sarpy.io.phase_history.cphd1_elements.Data import SupportArraySizeType
    from sarpy.io.phase_history.cphd1_elements.SupportArray import SupportArrayType, IAZArrayType, \
        AntGainPhaseType, AddedSupportArrayType

    opts = set(pvp_options)
    # ---- PVP: offsets packed in declaration order (words of 8 bytes)
    off = [0]

    def nxt(cls, size):
        o = off[0]
        off[0] += size
        return cls(Offset=o)

    F8, XYZ, I8 = PerVectorParameterF8, PerVectorParameterXYZ, PerVectorParameterI8
    kw = {'RcvTime': nxt(F8, 1), 'RcvPos': nxt(XYZ, 3), 'RcvVel': nxt(XYZ, 3), 'RefPhi0': nxt(F8, 1), 'RefFreq': nxt(F8, 1),
          'DFIC0': nxt(F8, 1), 'FICRate': nxt(F8, 1), 'FRCV1': nxt(F8, 1), 'FRCV2': nxt(F8, 1)}
    if 'DGRGC' in opts:
        kw['DGRGC'] = nxt(F8, 1)
    if 'SIGNAL' in opts:
        kw['SIGNAL'] = nxt(I8, 1)
    if amp_sf:
        kw['AmpSF'] = nxt(F8, 1)
    if 'RcvAntenna' in opts:
        kw['RcvAntenna'] = RcvAntennaType(RcvACX=nxt(XYZ, 3), RcvACY=nxt(XYZ, 3), RcvEB=nxt(PerVectorParameterDCXY, 2))
    if 'TxPulse' in opts:
        tkw = {'TxTime': nxt(F8, 1), 'TxPos': nxt(XYZ, 3), 'TxVel': nxt(XYZ, 3), 'FX1': nxt(F8, 1), 'FX2': nxt(F8, 1), 'TXmt': nxt(F8, 1)}
        if 'TxLFM' in opts:
            tkw['TxLFM'] = nxt(PerVectorParameterTxLFM, 3)
        if 'TxAntenna' in opts:
            tkw['TxAntenna'] = TxAntennaType(TxACX=nxt(XYZ, 3), TxACY=nxt(XYZ, 3), TxEB=nxt(PerVectorParameterDCXY, 2))
        kw['TxPulse'] = TxPulseType(**tkw)
    if 'AddedPVP' in opts:
        added = []
        for name, size, f in (('userI8', 1, 'I8'), ('userPair', 2, 'A=F8;B=F8;')):
            added.append(UserDefinedPVPType(Name=name, Offset=off[0], Size=size, Format=f))
            off[0] += size
        kw['AddedPVP'] = added
    pvp = PVPType(**kw)
    nbytes = off[0] * 8

    # ---- Data + Channel
    chans, params = [], []
    po = so = 0
    for i, (nv, ns) in enumerate(channel_sizes):
        ident = f'ch{i}'
        chans.append(ChannelSizeType(Identifier=ident, NumVectors=nv, NumSamples=ns, SignalArrayByteOffset=so, PVPArrayByteOffset=po))
        po += nv * nbytes
        so += nv * ns * BPS[fmt]
        params.append(ChannelParametersType(
            Identifier=ident, RefVectorIndex=0, RefFreqFixed=True, FrcvFixed=True, DemodFixed=True,
            F0Ref=9.6e9 + i * 1.0e6, Fs=1.25e8, BWInst=1.0e8, RcvPol=('V', 'H', 'RHC', 'UNSPECIFIED')[i % 4]))
    arrs, iaz, agp, add = [], [], [], []
    ao = 0
    for k, (r, c, kind) in enumerate(_normalise_support(support)):
        efmt, _, bpe, _ = SUPPORT_KINDS[kind]
        ident = f'sa{k}'
        arrs.append(SupportArraySizeType(Identifier=ident, NumRows=r, NumCols=c, BytesPerElement=bpe, ArrayByteOffset=ao))
        ao += r * c * bpe
        if kind == 'IAZ':
            iaz.append(IAZArrayType(Identifier=ident, ElementFormat=efmt, X0=0.0, Y0=0.0, XSS=1.0, YSS=1.0))
        elif kind == 'AGP':
            agp.append(AntGainPhaseType(Identifier=ident, ElementFormat=efmt, X0=-0.5, Y0=-0.5, XSS=0.25, YSS=0.25))
        else:
            add.append(AddedSupportArrayType(Identifier=ident, ElementFormat=efmt, X0=0.0, Y0=0.0, XSS=1.0, YSS=1.0,
                                             XUnits='m', YUnits='m', ZUnits='count'))
    data = DataType(SignalArrayFormat=fmt, NumBytesPVP=nbytes, Channels=chans, SupportArrays=arrs or None)
    support_meta = SupportArrayType(IAZArray=iaz or None, AntGainPhase=agp or None, AddedSupportArray=add or None) if arrs else None

    meta = CRSDType(
        CollectionID=CollectionIDType(CollectorName='Sensor-1' if text is None else text, CoreName='20260101_CORE_0001',
                                      CollectType=collect_type, Classification=classification, ReleaseInfo=release_info),
        Global=GlobalType(Timeline=TimelineType(CollectionRefTime=numpy.datetime64('2026-01-01T12:00:00.000000', 'us'), RcvTime1=0.0, RcvTime2=1.5),
                          FrcvBand=FrcvBandType(FrcvMin=9.5e9, FrcvMax=9.7e9)),
        Data=data,
        Channel=ChannelType(RefChId='ch0', Parameters=params),
        PVP=pvp,
        SupportArray=support_meta,
        ReferenceGeometry=ReferenceGeometryType(
            CRP=CRPType(ECF=[6378137.0, 0.0, 0.0]),
            RcvParameters=RcvParametersType(RcvTime=0.75, RcvPos=[7000000.0, 100.0, 200.0], RcvVel=[0.0, 7500.0, 10.0], SideOfTrack='L',
                                            SlantRange=621863.0, GroundRange=12.5, DopplerConeAngle=90.0, GrazeAngle=89.0,
                                            IncidenceAngle=1.0, AzimuthAngle=45.0)))
    return meta


_SCHEMA = []


def validate(meta):
    """list of schema errors of the rendered XML (lxml, bundled CRSD 1.0.0 schema); [] = valid"""
    from lxml import etree
    from sarpy.io.received.crsd_schema import get_schema_path, get_namespace
    if not _SCHEMA:
        _SCHEMA.append(etree.XMLSchema(file=get_schema_path('1.0.0')))
    doc = etree.fromstring(meta.to_xml_bytes(urn=get_namespace('1.0.0')))
    if _SCHEMA[0].validate(doc):
        return []
    return [str(e) for e in _SCHEMA[0].error_log][:10]


def make_pvp(meta, rng):
    dt = meta.PVP.get_vector_dtype()
    out = {}
    for ch in meta.Data.Channels:
        arr = numpy.zeros((ch.NumVectors,), dtype=dt)
        for name in dt.names:
            f = arr[name]
            if name == 'AmpSF':
                f[:] = [2.0 ** (-rng.randint(0, 4)) for _ in range(ch.NumVectors)]
            elif f.dtype.kind in 'iu':
                f[...] = numpy.array([rng.randint(-1000, 1000) for _ in range(f.size)]).reshape(f.shape)
            else:
                f[...] = numpy.array([rng.uniform(-5, 5) for _ in range(f.size)]).reshape(f.shape)
        out[ch.Identifier] = arr
    return out


def make_raw(meta, rng):
    fmt = meta.Data.SignalArrayFormat
    out = {}
    for ch in meta.Data.Channels:
        shape = (ch.NumVectors, ch.NumSamples, 2)
        n = int(numpy.prod(shape))
        if fmt == 'CF8':
            a = numpy.array([rng.uniform(-10, 10) for _ in range(n)], dtype='float32')
        else:
            lim = 127 if fmt == 'CI2' else 32767
            a = numpy.array([rng.randint(-lim, lim) for _ in range(n)])
        out[ch.Identifier] = a.reshape(shape).astype(SIG_DTYPE[fmt])
    return out


def make_support(meta, rng):
    """arrays in the dtype/shape the standard gives for the element format (table SUPPORT_KINDS; independent of sarpy's get_numpy_format)"""
    out = {}
    if meta.Data.SupportArrays is None:
        return out
    for s in meta.Data.SupportArrays:
        details = meta.SupportArray.find_support_array(s.Identifier)
        dtype, depth = support_layout(details.ElementFormat)
        shape = (s.NumRows, s.NumCols) if depth == 1 else (s.NumRows, s.NumCols, depth)
        n = int(numpy.prod(shape))
        if dtype.kind == 'u':
            a = numpy.array([rng.randint(0, 255) for _ in range(n)])
        elif dtype.kind == 'i':
            a = numpy.array([rng.randint(-30000, 30000) for _ in range(n)])
        elif dtype.kind == 'c':
            a = numpy.array([complex(rng.uniform(-1, 1), rng.uniform(-1, 1)) for _ in range(n)])
        else:
            a = numpy.array([rng.uniform(-1, 1) for _ in range(n)])
        out[s.Identifier] = a.astype(dtype).reshape(shape)
    return out


def element_ranges(meta):
    """independent statement of the per-element relative byte ranges from the sizes alone (cumulative, packed)"""
    bps = BPS[meta.Data.SignalArrayFormat]
    pvp, sig, sup = [], [], []
    po = so = 0
    for ch in meta.Data.Channels:
        pvp.append((po, ch.NumVectors * meta.Data.NumBytesPVP))
        po += ch.NumVectors * meta.Data.NumBytesPVP
        sig.append((so, ch.NumVectors * ch.NumSamples * bps))
        so += ch.NumVectors * ch.NumSamples * bps
    ao = 0
    for s in (meta.Data.SupportArrays or []):
        sup.append((ao, s.NumRows * s.NumCols * s.BytesPerElement))
        ao += s.NumRows * s.NumCols * s.BytesPerElement
    return {'pvp': pvp, 'signal': sig, 'support': sup}


def parse_header(buf):
    """independent parse of the file header as UTF-8 (KEY := VALUE lines up to the first \\f\\n); cphdgen.parse_header is the ASCII-only twin.
    returns (kind, version, {key: value}, byte length of the header text)"""
    end = buf.find(b'\f\n')
    if end < 0:
        raise ValueError('no header terminator')
    lines = buf[:end].decode('utf-8').split('\n')
    kind, _, ver = lines[0].partition('/')
    kv = {}
    for ln in lines[1:]:
        if not ln:
            continue
        k, sep, v = ln.partition(' := ')
        if not sep:
            raise ValueError(f'malformed header line {ln[:60]!r}')
        kv[k] = v
    return kind, ver, kv, end


def check_layout(buf, kind_expected='CRSD'):
    """(problems, header dict): same statement as cphdgen.check_layout, for headers whose strings are not ASCII"""
    import xml.etree.ElementTree as ET
    problems = []
    try:
        kind, ver, kv, hend = parse_header(buf)
    except Exception as e:
        return [f'header: {e}'], None
    if kind != kind_expected:
        problems.append(f'file type {kind!r}, expected {kind_expected!r}')
    for k in ['XML_BLOCK_SIZE', 'XML_BLOCK_BYTE_OFFSET', 'PVP_BLOCK_SIZE', 'PVP_BLOCK_BYTE_OFFSET', 'SIGNAL_BLOCK_SIZE', 'SIGNAL_BLOCK_BYTE_OFFSET']:
        if k not in kv:
            problems.append(f'header lacks {k}')
    if problems:
        return problems, kv
    try:
        g = lambda k: int(kv[k])
        xo, xs = g('XML_BLOCK_BYTE_OFFSET'), g('XML_BLOCK_SIZE')
        chain = ([('SUPPORT', g('SUPPORT_BLOCK_BYTE_OFFSET'), g('SUPPORT_BLOCK_SIZE'))] if 'SUPPORT_BLOCK_BYTE_OFFSET' in kv else []) + \
            [('PVP', g('PVP_BLOCK_BYTE_OFFSET'), g('PVP_BLOCK_SIZE')), ('SIGNAL', g('SIGNAL_BLOCK_BYTE_OFFSET'), g('SIGNAL_BLOCK_SIZE'))]
    except (KeyError, ValueError) as e:
        return [f'header value is not a number: {e}'], kv
    if hend + 2 > xo:
        problems.append(f'header text and terminator end at {hend + 2}, after XML_BLOCK_BYTE_OFFSET {xo}')
    xml = buf[xo:xo + xs]
    if not xml.lstrip().startswith(b'<') or not xml.rstrip().endswith(b'>'):
        problems.append('XML block does not hold one XML document at its declared offset and size')
    if buf[xo + xs:xo + xs + 2] != b'\f\n':
        problems.append(f'XML block is not followed by the section terminator at {xo + xs} (found {buf[xo + xs:xo + xs + 2]!r})')
    try:
        root = ET.fromstring(xml)
        ns = root.tag[1:].split('}')[0] if root.tag.startswith('{') else ''
        if ns != f'urn:{kind}:{ver}' and ns != f'http://api.nsgreg.nga.mil/schema/{kind.lower()}/{ver}':
            problems.append(f'XML namespace {ns!r} does not match the declared version {kind}/{ver}')
    except Exception as e:
        problems.append(f'XML block does not parse: {e}')
    prev_end = xo + xs + 2
    for name, off, size in chain:
        if off < prev_end:
            problems.append(f'{name} block at {off} overlaps the previous block ending at {prev_end}')
        prev_end = off + size
    if prev_end != len(buf):
        problems.append(f'SIGNAL block ends at {prev_end} but the file has {len(buf)} bytes')
    return problems, kv
