"""C17 — display remaps produce in-range, monotone, chunk-independent output.

proof side : lean/SarpyModel/Props/C17.lean over Spec.Remap at R (range of clip-and-cast for every input incl. NaN/inf
             tags; monotonicity of the Density family / PEDF / Linear / Logarithmic / NRL transfer functions; a remap
             with fixed global parameters is List.map, hence equal over any chunking and independent of other pixels;
             LUT = table lookup of the monochrome result; the density family AS CODED - all-zero chunk short cut - is
             chunk independent only when a zero pixel maps to 0, with a proved negation witness otherwise)
tie        : correspondence at Float: the same Spec.Remap definitions, instantiated at IEEE double in the driver, are
             evaluated on the amplitudes of adversarial arrays for every registered remap (8 bit), their 16 bit and
             reduced-range twins, GDM and a custom LUT, over a grid of global parameter settings; integer outputs must
             agree with sarpy's except where the model's raw value is within 1e-9 of an integer (logged, skipped)
search     : direct oracle on the implementation for every remap x parameter setting x array: output dtype / shape /
             range; non-decreasing along the sorted amplitudes (equal amplitudes -> equal output); identical values when
             the image is remapped whole, in 5 chunkings and pixel by pixel; finite pixels unchanged when other pixels
             are replaced by NaN / inf; LUT output = table[monochrome output]; global parameters set from a reader
             (sarpy/io/complex/utils.py statistics) give the same guarantees
"""
import json
import logging
import math
import os
import struct
import warnings

import numpy

from common import Check, Driver, Infra, VERIF, sarpy_guard

REQUIRED = ['clipCast_le', 'clipCast_mono', 'log10_mono', 'log2_mono', 'a2dFin_mono', 'density_mono', 'density_range',
            'pedf_mono', 'pedf_range', 'linear_mono', 'linear_range', 'linear_nonfinite', 'log_mono', 'log_range',
            'nrl_mono', 'nrl_range', 'remap_range', 'remap_sorted', 'remap_append', 'remap_chunks', 'remap_partition',
            'remap_pixelwise', 'remap_getElem?', 'remap_indep_of_others', 'remap_set_other', 'lut_eq_table', 'lut_chunks',
            'lut_in_table', 'chunkCoded_chunk_independent_partial', 'chunkCoded_chunk_dependent',
            'density_zero_pixel_ge_dmin', 'coded_density_chunk_dependent_witness']

# the one defect known at design time: amplitude_to_density returns the input unchanged when the *chunk* is all zeros
KEY_ZERO = 'amplitude_to_density:all-zero-chunk-shortcut'
# found by this harness: NRL given statistics beyond the float32 range together with single precision input - the bounds of
# numpy.clip are rounded to float32 inf and an infinite pixel comes out as NaN -> 0 instead of max_output_value
KEY_NRL32 = 'NRL:stats-beyond-float32-range-with-single-precision-input'
F32MAX = 3.4028234663852886e38
# found by this harness: with no stats given, NRL computes (min, max, percentile); scipy's interpolated percentile can land one
# ulp above the maximum (ties at the top) and NRL._validate_stats then raises ValueError on a perfectly ordinary array
KEY_NRLPCT = 'NRL:computed-percentile-exceeds-maximum-by-rounding'
DENSFAM = ('dens', 'pedf', 'gdm')
EPS_CODE = 1e-5
NEAR = 1e-9


# ------------------------------------------------------------------ encoding helpers

def bits(x):
    return str(struct.unpack('<Q', struct.pack('<d', float(x)))[0])


def unbits(s):
    return struct.unpack('<d', struct.pack('<Q', int(s)))[0]


def enc_arr(x):
    x = numpy.ascontiguousarray(x)
    return {'dtype': x.dtype.name, 'shape': list(x.shape), 'hex': x.tobytes().hex()}


def dec_arr(d):
    return numpy.frombuffer(bytes.fromhex(d['hex']), dtype=d['dtype']).reshape(d['shape']).copy()


def enc_kw(kw):
    out = {}
    for k, v in kw.items():
        out[k] = [float(t).hex() for t in v] if isinstance(v, (tuple, list)) else float(v).hex()
    return out


def dec_kw(d):
    return {k: (tuple(float.fromhex(t) for t in v) if isinstance(v, list) else float.fromhex(v)) for k, v in d.items()}


def show_arr(x, n=12):
    f = numpy.ravel(x)
    return f'{x.dtype.name}{list(x.shape)} ' + ' '.join(repr(v.item()) for v in f[:n]) + (' ...' if f.size > n else '')


# ------------------------------------------------------------------ remap configurations

def build(spec):
    """spec -> remap instance (used identically by run and replay)"""
    from sarpy.visualization import remap as R
    if 'reg' in spec:
        return R.get_registered_remap(spec['reg'])
    if spec['cls'] == 'LUT8bit':
        table = spec['table']
        if not isinstance(table, str):
            table = numpy.array(table, dtype='uint8')
        r = R.LUT8bit(build(spec['mono']), table, **spec.get('kw', {}))
    else:
        r = getattr(R, spec['cls'])(**spec.get('kw', {}))
    if spec.get('register_as'):
        r._set_name(spec['register_as'])
        R.register_remap(r, overwrite=True)
        got = R.get_registered_remap(spec['register_as'])
        if got is not r:
            raise Infra('get_registered_remap did not return the instance just registered')
        return got
    return r


def kind_of(r):
    from sarpy.visualization import remap as R
    if isinstance(r, R.LUT8bit):
        return 'lut'
    if isinstance(r, R.PEDF):
        return 'pedf'
    if isinstance(r, R.GDM):
        return 'gdm'
    if isinstance(r, R.Density):
        return 'dens'
    if isinstance(r, R.Linear):
        return 'lin'
    if isinstance(r, R.Logarithmic):
        return 'log'
    if isinstance(r, R.NRL):
        return 'nrl'
    return None


def config_specs(rng):
    """every registered remap (8 bit), a 16 bit twin of each monochrome class registered under a new name,
    reduced max_output_value twins, parameter variants, GDM and custom LUTs"""
    from sarpy.visualization import remap as R
    specs = [{'reg': n} for n in R.get_remap_names() if not n.startswith('c17_')]
    for cls in ('NRL', 'Density', 'High_Contrast', 'Brighter', 'Darker', 'Linear', 'Logarithmic', 'PEDF'):
        specs.append({'cls': cls, 'kw': {'bit_depth': 16}, 'register_as': f'c17_{cls.lower()}_16'})
    specs += [
        {'cls': 'Density', 'kw': {'bit_depth': 8, 'max_output_value': 200}},
        {'cls': 'Density', 'kw': {'bit_depth': 16, 'max_output_value': 1000, 'dmin': 100, 'mmult': 2.5}},
        {'cls': 'Density', 'kw': {'bit_depth': 8, 'dmin': 254, 'mmult': 1000}},
        {'cls': 'Density', 'kw': {'bit_depth': 8, 'dmin': 0, 'mmult': 1}},          # slope = x/0: oracle only
        {'cls': 'PEDF', 'kw': {'bit_depth': 16, 'max_output_value': 4095, 'dmin': 10, 'mmult': 8}},
        {'cls': 'Linear', 'kw': {'bit_depth': 16, 'max_output_value': 1023}},
        {'cls': 'Logarithmic', 'kw': {'bit_depth': 8, 'max_output_value': 1}},
        {'cls': 'NRL', 'kw': {'bit_depth': 8, 'knee': 1}},
        {'cls': 'NRL', 'kw': {'bit_depth': 16, 'knee': 65534, 'max_output_value': 65535}},
        {'cls': 'NRL', 'kw': {'bit_depth': 16, 'max_output_value': 300, 'knee': 17.5}},
        {'cls': 'GDM', 'kw': {'bit_depth': 8, 'graze_deg': 30.0, 'slope_deg': 10.0, 'weighting': 'UNIFORM'}},
        {'cls': 'GDM', 'kw': {'bit_depth': 16, 'graze_deg': 55.0, 'slope_deg': 35.0, 'weighting': 'TAYLOR'}},
    ]
    t1 = [[rng.randrange(256) for _ in range(4)] for _ in range(101)]
    t2 = [[rng.randrange(256)] for _ in range(256)]
    specs += [
        {'cls': 'LUT8bit', 'mono': {'cls': 'NRL', 'kw': {'bit_depth': 8, 'max_output_value': 100}}, 'table': t1},
        {'cls': 'LUT8bit', 'mono': {'cls': 'Density', 'kw': {'bit_depth': 8}}, 'table': t2},
        {'cls': 'LUT8bit', 'mono': {'cls': 'Linear', 'kw': {'bit_depth': 8}}, 'table': 'bone', 'kw': {'use_alpha': True}},
    ]
    return specs


def spec_name(spec):
    if 'reg' in spec:
        return 'registered:' + spec['reg']
    s = spec['cls'] + json.dumps(spec.get('kw', {}), sort_keys=True)
    if spec['cls'] == 'LUT8bit':
        s += '<' + spec_name(spec['mono']) + '>'
    return s


# ------------------------------------------------------------------ global parameter settings

def logu(rng, lo, hi):
    return 10.0 ** rng.uniform(lo, hi)


def param_pool(kind, rng, n):
    """list of (class label, kwargs) - the global parameters, always fully specified"""
    out = []
    if kind in ('dens', 'pedf'):
        fixed = [1e-7, 1e-6, 1.2e-5, 2.5e-5, 1e-3, 0.37, 1.0, 85.2, 1e4, 1e30, 1e-300]
        for m in fixed:
            out.append(('mean~1e%d' % round(math.log10(m)), {'data_mean': m}))
        while len(out) < n:
            m = logu(rng, -8, 6)
            out.append(('mean~1e%d' % round(math.log10(m)), {'data_mean': m}))
    elif kind == 'gdm':
        fixed = [(1e-7, 0.8e-7), (1.0, 0.8), (85.2, 60.0), (1e4, 1.1e4), (3.0, 0.3), (1e-3, 1e-3), (1e30, 0.5e30)]
        for m, md in fixed:
            out.append(('mean~1e%d' % round(math.log10(m)), {'data_mean': m, 'data_median': md}))
        while len(out) < n:
            m = logu(rng, -8, 6)
            out.append(('mean~1e%d' % round(math.log10(m)), {'data_mean': m, 'data_median': m * rng.uniform(0.2, 1.3)}))
    elif kind in ('lin', 'log'):
        fixed = [('unit', 0.0, 1.0), ('byte', 0.0, 255.0), ('equal', 10.0, 10.0), ('swapped', 5.0, 1.0), ('neglo', -3.0, 7.0),
                 ('denormal', 1e-310, 1e-300), ('huge', 0.0, 1e30), ('wide', 1e-5, 1e5), ('zero', 0.0, 0.0), ('tiny-gap', 1.0, 1.0000000000000002),
                 ('max', 0.0, 1.7e308)]
        for lab, lo, hi in fixed:
            out.append((lab, {'min_value': lo, 'max_value': hi}))
        while len(out) < n:
            lo = rng.choice([0.0, logu(rng, -6, 3)])
            out.append(('random', {'min_value': lo, 'max_value': lo + logu(rng, -6, 6)}))
    elif kind == 'nrl':
        fixed = [('typical', 0.0, 10.0, 8.0), ('allzero', 0.0, 0.0, 0.0), ('constant', 2.0, 2.0, 2.0), ('chg=min', 0.0, 10.0, 0.0),
                 ('chg=max', 0.0, 10.0, 10.0), ('denormal', 1e-310, 1e-300, 5e-301), ('huge', 0.0, 1e30, 1e3), ('offset', 3.0, 1e4, 997.2),
                 ('tiny-gap', 1.0, 1.0000000000000004, 1.0000000000000002), ('max', 0.0, 1.7e308, 1.0)]
        for lab, a, b, c in fixed:
            out.append((lab, {'stats': (a, b, c)}))
        while len(out) < n:
            a = rng.choice([0.0, logu(rng, -6, 2)])
            b = a + logu(rng, -4, 6)
            c = a + (b - a) * rng.choice([rng.random(), 0.99, 0.5])
            out.append(('random', {'stats': (a, b, c)}))
    return out[:n]


def effective(r, kind, kw):
    """the global parameters in force for this call (keyword first, then instance state) as model arguments"""
    from sarpy.visualization import remap as R
    if kind == 'lut':
        return effective(r.mono_remap, kind_of(r.mono_remap), kw)
    M = int(r.max_output_value)
    if kind in ('dens', 'pedf'):
        d = r if kind == 'dens' else r._density
        mean = kw.get('data_mean', d.data_mean)
        if d.mmult == 1 or mean is None:
            return None
        return (kind, M, [d.dmin, d.mmult, float(mean)])
    if kind == 'gdm':
        mean, med = kw.get('data_mean', r.data_mean), kw.get('data_median', r.data_median)
        if mean is None or med is None:
            return None
        c_l, c_h = r._cutoff_values(float(mean), float(med))      # parameter derivation (not a pixel function)
        return ('dens', M, [30.0, c_h / c_l, c_l / 0.8])
    if kind in ('lin', 'log'):
        lo, hi = kw.get('min_value', r.min_value), kw.get('max_value', r.max_value)
        if lo is None or hi is None:
            return None
        return (kind, M, [float(lo), float(hi)])
    if kind == 'nrl':
        st = kw.get('stats', r.stats)
        if st is None:
            return None
        return ('nrl', M, [r.knee, float(st[0]), float(st[1]), float(st[2])])
    return None


def threshold_array(kind, kw, rng):
    """amplitudes placed exactly on the parameter-dependent break points (zero imaginary part: |x| is exact)"""
    if kind in DENSFAM:
        m = kw['data_mean']
        v = [0.0, 5e-6, EPS_CODE, numpy.nextafter(EPS_CODE, 1.0), 0.5 * m, 0.8 * m, m, 10 * m, 32 * m, 100 * m, 1e4 * m]
    elif kind in ('lin', 'log'):
        lo, hi = sorted([kw['min_value'], kw['max_value']])
        v = [0.0, lo, numpy.nextafter(lo, numpy.inf), 0.5 * lo + 0.5 * hi, lo + 0.25 * (hi - lo), hi, numpy.nextafter(hi, numpy.inf), 2 * hi + 1]
    else:
        a, b, c = kw['stats']
        v = [0.0, a, 0.5 * (a + c), c, numpy.nextafter(c, numpy.inf), 0.5 * (c + b), numpy.nextafter(b, -numpy.inf), b, 2 * b + 1]
    v = [t for t in v if numpy.isfinite(t)]
    rng.shuffle(v)
    return numpy.array(v, dtype='float64').astype('complex128')


# ------------------------------------------------------------------ adversarial arrays

def array_pool(rng):
    g = numpy.random.default_rng(rng.getrandbits(63))
    nan, inf = numpy.nan, numpy.inf
    pool = []

    def add(label, a):
        pool.append((label, numpy.array(a)))

    def phases(a):
        return a * numpy.exp(1j * g.uniform(0, 2 * numpy.pi, a.shape))

    for top, n in ((1.0, 17), (255.0, 40), (1e4, 33)):
        add('ramp', numpy.linspace(0, top, n).astype('complex128'))
    add('ramp', numpy.linspace(0, 300, 31))                                       # float64
    add('ramp-geo', phases(numpy.geomspace(1e-12, 1e12, 49)))
    add('ramp-geo', numpy.geomspace(1e-9, 1e9, 37)[::-1].copy())
    add('ramp', numpy.linspace(0, 40, 48).reshape(6, 8).astype('complex128'))
    add('zeros', numpy.zeros(1, 'complex128'))
    add('zeros', numpy.zeros(7, 'float64'))
    add('zeros', numpy.zeros((3, 4), 'complex128'))
    add('zeros', numpy.zeros(5, 'complex64'))
    add('zeros+one', numpy.array([0, 0, 0, logu(rng, -7, 3)], 'complex128'))
    add('zeros+one', numpy.array([[0, 0, 0], [0, logu(rng, -7, 3), 0], [0, 0, 0]], 'float64'))
    add('denormal', numpy.array([0, 5e-324, 1e-320, 1e-310, 2.2250738585072014e-308, 1e-300, 1e-5, 1.0]))
    add('denormal', 1j * numpy.array([1e-300, 5e-324, 0, 1e-310, 3e-308]))
    add('denormal', numpy.array([1e-45, 0, 1e-38, 1e-40], 'float32'))
    add('huge', numpy.array([1.0, 1e10, 1e30, 1e100, 1e300, 1.7e308]))
    add('huge', numpy.array([1e30 + 1e30j, 1e300 + 1e300j, 1.5e308 + 1.5e308j, 3 + 4j, 1e30j]))   # |x| overflows to inf once
    add('huge', numpy.array([1e30, 3e38, 1.0, 1e-30], 'float32'))
    for k in range(3):
        a = phases(g.lognormal(rng.uniform(-3, 3), 1.5, 30))
        idx = g.choice(30, 6, replace=False)
        a[idx[0]] = nan
        a[idx[1]] = inf
        a[idx[2]] = complex(nan, 1.0)
        a[idx[3]] = complex(inf, nan)
        a[idx[4]] = complex(1.0, -inf)
        a[idx[5]] = 0
        add('sprinkled', a)
    a = g.lognormal(0, 2, 25)
    a[[2, 9, 17]] = [nan, inf, -inf]
    add('sprinkled', a)
    a = g.lognormal(1, 1, 24).astype('float32')
    a[[1, 5]] = [nan, inf]
    add('sprinkled', a)
    add('nonfinite', numpy.array([nan]))
    add('nonfinite', numpy.array([inf, inf], 'complex128'))
    add('nonfinite', numpy.array([nan, inf, -inf, nan]))
    add('nonfinite', numpy.full((2, 3), complex(nan, nan)))
    for shape in ((5, 8), (6, 6)):
        a = phases(g.lognormal(rng.uniform(-2, 4), 1.0, shape))
        a[rng.randrange(shape[0]), :] = 0            # one all-zero row: row chunking sees an all-zero chunk
        a[rng.randrange(shape[0]), rng.randrange(shape[1])] = nan
        add('2d-zero-row', a)
    a = phases(g.lognormal(-12, 1.0, (4, 5)))
    a[:, 2] = 0
    add('2d-zero-col-tiny', a)
    add('negative-real', numpy.linspace(-5, 5, 21))
    add('negative-real', -g.lognormal(0, 1, 15))
    add('c64', phases(g.lognormal(0, 2, 40)).astype('complex64'))
    add('c64', numpy.linspace(0, 500, 26).astype('complex64'))
    add('f32', g.lognormal(2, 1, (4, 7)).astype('float32'))
    add('ties', g.integers(0, 5, 30).astype('complex128'))
    add('ties', numpy.repeat(g.lognormal(0, 1, 6), 4))
    add('ints', numpy.arange(0, 260, 7).astype('float64'))
    add('empty', numpy.zeros((0,), 'complex128'))
    add('single', numpy.array([[logu(rng, -3, 3)]], 'complex128'))
    add('lognormal', phases(g.lognormal(rng.uniform(-6, 6), 2.5, 45)))
    add('uniform', g.uniform(0, 1, 33))
    return pool


def chunkings(x, rng):
    """5 partitions of the index set of x into rectangular (possibly strided) chunks + the pixel-by-pixel list"""
    out = []
    if x.ndim == 1:
        n = x.shape[0]
        h = n // 2
        out.append(('halves', [(slice(0, h, 1),), (slice(h, n, 1),)]))
        for lab in ('random-a', 'random-b'):
            cuts = sorted(set([0, n] + [rng.randrange(n + 1) for _ in range(rng.choice([2, 3, 5]))]))
            out.append((lab, [(slice(a, b, 1),) for a, b in zip(cuts[:-1], cuts[1:])]))
        k = rng.choice([2, 3])
        out.append(('strided', [(slice(s, n, k),) for s in range(k)]))
        out.append(('head+rest', [(slice(0, min(1, n), 1),), (slice(min(1, n), n, 1),)]))
    else:
        r, c = x.shape
        out.append(('rows', [(slice(i, i + 1, 1), slice(0, c, 1)) for i in range(r)]))
        out.append(('cols', [(slice(0, r, 1), slice(j, j + 1, 1)) for j in range(c)]))
        rc, cc = rng.randrange(r + 1), rng.randrange(c + 1)
        out.append(('blocks', [(slice(a, b, 1), slice(u, v, 1)) for a, b in ((0, rc), (rc, r)) for u, v in ((0, cc), (cc, c))]))
        out.append(('strided-rows', [(slice(s, r, 2), slice(0, c, 1)) for s in range(2)]))
        out.append(('strided-grid', [(slice(s, r, 2), slice(t, c, 3)) for s in range(2) for t in range(3)]))
    return out


def enc_chunks(ch):
    return [[[s.start, s.stop, s.step] for s in sl] for sl in ch]


# ------------------------------------------------------------------ direct oracle on the implementation

class Quiet:
    def __enter__(self):
        self.w = warnings.catch_warnings()
        self.w.__enter__()
        warnings.simplefilter('ignore')
        self.e = numpy.errstate(all='ignore')
        self.e.__enter__()

    def __exit__(self, *a):
        self.e.__exit__(*a)
        self.w.__exit__(*a)


def amp_key(kind, mono_kind, x):
    """the quantity the remap is a function of: |x| (the value itself for Linear on real input; non-finite -> +inf)"""
    k = mono_kind if kind == 'lut' else kind
    if k == 'lin' and not numpy.iscomplexobj(x):
        v = x.astype('float64')
        return numpy.where(numpy.isfinite(v), v, numpy.abs(v))
    return numpy.abs(x)


def oracle_case(r, kind, kw, x, rng, counts, pixel_cap=16):
    """all direct checks of the property for one remap / global parameter setting / array. Returns failure dicts."""
    fails = []
    mono_kind = kind_of(r.mono_remap) if kind == 'lut' else kind
    densfam = mono_kind in DENSFAM

    def fail(check, msg, key='', **extra):
        d = {'check': check, 'msg': msg, 'key': key}
        d.update(extra)
        fails.append(d)

    def run(arr, what):
        counts['calls'] = counts.get('calls', 0) + 1
        try:
            with Quiet():
                return r(arr, **kw)
        except Exception as e:           # an exception on a supported input is a failure, never ignored
            fail('exception', f'{what}: raised {type(e).__name__}: {e}')
            return None

    whole = run(x, 'whole image')
    if whole is None:
        return fails
    M = int(r.mono_remap.max_output_value) if kind == 'lut' else int(r.max_output_value)
    # 1. dtype / shape / range
    want_shape = tuple(x.shape) + ((r.lookup_table.shape[1],) if kind == 'lut' else ())
    if whole.dtype != r.output_dtype:
        fail('dtype', f'output dtype {whole.dtype} is not the declared {r.output_dtype}')
    if tuple(whole.shape) != want_shape:
        fail('shape', f'output shape {whole.shape}, expected {want_shape}')
        return fails
    if kind == 'lut':
        try:
            with Quiet():
                mono = r.mono_remap(x, **kw)
        except Exception as e:
            fail('exception', f'mono_remap raised {type(e).__name__}: {e}')
            return fails
        if not numpy.array_equal(whole, r.lookup_table[mono]):
            fail('lut', 'colour output differs from lookup_table[monochrome output]')
    else:
        mono = whole
    if mono.size and (int(mono.max()) > M or int(mono.min()) < 0):
        fail('range', f'output value {int(mono.max())} outside [0, {M}]')
    counts['range'] = counts.get('range', 0) + 1
    # 2. monotone in the amplitude; equal amplitudes give equal outputs
    with Quiet():
        key = numpy.ravel(amp_key(kind, mono_kind, x))
    o = numpy.ravel(mono).astype('int64')
    ok = ~numpy.isnan(key)
    ks, os_ = key[ok], o[ok]
    order = numpy.argsort(ks, kind='stable')
    ks, os_ = ks[order], os_[order]
    if ks.size > 1:
        bad = (os_[:-1] > os_[1:]) | ((ks[:-1] == ks[1:]) & (os_[:-1] != os_[1:]))
        if bad.any():
            i = int(numpy.argmax(bad))
            k = ''
            st = kw.get('stats', getattr(r.mono_remap if kind == 'lut' else r, 'stats', None)) if mono_kind == 'nrl' else None
            if st is not None and st[1] > F32MAX and x.dtype.name in ('float32', 'complex64') and numpy.isinf(ks[i + 1]) \
                    and not (bad & ~numpy.isinf(ks[1:])).any():
                k = KEY_NRL32
            fail('monotone', f'amplitude {ks[i]!r} -> {int(os_[i])} but amplitude {ks[i + 1]!r} -> {int(os_[i + 1])}', key=k)
        counts['monotone'] = counts.get('monotone', 0) + 1
    if x.size == 0:
        return fails
    amp0 = numpy.abs(x) == 0
    finite = numpy.isfinite(key).reshape(x.shape)
    # 3. chunk independence (5 chunkings) and pixel by pixel
    for label, ch in chunkings(x, rng):
        res = numpy.zeros(whole.shape, whole.dtype)
        covered = numpy.zeros(x.shape, bool)
        zero_chunk = numpy.zeros(x.shape, bool)
        broke = False
        for sl in ch:
            part = x[sl]
            if part.size == 0:
                continue
            got = run(part, f'chunk {label}')
            if got is None or got.shape != res[sl].shape:
                if got is not None:
                    fail('chunk', f'chunking {label}: chunk of shape {part.shape} gives output shape {got.shape}', chunking=enc_chunks(ch))
                broke = True
                break
            res[sl] = got
            covered[sl] = True
            if amp0[sl].all():
                zero_chunk[sl] = True
        if broke:
            continue
        if not covered.all():
            raise Infra(f'chunking {label} does not cover the array')
        diff = (res != whole)
        if kind == 'lut':
            diff = diff.any(axis=-1)
        diff &= finite
        counts['chunkings'] = counts.get('chunkings', 0) + 1
        if diff.any():
            pos = tuple(int(v) for v in numpy.argwhere(diff)[0])
            k = KEY_ZERO if (densfam and bool((zero_chunk | ~diff).all())) else ''
            fail('chunk', f'chunking {label}: finite pixel {pos} (value {x[pos]!r}) is {whole[pos].tolist()} in the whole image and '
                          f'{res[pos].tolist()} when remapped in its chunk', key=k, chunking=enc_chunks(ch), position=list(pos))
    flat_idx = list(range(x.size))
    if len(flat_idx) > pixel_cap:
        zeros = [i for i in flat_idx if numpy.ravel(amp0)[i]][:6]
        flat_idx = sorted(set(rng.sample(flat_idx, pixel_cap) + zeros))
    xf = numpy.ravel(x)
    wf = whole.reshape((x.size,) + whole.shape[x.ndim:])
    ff = numpy.ravel(finite)
    for i in flat_idx:
        got = run(xf[i:i + 1], 'single pixel')
        if got is None:
            break
        counts['pixels_alone'] = counts.get('pixels_alone', 0) + 1
        if ff[i] and not numpy.array_equal(got[0], wf[i]):
            k = KEY_ZERO if (densfam and xf[i] == 0) else ''
            fail('pixel', f'finite pixel #{i} (value {xf[i]!r}) is {wf[i].tolist()} in the whole image and {got[0].tolist()} when remapped alone',
                 key=k, position=[i])
            break
    # 4. other pixels replaced by NaN / inf
    if x.size > 1:
        y = x.copy()
        m = min(x.size - 1, rng.choice([1, 2, x.size // 2, x.size - 1]))
        repl = rng.sample(range(x.size), m)
        yf = y.reshape(-1)
        for j in repl:
            if numpy.iscomplexobj(y):
                yf[j] = rng.choice([complex(numpy.nan, 0), complex(numpy.inf, 0), complex(0, -numpy.inf), complex(numpy.nan, numpy.nan)])
            else:
                yf[j] = rng.choice([numpy.nan, numpy.inf, -numpy.inf])
        got = run(y, 'image with NaN/inf replacements')
        if got is not None:
            keep = numpy.ones(x.size, bool)
            keep[repl] = False
            keep &= ff
            gf = got.reshape(wf.shape)
            d = (gf != wf)
            if kind == 'lut':
                d = d.any(axis=-1)
            d &= keep
            counts['replacements'] = counts.get('replacements', 0) + 1
            if d.any():
                i = int(numpy.argmax(d))
                k = KEY_ZERO if (densfam and bool(amp0.all())) else ''
                fail('replace', f'finite pixel #{i} (value {xf[i]!r}) changes from {wf[i].tolist()} to {gf[i].tolist()} when pixels {sorted(repl)[:6]} '
                                f'are replaced by NaN/inf', key=k, replaced=sorted(repl))
    return fails


def classify_exception(r, kind, x, e):
    """key of an exception raised by a remap whose statistics are computed from the sample itself"""
    from sarpy.io.complex.utils import stats_calculation
    mono = r.mono_remap if kind == 'lut' else r
    if kind_of(mono) == 'nrl' and isinstance(e, ValueError) and 'inconsistent stats' in str(e):
        with Quiet():
            amp = numpy.abs(numpy.ravel(x))
            fin = amp[numpy.isfinite(amp)]
            if fin.size:
                mn, mx, pc = (float(v) for v in stats_calculation(fin, percentile=mono.percentile))
                if mn <= mx and not (mn <= pc <= mx) and abs(pc - min(max(pc, mn), mx)) <= 1e-12 * max(abs(mx), 1e-300):
                    return KEY_NRLPCT
    return ''


def confirm_zero_shortcut(r, kw, x):
    """direct oracle at an all-zero array where model and code disagree: same pixels next to one non-zero pixel"""
    with Quiet():
        alone = numpy.ravel(r(x, **kw))
        mixed = numpy.ravel(r(numpy.concatenate([numpy.ravel(x), numpy.ones(1, x.dtype)]), **kw))[:-1]
    if not numpy.array_equal(alone, mixed):
        return f'zero pixels are {alone[:1].tolist()} in an all-zero chunk and {mixed[:1].tolist()} in a chunk that also holds a non-zero pixel'
    return None


# ------------------------------------------------------------------ the check

def model_line(eff, amps):
    k, M, p = eff
    return f'remap {k} {M} ' + ' '.join(bits(v) for v in p) + ' ' + (','.join(bits(a) for a in amps) if len(amps) else '-')


def compare_model(ans, impl_flat, stats):
    """model answer 'rawbits:int,...' vs implementation integers. Returns (mismatch index or None)"""
    if ans == '-':
        return None if len(impl_flat) == 0 else 0
    toks = ans.split(',')
    if len(toks) != len(impl_flat):
        return 0
    for i, t in enumerate(toks):
        raw, _, iv = t.partition(':')
        stats['pixels_compared'] = stats.get('pixels_compared', 0) + 1
        if int(iv) != int(impl_flat[i]):
            v = unbits(raw)
            if math.isfinite(v) and abs(v - round(v)) <= NEAR * max(1.0, abs(v)):
                stats['near_boundary_skipped'] = stats.get('near_boundary_skipped', 0) + 1
                continue
            return i
    return None


def make_reader(data):
    from sarpy.io.complex.base import FlatSICDReader
    from sarpy.io.complex.sicd_elements.SICD import SICDType
    from sarpy.io.complex.sicd_elements.ImageData import ImageDataType
    r, c = data.shape
    meta = SICDType(ImageData=ImageDataType(NumRows=r, NumCols=c, PixelType='RE32F_IM32F', FirstRow=0, FirstCol=0,
                                            FullImage=(r, c), SCPPixel=(r // 2, c // 2)))
    return FlatSICDReader(meta, data)


def run(tier):
    sarpy_guard()
    logging.getLogger('sarpy').setLevel(logging.ERROR)
    from sarpy.visualization import remap as R
    chk = Check('C17', tier)
    rng = chk.rng
    broken = chk.prove(['SarpyModel.Props.C17', 'SarpyModel.Drivers'], 'SarpyModel.Props.C17', 'Sarpy.Props.C17', REQUIRED)

    quick = tier == 'quick'
    n_params = 20 if quick else 40
    rounds = 1 if quick else 4
    fails, disagreements = [], []
    counts, cstats = {}, {}
    feats = set()
    samples = []
    unmodelled = []
    evaluations = 0

    def record(spec, label, kw, x, fl):
        for f in fl:
            f.update({'spec': spec, 'remap': spec_name(spec), 'params': label, 'kw': enc_kw(kw), 'array': enc_arr(x), 'array_text': show_arr(x)})
            fails.append(f)

    state = {'drv': Driver(), 'pending': [], 'traces': 0, 'driver_ok': True}

    def ask(line, desc, impl, spec, kw, x, r, kind):
        state['pending'].append((state['drv'].ask(line), desc, impl, spec, kw, x, r, kind))
        if len(state['pending']) >= 4000:
            flush()

    def flush():
        """correspondence: run the queued model requests and compare with what the implementation returned"""
        drv, pending = state['drv'], state['pending']
        state['drv'], state['pending'] = Driver(), []
        if not pending or not state['driver_ok']:
            return
        try:
            ans = drv.run()
        except Infra as e:
            state['driver_ok'] = False
            broken.append('model driver does not build/run: ' + str(e)[:300])
            return
        for i, desc, impl, spec, kw, x, r, kind in pending:
            state['traces'] += 1
            if kind == 'cc':
                got = [] if ans[i] == '-' else [int(t) for t in ans[i].split(',')]
                cstats['pixels_compared'] = cstats.get('pixels_compared', 0) + len(impl)
                bad = [j for j, (u, v) in enumerate(zip(got, impl)) if u != v]
                if len(got) != len(impl) or bad:     # clip_cast is exact: no tolerance
                    disagreements.append({'what': 'clip_cast', 'case': spec, 'input': x.tolist(), 'model': got, 'impl': impl})
                continue
            if kind == 'luttable':
                if ans[i].split(';') != impl:
                    disagreements.append({'what': 'LUT table lookup', 'case': spec_name(spec)})
                continue
            j = compare_model(ans[i], impl, cstats)
            if j is None:
                continue
            toks = ans[i].split(',')
            model_int = toks[j].partition(':')[2] if j < len(toks) else None
            msg = None
            if kind in DENSFAM and x.size and bool((numpy.abs(x) == 0).all()):
                msg = confirm_zero_shortcut(r, kw, x)           # disagreement checked by the direct oracle at this input
            if msg:
                fails.append({'check': 'chunk', 'key': KEY_ZERO, 'msg': msg, 'spec': spec, 'remap': spec_name(spec), 'kw': enc_kw(kw),
                              'array': enc_arr(x), 'array_text': show_arr(x), 'found_by': 'model/implementation disagreement'})
            else:
                disagreements.append({'what': 'transfer function', 'remap': spec_name(spec), 'kw': enc_kw(kw), 'array': show_arr(x), 'pixel': j,
                                      'value': repr(numpy.ravel(x)[j].item()) if x.size else None, 'model': model_int,
                                      'impl': impl[j] if j < len(impl) else None, 'line': desc})

    # --- 0. the design-time witness (Props.C17.coded_density_chunk_dependent_witness) replayed on the implementation
    r0 = R.get_registered_remap('density')
    x0 = numpy.array([0.0, 1.0])
    record({'reg': 'density'}, 'witness mean=1e-7', {'data_mean': 1e-7}, x0, oracle_case(r0, 'dens', {'data_mean': 1e-7}, x0, rng, counts))
    evaluations += 1
    # the two findings of this harness, as fixed regression inputs (so that every seed meets them)
    rn = R.get_registered_remap('nrl')
    x1 = numpy.array([1.0, 2.0, numpy.inf], 'float32')
    record({'reg': 'nrl'}, 'max', {'stats': (0.0, 1.7e308, 1.0)}, x1, oracle_case(rn, 'nrl', {'stats': (0.0, 1.7e308, 1.0)}, x1, rng, counts))
    x2 = numpy.array([0.1] + [0.9753008550869892] * 5)
    try:
        with Quiet():
            rn(x2)
    except Exception as e:
        record({'reg': 'nrl'}, 'unset', {}, x2, [{'check': 'exception', 'key': classify_exception(rn, 'nrl', x2, e),
                                                  'msg': f'with no global parameters: raised {type(e).__name__}: {e}'}])
    evaluations += 2

    # --- 1. clip_cast itself
    for M, dt in ((255, 'uint8'), (65535, 'uint16'), (200, 'uint8'), (1000, 'uint16'), (1, 'uint8')):
        for _ in range(4 if quick else 40):
            vals = [rng.choice([0.0, -0.0, -1.0, 0.5, 0.999999, float(M), M + 0.5, M - 1e-9, 1e30, -1e30, numpy.nan, numpy.inf, -numpy.inf,
                                5e-324, rng.uniform(-5, M + 5), float(rng.randrange(M + 1)), rng.randrange(M + 1) + rng.choice([-1e-12, 1e-12, 0.5])])
                    for _ in range(24)]
            a = numpy.array(vals)
            evaluations += 1
            try:
                with Quiet():
                    out = R.clip_cast(a, dt, 0, M) if M != numpy.iinfo(dt).max or rng.random() < 0.5 else R.clip_cast(a, dt)
            except Exception as e:
                fails.append({'check': 'exception', 'msg': f'clip_cast raised {type(e).__name__}: {e}', 'key': '', 'array': enc_arr(a), 'clip_cast': [M, dt]})
                continue
            ok = ~numpy.isnan(a)
            o = out.astype('int64')
            srt = numpy.argsort(a[ok], kind='stable')
            if out.dtype != numpy.dtype(dt) or (o > M).any() or (numpy.diff(o[ok][srt]) < 0).any():
                fails.append({'check': 'clip_cast', 'msg': f'clip_cast(.., {dt}, 0, {M}) leaves the range / is not monotone: {a.tolist()} -> {o.tolist()}',
                              'key': '', 'array': enc_arr(a), 'clip_cast': [M, dt]})
            ask(f'remap cc {M} ' + ','.join(bits(v) for v in vals), 'cc', o.tolist(), {'clip_cast': [M, dt]}, {}, a, None, 'cc')

    # --- 2. every remap x parameter setting x array
    specs = config_specs(rng)
    for rnd in range(rounds):
        pool = array_pool(rng)
        for spec in specs:
            r = build(spec)
            kind = kind_of(r)
            if kind is None:
                unmodelled.append(spec_name(spec))
                for label, x in pool:
                    fl = []
                    try:
                        with Quiet():
                            out = r(x)
                        if out.dtype != r.output_dtype:
                            fl.append({'check': 'dtype', 'msg': f'output dtype {out.dtype} is not the declared {r.output_dtype}', 'key': ''})
                    except Exception as e:
                        fl.append({'check': 'exception', 'msg': f'raised {type(e).__name__}: {e}', 'key': ''})
                    record(spec, 'no parameters', {}, x, fl)
                continue
            mono_kind = kind_of(r.mono_remap) if kind == 'lut' else kind
            M = int(r.mono_remap.max_output_value) if kind == 'lut' else int(r.max_output_value)
            bit = 8 * r.output_dtype.itemsize
            # global parameters not fixed: only dtype / shape / range are claimed
            for label, x in pool:
                evaluations += 1
                try:
                    with Quiet():
                        out = r(x)
                        mono = r.mono_remap(x) if kind == 'lut' else out
                    if out.dtype != r.output_dtype or (mono.size and int(mono.max()) > M):
                        record(spec, 'unset', {}, x, [{'check': 'range', 'key': '', 'msg': f'with no global parameters: dtype {out.dtype}, max {int(mono.max()) if mono.size else None} (declared {r.output_dtype}, max {M})'}])
                except Exception as e:
                    record(spec, 'unset', {}, x, [{'check': 'exception', 'key': classify_exception(r, kind, x, e),
                                                   'msg': f'with no global parameters: raised {type(e).__name__}: {e}'}])
                counts['unset_range'] = counts.get('unset_range', 0) + 1
            if kind == 'lut':
                idx = [rng.randrange(M + 1) for _ in range(40)] + [0, M]
                rows = ['.'.join(str(int(v)) for v in row) for row in r.lookup_table]
                ask('remap lut ' + ';'.join(rows) + ' ' + ','.join(map(str, idx)), 'lut',
                    ['.'.join(str(int(v)) for v in r.lookup_table[i]) for i in idx], spec, {}, numpy.array(idx), None, 'luttable')
            for plabel, kw in param_pool(mono_kind, rng, n_params):
                arrays = [('threshold', threshold_array(mono_kind, kw, rng))]
                arrays += rng.sample(pool, 12) if quick else pool
                for alabel, x in arrays:
                    evaluations += 1
                    fl = oracle_case(r, kind, kw, x, rng, counts)
                    record(spec, plabel, kw, x, fl)
                    with Quiet():
                        key = numpy.ravel(amp_key(kind, mono_kind, x))
                    fin = key[numpy.isfinite(key)]
                    if numpy.unique(fin).size >= 2:
                        feats.add((mono_kind, kind == 'lut', bit, M, plabel, alabel, x.dtype.name, x.ndim))
                    # correspondence with the Float model (double precision inputs only)
                    eff = effective(r, kind, kw)
                    if eff is None or x.dtype.name not in ('float64', 'complex128') or any(f['check'] in ('exception', 'shape') for f in fl):
                        continue
                    with Quiet():
                        impl = r.mono_remap(x, **kw) if kind == 'lut' else r(x, **kw)
                    line = model_line(eff, key.astype('float64'))
                    ask(line, line[:200], numpy.ravel(impl).astype('int64').tolist(), spec, kw, x, r, mono_kind)
                    if len(samples) < 3 and alabel == 'threshold':
                        samples.append(line[:240])

    # --- 3. global parameters computed from a reader (sarpy/io/complex/utils.py statistics)
    g = numpy.random.default_rng(rng.getrandbits(63))
    for _ in range(3 if quick else 20):
        shape = (rng.randrange(4, 14), rng.randrange(4, 12))
        data = (g.lognormal(rng.uniform(-3, 5), 1.2, shape) * numpy.exp(1j * g.uniform(0, 6.28, shape))).astype('complex64')
        data[rng.randrange(shape[0]), :] = 0
        data[rng.randrange(shape[0]), rng.randrange(shape[1])] = numpy.nan
        data[rng.randrange(shape[0]), rng.randrange(shape[1])] = numpy.inf
        if rng.random() < 0.6:
            # 'huge magnitudes': finite components whose magnitude overflows the sample type (|z| = inf although z is finite)
            data[rng.randrange(shape[0]), rng.randrange(shape[1])] = numpy.complex64(complex(rng.choice([3e38, -3e38, 2.9e38]), rng.choice([3e38, -2.5e38])))
            counts['from_reader_overflowing_magnitude'] = counts.get('from_reader_overflowing_magnitude', 0) + 1
        reader = make_reader(data)
        bounds = rng.choice([None, (0, shape[0], 0, shape[1]), (1, shape[0] - 1, 0, shape[1] - 1)])
        for cls in ('Density', 'Brighter', 'Darker', 'High_Contrast', 'Linear', 'Logarithmic', 'PEDF', 'NRL', 'LUT'):
            bd = rng.choice([8, 16])
            spec = {'cls': cls, 'kw': {'bit_depth': bd}} if cls != 'LUT' else {'cls': 'LUT8bit', 'mono': {'cls': 'NRL', 'kw': {'bit_depth': 8}}, 'table': 'viridis'}
            r = build(spec)
            evaluations += 1
            try:
                with Quiet():
                    r.calculate_global_parameters_from_reader(reader, index=0, pixel_bounds=bounds)
            except Exception as e:
                b = bounds or (0, shape[0], 0, shape[1])
                record(spec, f'from reader bounds={bounds}', {}, data,
                       [{'check': 'exception', 'key': classify_exception(r, kind_of(r), data[b[0]:b[1], b[2]:b[3]], e), 'from_reader': {'bounds': bounds},
                         'msg': f'calculate_global_parameters_from_reader raised {type(e).__name__}: {e}'}])
                continue
            if not r.are_global_parameters_set:
                record(spec, f'from reader bounds={bounds}', {}, data, [{'check': 'globals', 'key': '', 'msg': 'global parameters are not set after calculate_global_parameters_from_reader'}])
                continue
            with Quiet():
                img = reader[:, :]
            fl = oracle_case(r, kind_of(r), {}, img, rng, counts)
            for f in fl:
                f['from_reader'] = {'bounds': bounds}
            record(spec, f'from reader bounds={bounds}', {}, img, fl)
            counts['from_reader'] = counts.get('from_reader', 0) + 1

    # --- 3b. the reader statistics themselves (sarpy/io/complex/utils.py): the extrema and the mean of the finite magnitudes of a region do
    #         not depend on the block size used to scan it, whatever blocks consist of NaN / Inf only
    from sarpy.io.complex.utils import get_data_extrema, get_data_mean_magnitude
    for _ in range(6 if quick else 60):
        shape = (rng.randrange(3, 9), rng.randrange(12, 40))
        data = (g.lognormal(rng.uniform(-2, 4), 1.0, shape) * numpy.exp(1j * g.uniform(0, 6.28, shape))).astype('complex64')
        c0 = rng.choice([0, 0, rng.randrange(1, shape[1] - 6)])
        c1 = min(shape[1] - 1, c0 + rng.randrange(3, 9))
        data[:, c0:c1] = rng.choice([numpy.nan, numpy.inf, complex(numpy.nan, 1.0)])         # a strip without any finite pixel
        data[rng.randrange(shape[0]), rng.randrange(shape[1])] = 0
        reader = make_reader(data)
        bounds = (0, shape[0], 0, shape[1])
        mag = numpy.abs(data.astype('complex128'))
        fin = mag[numpy.isfinite(mag)]
        want = (float(fin.min()), float(fin.max()))
        pos = fin[fin > 0]
        want_mean = float(pos.mean())
        for bs in (8 * shape[0] * 1, 8 * shape[0] * 2, 8 * shape[0] * 5, 10 ** 9):
            evaluations += 1
            counts['reader_stats_block_sizes'] = counts.get('reader_stats_block_sizes', 0) + 1
            try:
                with Quiet():
                    got = get_data_extrema(bounds, reader, 0, bs)
                    gm = get_data_mean_magnitude(bounds, reader, 0, bs)
            except Exception as e:
                record({'cls': 'reader-statistics'}, f'block_size_in_bytes={bs}', {}, data,
                       [{'check': 'exception', 'key': '', 'msg': f'reader statistics raised {type(e).__name__}: {e}', 'stats': {'nan_strip': [c0, c1], 'block_size_in_bytes': bs}}])
                continue
            ok = got[0] is not None and got[1] is not None and abs(float(got[0]) - want[0]) <= 1e-6 * max(1.0, want[0]) and abs(float(got[1]) - want[1]) <= 1e-6 * want[1]
            if not ok or not abs(gm - want_mean) <= 1e-5 * want_mean:
                record({'cls': 'reader-statistics'}, f'block_size_in_bytes={bs}', {}, data,
                       [{'check': 'reader-statistics', 'key': '', 'stats': {'nan_strip': [c0, c1], 'block_size_in_bytes': bs},
                         'msg': f'get_data_extrema / get_data_mean_magnitude over a {shape[0]} x {shape[1]} region with columns {c0}:{c1} non-finite, scanned with block_size_in_bytes={bs}: '
                                f'extrema {got}, mean {gm}; the finite magnitudes have min / max {want}, mean of the positive ones {want_mean}'}])

    # --- 4. correspondence for what is still queued
    flush()
    traces = state['traces']

    nchecks = {k: v for k, v in counts.items()}
    chk.coverage.update({
        'evaluations': evaluations,
        'distinct_nontrivial': len(feats),
        'rule': 'every registered remap (8 bit) + 16 bit twins registered and fetched through get_registered_remap + reduced max_output_value / '
                'dmin / mmult / knee variants + GDM + custom LUTs, x ~%d global parameter settings per remap (fixed adversarial list, then random) '
                'x (one array on the parameter break points + %s arrays of the adversarial pool: ramps, zeros, denormals, 1e30..1e308, NaN/inf sprinkled, '
                'all non-finite, zero rows/columns, negative reals, ties, complex64/float32, empty, single) x (whole, 5 chunkings, pixel by pixel, NaN/inf '
                'replacement); distinct = distinct (transfer kind, LUT?, bit depth, max value, parameter class, array class, dtype, ndim) with >= 2 distinct '
                'finite amplitudes' % (n_params, '12 sampled' if quick else 'all'),
        'samples': samples,
        'oracle_counts': nchecks,
        'correspondence': cstats,
        'remaps': sorted({spec_name(s) for s in specs}),
        'unmodelled_remaps': unmodelled,
        'traces_validated_against_impl': traces,
        'disagreements_checked': len(disagreements) + len([f for f in fails if f.get('found_by')]),
    })
    chk.assumptions += [
        'IEEE-754 rounding in numpy (log10, log2, hypot, division) is not proved: theorems are over R; the double-precision instance of the same '
        'definitions must give the same integers as sarpy except within 1e-9 of a rounding boundary (logged in coverage.correspondence)',
        'the cast of NaN to an unsigned integer is platform behaviour: the model says 0 (x86-64 numpy); the oracle checks the range on the running platform',
        'complex64 / float32 inputs are covered by the direct oracle only (sarpy then computes log10 in single precision)',
        'GDM._cutoff_values (sin, cos, 10**x) is treated as parameter derivation: its result enters the Density transfer model as dmin=30, mmult=c_h/c_l, '
        'data_mean=c_l/0.8; mmult >= 1 is enforced by amplitude_to_density itself',
        'Density(mmult=1) divides by log10(1)=0: excluded from the correspondence, covered by the direct oracle',
        'for Linear on real-valued input the "amplitude" is the signed value itself (the code takes |.| only of complex input)',
        'percentile / mean numerics of sarpy/io/complex/utils.py are not modelled: the oracle only requires that a remap whose global parameters were '
        'computed from a reader is then in range, monotone and chunk independent',
        'chunk independence is claimed once the global parameters are fixed (keyword or instance state); with parameters unset only dtype/range is claimed',
    ]
    unknown = [f for f in fails if not (f.get('key') and chk.known(f['key']))]
    # report: failures with no key first (at most 5 distinct (check, remap) classes), then the smallest example of each unlisted key
    to_report, seen_sig = [], set()
    for f in unknown:
        sig = (f.get('check'), f.get('remap'))
        if not f.get('key') and sig not in seen_sig and len(to_report) < 5:
            seen_sig.add(sig)
            to_report.append(f)
    for k in sorted({f['key'] for f in unknown if f.get('key')}):
        cands = [f for f in unknown if f.get('key') == k]
        to_report.append(min(cands, key=lambda f: len(f.get('array', {}).get('hex', ''))))
    for f in to_report[:5]:
        chk.violation(f"{f.get('remap', 'clip_cast')} [{f.get('params', '')}] {f['msg']}" + (f" (key {f['key']})" if f.get('key') else ''),
                      {'case': f, 'replay_cmd': './check C17 --replay <this file>'}, True)
    if len(unknown) > len(to_report[:5]):
        chk.notes.append(f'{len(unknown)} failing inputs found, {len(to_report[:5])} representative ones reported (one per unlisted key, no-key failures first)')
    if not unknown and (broken or disagreements):
        chk.violation('proof obligation or correspondence no longer checks: ' + '; '.join(broken[:3] + [json.dumps(d, default=str)[:300] for d in disagreements[:2]]),
                      {'broken_obligations': broken, 'disagreements': disagreements[:10]}, False)
    chk.coverage['failing_inputs'] = len(fails)
    chk.coverage['failing_inputs_by_key'] = {k or '(none)': len([f for f in fails if f.get('key', '') == k]) for k in {f.get('key', '') for f in fails}}
    chk.coverage['model_disagreements'] = len(disagreements)
    return chk.finish()


def replay(path):
    import random
    sarpy_guard()
    logging.getLogger('sarpy').setLevel(logging.ERROR)
    from sarpy.visualization import remap as R
    case = json.load(open(path))['case']
    x = dec_arr(case['array'])
    if 'clip_cast' in case:
        M, dt = case['clip_cast']
        with Quiet():
            print('clip_cast', x.tolist(), '->', R.clip_cast(x, dt, 0, M).tolist())
        return 1
    kw = dec_kw(case.get('kw', {}))
    r = build(case['spec'])
    if case.get('from_reader'):
        b = case['from_reader']['bounds']
        with Quiet():
            r.calculate_global_parameters_from_reader(make_reader(x.astype('complex64')), index=0, pixel_bounds=None if b is None else tuple(b))
    print('remap :', case.get('remap'))
    print('params:', kw)
    print('array :', show_arr(x, 40))
    if case.get('params') in ('unset', 'no parameters'):      # only dtype / range is claimed without global parameters
        try:
            with Quiet():
                out = r(x)
            print('output:', out.dtype, numpy.ravel(out).tolist()[:120], 'declared', r.output_dtype)
        except Exception as e:
            print('raised', type(e).__name__, e)
        print('reported:', case.get('msg'))
        return 1
    with Quiet():
        print('whole :', numpy.ravel(r(x, **kw)).tolist()[:120])
        xf = numpy.ravel(x)
        print('alone :', [numpy.ravel(r(xf[i:i + 1], **kw)).tolist() for i in range(min(x.size, 40))])
    fl = oracle_case(r, kind_of(r), kw, x, random.Random(0), {}, pixel_cap=10 ** 9)
    for f in fl:
        print('FAIL', f['check'], f.get('key', ''), f['msg'])
    print('reported:', case.get('msg'))
    return 1 if fl else 0
