"""Translator tie for the CPHD / CRSD header arithmetic (shared by harness/c09.py and harness/c11.py).

`regenerate()` rewrites lean/SarpyModel/Gen/CphdKernels.lean from the current source (translate/gen_cphd.py).
`three_way()` runs the *Python fragments the translator extracted* (exec of the rewritten source, float arithmetic and all), the
regenerated Lean code (`cphd gen`) and the hand-written reference (`cphd layout`, `cphd retry`) on the same random integers: the
fidelity of the translator is not proved, it is measured here on every run.
"""
import os

import numpy

from common import VERIF

GEN_PATH = os.path.join(VERIF, 'lean', 'SarpyModel', 'Gen', 'CphdKernels.lean')


def regenerate():
    import gen_cphd
    return gen_cphd.generate(GEN_PATH)


def fragments(kind):
    import gen_cphd
    if kind == 'CPHD':
        from sarpy.io.phase_history.cphd1_elements import CPHD as m
        fn, hc = m.CPHDType.make_file_header, m.CPHDHeader
    else:
        from sarpy.io.received.crsd1_elements import CRSD as m
        fn, hc = m.CRSDType.make_file_header, m.CRSDHeader
    chain_src, retry_src, info = gen_cphd.extract(fn, hc)
    ns = {'numpy': numpy}
    exec(chain_src, ns)
    exec(retry_src, ns)
    return ns['chain'], ns['retry'], info


def _mag(rng):
    k = rng.choice([0, 1, 2, 3, 6, 10, 16, 24, 32, 44])
    return rng.randrange(0, 2 ** k + 1) if k else rng.randrange(0, 3)


def three_way(kind, rng, drv, count):
    """returns (jobs, problems); problems = translator / fragment failures (strings)"""
    try:
        chain, retry, info = fragments(kind)
    except Exception as e:
        return [], [f'the make_file_header fragments could not be extracted: {type(e).__name__}: {e}']
    fam = kind.lower()
    jobs = []
    for n in range(count):
        xo = rng.choice([1024, 1024, rng.randrange(0, 4096), 64 * rng.randrange(0, 200), _mag(rng)])
        xs, ss, ps, gs = _mag(rng), _mag(rng), _mag(rng), _mag(rng)
        ns = rng.choice([0, 0, 1, 3])
        hb = rng.choice([xo, max(0, xo - 2), max(0, xo - 1), xo - 3 if xo >= 3 else 0, rng.randrange(0, 3000), _mag(rng)])
        if n < 8:       # boundary cases of the alignment
            xo, xs = 0, [0, 61, 62, 63, 64, 125, 126, 127][n]
        try:
            py = list(chain(xo, xs, ns, ss, ps, gs))
            rparams = {'xml_offset': xo, 'xml_size': xs, 'num_support': ns, 'support_size': ss, 'pvp_size': ps, 'signal_size': gs, 'hdr_bytes': hb}
            py.append(retry(*[rparams[p] for p in info['retry_params']]))
        except Exception as e:
            py = f'err {type(e).__name__}'
        jobs.append({'in': (xo, xs, ns, ss, ps, gs, hb), 'py': py,
                     'gen': drv.ask(f'cphd gen {fam} {xo} {xs} {ns} {ss} {ps} {gs} {hb}'),
                     'spec': drv.ask(f'cphd layout {xo} {xs} {ss if ns > 0 else "N"} {ps} {gs}'),
                     'retry': drv.ask(f'cphd retry {xo} {hb}')})
    return jobs, []


def settle_three_way(kind, jobs, ans):
    out = []
    tok = lambda v: 'N' if v is None else str(int(v))
    for j in jobs:
        g = ans[j['gen']].split()
        sp = ans[j['spec']].split()       # xmlOff xmlSize suppOff suppSize pvpOff pvpSize sigOff sigSize fileEnd
        spec = [sp[1], sp[0], sp[3], sp[2], sp[5], sp[4], sp[7], sp[6], ans[j['retry']].strip()]
        py = j['py'] if isinstance(j['py'], str) else [tok(v) for v in j['py']]
        if not (py == g == spec):
            out.append({'what': f'{kind} make_file_header kernels: Python fragment / regenerated Lean / reference differ on (xml_offset, xml_size, num_support, '
                                f'support_size, pvp_size, signal_size, hdr_bytes) = {j["in"]}', 'python': py, 'gen': g, 'spec': spec})
    return out
