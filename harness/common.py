"""Shared machinery for every property check: regeneration, lake build, axiom audit,
Lean model driver (line protocol), evidence writing, violation reporting, known findings."""
import hashlib
import json
import os
import random
import re
import subprocess
import sys
import time

HERE = os.path.dirname(os.path.abspath(__file__))
VERIF = os.path.dirname(HERE)
LEAN = os.path.join(VERIF, 'lean')
REPO = os.environ.get('SARPY_REPO', '/repo')
REPLAY_DIR = os.path.join(VERIF, 'replay')
ALLOWED_AXIOMS = {'propext', 'Classical.choice', 'Quot.sound'}
FORBIDDEN = re.compile(r'\bsorry\b|\badmit\b|^axiom\s|native_decide|bv_decide|implemented_by|\bunsafe\s|maxHeartbeats\s+0\b', re.M)

TRUSTED_BASE_COMMON = [
    'Lean 4.33.0 kernel; axioms allowed in property theorems: propext, Classical.choice, Quot.sound (audited per run by Lean.collectAxioms)',
    'Mathlib v4.33.0 modules imported one at a time in proof files only',
    'no sorry/admit/user axioms/native_decide/bv_decide/implemented_by/unsafe (grep + axiom audit each run)',
]


class Infra(Exception):
    """infrastructure failure: exit 2, never a violation"""


def sarpy_guard():
    import sarpy
    p = os.path.realpath(sarpy.__file__)
    if not p.startswith(os.path.realpath(REPO) + os.sep):
        raise Infra(f'sarpy imported from {p}, expected under {REPO}')


def seed_from_env():
    try:
        return int(os.environ.get('VERIF_SEED', '0'))
    except ValueError:
        return 0


def sh(cmd, cwd=None, timeout=1800, input=None, env=None):
    e = dict(os.environ)
    if env:
        e.update(env)
    p = subprocess.run(cmd, cwd=cwd, capture_output=True, text=True, timeout=timeout, input=input, env=e)
    return p.returncode, p.stdout, p.stderr


def strip_comments(text):
    # remove /- ... -/ (nested not handled beyond one level) and -- comments
    text = re.sub(r'/-.*?-/', '', text, flags=re.S)
    text = re.sub(r'--[^\n]*', '', text)
    return text


def grep_forbidden(paths):
    hits = []
    for p in paths:
        src = strip_comments(open(p).read())
        for m in FORBIDDEN.finditer(src):
            hits.append((os.path.relpath(p, VERIF), m.group(0).strip()))
    return hits


def lean_files():
    out = []
    for root, _, files in os.walk(os.path.join(LEAN, 'SarpyModel')):
        for f in files:
            if f.endswith('.lean'):
                out.append(os.path.join(root, f))
    out.append(os.path.join(LEAN, 'Main.lean'))
    return [p for p in out if os.path.exists(p)]


def lake_build(targets, timeout=3000):
    """build the given module targets; returns (ok, failed_modules, log).  The combined driver library is never an obligation of a
    property: each run interprets an entry file that imports only the driver modules it addresses (Driver.run)"""
    targets = [t for t in targets if t != 'SarpyModel.Drivers'] or ['SarpyModel.Spec.PyPrelude']
    rc, out, err = sh(['lake', 'build'] + list(targets), cwd=LEAN, timeout=timeout)
    log = out + err
    failed = re.findall(r'^- (SarpyModel[\w.]*)', log, flags=re.M)
    errors = re.findall(r'^error: (SarpyModel/[\w/]+\.lean):(\d+):(\d+): (.*)$', log, flags=re.M)
    return rc == 0, failed, errors, log


AUDIT_TMPL = '''import {module}
import Lean
open Lean Elab Command
run_cmd do
  let env ← getEnv
  let pre : Name := `{ns}
  let mut rows : Array String := #[]
  for (n, ci) in env.constants.toList do
    if pre.isPrefixOf n && !n.isInternalDetail then
      match ci with
      | .thmInfo _ =>
        let ax ← collectAxioms n
        rows := rows.push (toString n ++ " :: " ++ " ".intercalate (ax.toList.map toString))
      | _ => pure ()
  for r in rows.qsort (· < ·) do
    IO.println ("AUDIT " ++ r)
'''


def audit(module, ns, timeout=900):
    """returns {theorem name: [axioms]} for every theorem under namespace ns of the built module"""
    d = os.path.join(LEAN, '.lake', 'audit')
    os.makedirs(d, exist_ok=True)
    path = os.path.join(d, 'Audit_' + ns.replace('.', '_') + '.lean')
    with open(path, 'w') as f:
        f.write(AUDIT_TMPL.format(module=module, ns=ns))
    rc, out, err = sh(['lake', 'env', 'lean', path], cwd=LEAN, timeout=timeout)
    if rc != 0:
        raise Infra('audit failed: ' + (out + err)[-2000:])
    res = {}
    for line in out.splitlines():
        if line.startswith('AUDIT '):
            name, _, ax = line[6:].partition(' :: ')
            res[name.strip()] = ax.split()
    return res


def driver_table():
    """{request keyword: (step function, Lean module)} read from lean/SarpyModel/Drivers.lean and the Drivers/*.lean files"""
    text = open(os.path.join(LEAN, 'SarpyModel', 'Drivers.lean')).read()
    steps = dict(re.findall(r'\|\s*"(\w+)"\s*::\s*rest\s*=>\s*\((\w+)\s+rest\)', text))
    where = {}
    ddir = os.path.join(LEAN, 'SarpyModel', 'Drivers')
    for f in sorted(os.listdir(ddir)):
        if f.endswith('.lean'):
            for fn in re.findall(r'^def\s+(\w+Step)\b', open(os.path.join(ddir, f)).read(), flags=re.M):
                where[fn] = 'SarpyModel.Drivers.' + f[:-5]
    return {k: (fn, where[fn]) for k, fn in steps.items() if fn in where}


class Driver:
    """line protocol to the Lean model driver.  Each run interprets a generated entry file that imports only the driver modules
    the queued requests address (first word of each line), so that a regenerated kernel another property depends on, which no
    longer translates or builds, cannot take this property's model down with it."""

    def __init__(self):
        self.lines = []

    def ask(self, line):
        self.lines.append(line)
        return len(self.lines) - 1

    def run(self, timeout=1800):
        if not self.lines:
            return []
        table = driver_table()
        words = sorted({l.split(' ', 1)[0] for l in self.lines})
        unknown = [w for w in words if w not in table]
        if unknown:
            raise Infra(f'no model driver for request keyword(s) {unknown}')
        mods = sorted({table[w][1] for w in words})
        ok, failed, errors, log = lake_build(mods)
        if not ok:
            raise Infra('model driver does not build: ' + '; '.join(f'{f}:{l}: {m}' for f, l, c, m in errors[:5]) + log[-600:])
        d = os.path.join(LEAN, '.lake', 'audit')
        os.makedirs(d, exist_ok=True)
        main = os.path.join(d, 'Main_' + '_'.join(words) + '.lean')
        src = ''.join(f'import {m}\n' for m in mods) + 'open Sarpy.Drivers in\ndef stepLine (line : String) : String :=\n' \
            '  let toks := (line.trimAscii.toString.splitOn " ").filter (· ≠ "")\n  match toks with\n' + \
            ''.join(f'  | "{w}" :: rest => ({table[w][0]} rest).getD "bad-op"\n' for w in words) + '  | _ => "bad-op"\n' \
            'partial def loopLines (h : IO.FS.Stream) : IO Unit := do\n  let line ← h.getLine\n  if line.isEmpty then return ()\n' \
            '  IO.println (stepLine line)\n  loopLines h\ndef main : IO Unit := do loopLines (← IO.getStdin)\n'
        with open(main, 'w') as f:
            f.write(src)
        rc, out, err = sh(['lake', 'env', 'lean', '--run', main], cwd=LEAN, timeout=timeout,
                          input='\n'.join(self.lines) + '\n')
        if rc != 0:
            raise Infra('model driver failed: ' + err[-2000:])
        got = out.split('\n')
        if got and got[-1] == '':
            got = got[:-1]
        if len(got) != len(self.lines):
            raise Infra(f'model driver answered {len(got)} lines for {len(self.lines)} questions: {err[-500:]}')
        return got


def load_known_findings():
    p = os.path.join(VERIF, 'known_findings.json')
    if not os.path.exists(p):
        return {'open': [], 'fixed': []}
    return json.load(open(p))


class Check:
    """one run of one property check"""

    def __init__(self, pid, tier, level='proof'):
        self.pid = pid
        self.tier = tier
        self.seed = seed_from_env()
        self.rng = random.Random(self.seed * 1000003 + int(hashlib.sha256(pid.encode()).hexdigest()[:8], 16))
        self.t0 = time.time()
        self.level = level
        self.coverage = {}
        self.assumptions = []
        self.violations = []      # (what, replay_path, found_input: bool)
        self.known_hits = []
        self.notes = []
        self.kf = load_known_findings()
        import glob
        for old in glob.glob(os.path.join(REPLAY_DIR, pid, f'{pid}-{tier}-{self.seed}-*.json')):
            try:
                os.remove(old)
            except OSError:
                pass

    # ---- proof side
    def prove(self, targets, module, ns, required, gen_info=None, extra=()):
        # extra: [(module, namespace, [required theorem names])] audited in addition (bridge files shared by several properties)
        """build + audit. Returns list of broken obligations (theorem names or modules)."""
        targets = [t for t in targets if t != 'SarpyModel.Drivers']    # drivers are built per request set by Driver.run
        ok, failed, errors, log = lake_build(targets)
        broken = []
        thms = {}
        if not ok:
            broken = [f'{m} (lake build failed)' for m in failed] or ['lake build failed']
            self.coverage['build_errors'] = [f'{f}:{l}:{c}: {m}' for f, l, c, m in errors[:20]]
            # try to audit whatever does build is not possible for the failed module; obligations = required
            self.coverage['obligations'] = len(required)
            self.coverage['discharged'] = 0
        else:
            thms = audit(module, ns)
            missing = [r for r in required if f'{ns}.{r}' not in thms]
            for (m2, ns2, req2) in extra:
                t2 = audit(m2, ns2)
                thms.update({n: a for n, a in t2.items() if n[len(ns2) + 1:] in req2})
                missing += [f'{ns2}.{r}' for r in req2 if f'{ns2}.{r}' not in t2]
            bad_ax = {n: a for n, a in thms.items() if set(a) - ALLOWED_AXIOMS}
            hits = grep_forbidden(lean_files())
            for n, a in bad_ax.items():
                broken.append(f'{n} depends on non-standard axioms {sorted(set(a) - ALLOWED_AXIOMS)}')
            for r in missing:
                broken.append((r if r.startswith('Sarpy.') else f'{ns}.{r}') + ' (required theorem missing)')
            for f, h in hits:
                broken.append(f'forbidden construct `{h}` in {f}')
            self.coverage['obligations'] = len(thms) + len(missing)
            self.coverage['discharged'] = len(thms) - len(bad_ax)
            self.coverage['theorems'] = sorted((n[len(ns) + 1:] if n.startswith(ns + '.') else n) for n in thms)
            self.coverage['axioms_used'] = sorted({a for v in thms.values() for a in v})
        self.coverage['checker_cmd'] = f'cd lean && lake build {" ".join(targets)} && lake env lean .lake/audit/Audit_{ns.replace(".", "_")}.lean'
        if ok and self.tier == 'thorough':
            # independent re-check of the compiled proof modules by the toolchain's leanchecker (replays every declaration in the kernel)
            mods = [t for t in targets if not t.startswith('SarpyModel.Drivers')]
            rc, out, err = sh(['lake', 'env', 'leanchecker'] + mods, cwd=LEAN, timeout=3000)
            self.coverage['leanchecker'] = {'modules': mods, 'ok': rc == 0}
            self.coverage['checker_cmd'] += ' && lake env leanchecker ' + ' '.join(mods)
            if rc != 0:
                broken.append('leanchecker rejects ' + ' '.join(mods) + ': ' + (out + err)[-400:])
        if gen_info is not None:
            self.coverage['translator'] = gen_info
        return broken

    # ---- reporting
    def violation(self, what, replay, found_input=True):
        os.makedirs(os.path.join(REPLAY_DIR, self.pid), exist_ok=True)
        path = os.path.join(REPLAY_DIR, self.pid, f'{self.pid}-{self.tier}-{self.seed}-{len(self.violations)}.json')
        replay = dict(replay)
        replay.setdefault('property', self.pid)
        replay.setdefault('what', what)
        replay['failing_input_found'] = found_input
        with open(path, 'w') as f:
            json.dump(replay, f, indent=1, default=str)
        self.violations.append((what, path, found_input))
        return path

    def known(self, key):
        """is a failing case covered by an open known finding? findings are keyed by exact 'key' strings."""
        for f in self.kf.get('open', []):
            if f.get('property') == self.pid and f.get('key') == key:
                if key not in self.known_hits:
                    self.known_hits.append(key)
                return f
        return None

    def finish(self):
        wall = time.time() - self.t0
        cov = dict(self.coverage)
        cov.setdefault('trusted_base', TRUSTED_BASE_COMMON)
        ev = {
            'property_id': self.pid, 'tier': self.tier, 'seed': self.seed, 'level': self.level,
            'coverage': cov, 'assumptions': self.assumptions, 'wall_s': round(wall, 2),
            'violations': len(self.violations),
        }
        if self.notes:
            ev['coverage']['notes'] = self.notes
        os.makedirs(os.path.join(VERIF, 'evidence'), exist_ok=True)
        with open(os.path.join(VERIF, 'evidence', f'{self.pid}.json'), 'w') as f:
            json.dump(ev, f, indent=1, default=str)
        for f in self.kf.get('open', []):
            if f.get('property') == self.pid:
                seen = '' if f.get('key') in self.known_hits else ' [listed; its trigger was not drawn in this run]'
                print(f'KNOWN-FINDING: property={self.pid} {f.get("what", f.get("key"))}{seen}')
        for what, path, found in self.violations:
            tail = '' if found else ' no-failing-input-found'
            print(f'VIOLATION property={self.pid} replay={path}{tail}')
        print(f'[{self.pid}] tier={self.tier} seed={self.seed} wall={wall:.1f}s obligations={cov.get("obligations")} '
              f'discharged={cov.get("discharged")} evaluations={cov.get("evaluations")} violations={len(self.violations)}')
        return 1 if self.violations else 0
