"""C08 — complex pixel encodings decode per the standards and invert where defined.

proof side : lean/SarpyModel/Props/C08.lean (pair index algebra; magnitude/phase fixed points over the reals for any bit depth;
             amplitude-table inverse at exact table values; amplitude scale factor)
tie        : correspondence of the Float-instantiated model (same definitions) with ComplexFormatFunction / AmpLookupFunction on
             sampled and boundary (m, p) pairs; pair extraction through the driver on integer lists
search     : exhaustive 2^16 byte pairs on the implementation for uint8 MP / PM and for the amplitude table with several monotone
             tables; dtype x order x band-axis x collapsed matrix against an independent numpy statement; AmpSF sub-region reads
"""
import json
import struct

import numpy

from common import Check, Driver, Infra, sarpy_guard

REQUIRED = ['deinterleave_interleave', 'interleave_deinterleave', 'deinterleave_length', 'pick_involutive', 'decode_magnitude',
            'decodeMP_zero', 'arg_polar', 'encodeMP_decodeMP', 'countBelow_sorted', 'nearestIndex_exact', 'ampSF_inverse', 'ampSF_roundtrip']


def fb(x):
    return str(struct.unpack('<Q', struct.pack('<d', float(x)))[0])


def bf(s):
    return struct.unpack('<d', struct.pack('<Q', int(s)))[0]


def all_pairs_u8():
    m, p = numpy.meshgrid(numpy.arange(256, dtype='uint8'), numpy.arange(256, dtype='uint8'), indexing='ij')
    return m.reshape(-1), p.reshape(-1)


def exhaustive_mp(fails, stats):
    from sarpy.io.general.format_function import ComplexFormatFunction
    m, p = all_pairs_u8()
    for order in ('MP', 'PM'):
        raw = numpy.empty((m.size, 2), dtype='uint8')
        raw[:, 0], raw[:, 1] = (m, p) if order == 'MP' else (p, m)
        for collapsed in (True, False):
            ff = ComplexFormatFunction('uint8', order, band_dimension=1)
            ff.set_raw_shape((m.size, 2))
            ff.set_formatted_shape((m.size,) if collapsed else (m.size, 1))
            sub = (slice(0, m.size, 1), slice(0, 2, 1))
            z = ff(raw, sub, squeeze=False)
            stats['exhaustive_pairs'] = stats.get('exhaustive_pairs', 0) + m.size
            want = m.astype('float64') * numpy.exp(2j * numpy.pi * p.astype('float64') / 256.0)
            if z.dtype != numpy.dtype('complex64') or not numpy.allclose(z.reshape(-1), want, rtol=2e-6, atol=2e-5):
                bad = int(numpy.argmax(numpy.abs(z.reshape(-1) - want)))
                fails.append({'kind': 'mp-decode', 'msg': f'{order} uint8 (collapsed={collapsed}): decode of (m={m[bad]}, p={p[bad]}) is {z.reshape(-1)[bad]!r}, standard says {want[bad]!r}'})
                continue
            fsub = (slice(0, m.size, 1),) if collapsed else (slice(0, m.size, 1), slice(0, 1, 1))
            back = ff.inverse(z, fsub)
            bm, bp = (back[:, 0], back[:, 1]) if order == 'MP' else (back[:, 1], back[:, 0])
            nz = m != 0
            badm = numpy.nonzero(nz & ((bm != m) | (bp != p)))[0]
            if badm.size:
                k = int(badm[0])
                fails.append({'kind': 'mp-fixed-point', 'msg': f'{order} uint8 (collapsed={collapsed}): stored sample (m={m[k]}, p={p[k]}) decodes and re-encodes to (m={bm[k]}, p={bp[k]}); {badm.size} of 65280 non-zero-magnitude samples are not fixed points'})
            z0 = numpy.nonzero(~nz & (bm != 0))[0]
            if z0.size:
                fails.append({'kind': 'mp-zero', 'msg': f'{order} uint8: zero magnitude re-encodes to magnitude {bm[z0[0]]}'})
            k00 = int(numpy.nonzero((m == 0) & (p == 0))[0][0])
            if bm[k00] != 0 or bp[k00] != 0:
                fails.append({'kind': 'mp-zero', 'msg': f'{order} uint8: the sample (0, 0) re-encodes to ({bm[k00]}, {bp[k00]})'})
            lost = int(numpy.count_nonzero(~nz & (p != 0)))
            stats['zero_magnitude_phase_lost'] = lost   # inherent (Props.C08.decodeMP_zero): 255 samples per order, not a defect


def exhaustive_table(rng, fails, stats, ntables):
    from sarpy.io.complex.sicd import AmpLookupFunction
    m, p = all_pairs_u8()
    tables = [numpy.arange(256, dtype='float64'), numpy.linspace(0.5, 400, 256) ** 1.5, numpy.sqrt(numpy.arange(1, 257, dtype='float64'))]
    for _ in range(ntables):
        t = numpy.cumsum(numpy.array([rng.uniform(0.01, 3.0) for _ in range(256)]))
        tables.append(t)
    for ti, table in enumerate(tables):
        t32 = table.astype('float32')
        if not numpy.all(numpy.diff(t32) > 0):
            continue
        for collapsed in (True, False):
            ff = AmpLookupFunction('uint8', t32.astype('float64'), band_dimension=1)
            ff.set_raw_shape((m.size, 2))
            ff.set_formatted_shape((m.size,) if collapsed else (m.size, 1))
            raw = numpy.stack([m, p], axis=1)
            z = ff(raw, (slice(0, m.size, 1), slice(0, 2, 1)), squeeze=False)
            stats['exhaustive_pairs'] = stats.get('exhaustive_pairs', 0) + m.size
            want = t32[m].astype('float64') * numpy.exp(2j * numpy.pi * p.astype('float64') / 256.0)
            if not numpy.allclose(z.reshape(-1), want, rtol=2e-6, atol=1e-6 * float(t32[-1])):
                bad = int(numpy.argmax(numpy.abs(z.reshape(-1) - want)))
                fails.append({'kind': 'table-decode', 'msg': f'amplitude table {ti}: decode of (m={m[bad]}, p={p[bad]}) is {z.reshape(-1)[bad]!r}, standard says {want[bad]!r}'})
                continue
            fsub = (slice(0, m.size, 1),) if collapsed else (slice(0, m.size, 1), slice(0, 1, 1))
            try:
                back = ff.inverse(z, fsub)
            except Exception as e:
                fails.append({'kind': 'table-inverse', 'msg': f'amplitude table {ti} (collapsed={collapsed}): inverse raised {type(e).__name__}: {e}'})
                continue
            nz = t32[m] != 0
            bad = numpy.nonzero(nz & ((back[:, 0] != m) | (back[:, 1] != p)))[0]
            if bad.size:
                k = int(bad[0])
                fails.append({'kind': 'table-fixed-point', 'msg': f'amplitude table {ti} (collapsed={collapsed}): stored (m={m[k]}, p={p[k]}) re-encodes to (m={back[k, 0]}, p={back[k, 1]}); {bad.size} samples are not fixed points'})


def matrix(rng, fails, stats, n):
    """dtype x order x band axis x collapsed, against an independent numpy statement"""
    from sarpy.io.general.format_function import ComplexFormatFunction
    seen = set()
    for _ in range(n):
        order = rng.choice(['IQ', 'QI', 'MP', 'PM'])
        dt = rng.choice(['int8', 'int16', 'int32', 'float16', 'float32', 'float64'] if order in ('IQ', 'QI') else ['uint8', 'uint16', 'uint32', 'float32', 'float64'])
        nd = rng.choice([2, 3])
        bd = rng.randrange(nd)
        collapsed = rng.random() < 0.5
        shape = [rng.randint(1, 5) for _ in range(nd)]
        shape[bd] = 2 if collapsed else 2 * rng.randint(1, 3)
        seen.add((order, dt, bd, nd, collapsed))
        info = numpy.iinfo(dt) if numpy.dtype(dt).kind in 'iu' else None
        size = int(numpy.prod(shape))
        if info is not None:
            lim_lo, lim_hi = max(info.min, -2 ** 23), min(info.max, 2 ** 23)
            vals = numpy.array([rng.choice([lim_lo, lim_hi, 0, 1, rng.randint(lim_lo, lim_hi)]) for _ in range(size)], dtype=dt)
        else:
            vals = numpy.array([rng.choice([0.0, 1.0, -1.5, rng.uniform(-100, 100)]) for _ in range(size)]).astype(dt)
            if order in ('MP', 'PM'):
                vals = numpy.abs(vals)
        # files hand the format function byte-swapped dtypes (NITF is big-endian): both byte orders of every multi-byte type
        bo = rng.choice(['<', '>']) if numpy.dtype(dt).itemsize > 1 else '|'
        dts = bo + numpy.dtype(dt).str[1:]
        raw = vals.reshape(shape).astype(dts)
        seen.add(('byteorder', dt, bo, order in ('MP', 'PM')))
        ff = ComplexFormatFunction(dts, order, band_dimension=bd)
        ff.set_raw_shape(tuple(shape))
        fshape = [s for i, s in enumerate(shape) if not (collapsed and i == bd)]
        if not collapsed:
            fshape[bd] = shape[bd] // 2
        ff.set_formatted_shape(tuple(fshape))
        case = {'order': order, 'dtype': dts, 'shape': shape, 'band_dim': bd, 'collapsed': collapsed}
        stats['matrix_cases'] = stats.get('matrix_cases', 0) + 1
        try:
            z = ff(raw, tuple(slice(0, s, 1) for s in shape), squeeze=False)
        except Exception as e:
            fails.append({'kind': 'matrix', 'msg': f'decode raised {type(e).__name__}: {e}', 'case': case})
            continue
        a = numpy.moveaxis(raw, bd, -1).astype('float64')
        first, second = a[..., 0::2], a[..., 1::2]
        if order == 'IQ':
            want = first + 1j * second
        elif order == 'QI':
            want = second + 1j * first
        else:
            mag, ph = (first, second) if order == 'MP' else (second, first)
            if numpy.dtype(dt).kind == 'u':
                ph = ph * 2 * numpy.pi / (1 << (8 * numpy.dtype(dt).itemsize))
            want = mag * numpy.exp(1j * ph)
        want = want[..., 0] if collapsed else numpy.moveaxis(want, -1, bd)
        scale = max(1.0, float(numpy.max(numpy.abs(want)))) if want.size else 1.0
        if tuple(z.shape) != tuple(want.shape) or not numpy.allclose(z, want.astype('complex64'), rtol=3e-6, atol=3e-6 * scale):
            fails.append({'kind': 'matrix', 'msg': f'decode differs from the standard definition for order {order}, dtype {dts}, band axis {bd}, collapsed={collapsed}', 'case': case})
            continue
        if order in ('IQ', 'QI') or numpy.dtype(dt).kind == 'u':
            try:
                back = ff.inverse(z, tuple(slice(0, s, 1) for s in z.shape))
            except Exception as e:
                fails.append({'kind': 'matrix', 'msg': f'encode raised {type(e).__name__}: {e}', 'case': case})
                continue
            ok = numpy.array_equal(back, raw) if order in ('IQ', 'QI') else None
            if ok is False and numpy.dtype(dt).kind == 'f' and dt == 'float64':
                ok = numpy.allclose(back, raw, rtol=1e-6)   # complex64 carries float32 precision
            if ok is False:
                fails.append({'kind': 'matrix', 'msg': f'encode(decode(x)) != x for order {order}, dtype {dt}, band axis {bd}, collapsed={collapsed}', 'case': case})
    return seen


def ampsf(rng, fails, stats, n):
    from sarpy.io.phase_history.cphd import AmpScalingFunction
    for _ in range(n):
        dt = rng.choice(['int8', 'int16', 'float32'])
        nv, ns = rng.randint(2, 9), rng.randint(1, 6)
        sf = numpy.array([2.0 ** (-rng.randint(0, 6)) * rng.choice([1.0, 1.5, 3.0]) for _ in range(nv)], dtype='float32')
        if numpy.dtype(dt).kind == 'i':
            raw = numpy.array([rng.randint(-100, 100) for _ in range(nv * ns * 2)], dtype=dt).reshape((nv, ns, 2))
        else:
            raw = numpy.array([rng.uniform(-10, 10) for _ in range(nv * ns * 2)], dtype=dt).reshape((nv, ns, 2))
        ff = AmpScalingFunction(dt, amplitude_scaling=sf)
        ff.set_raw_shape((nv, ns, 2))
        ff.set_formatted_shape((nv, ns))
        want = (sf[:, None].astype('float64') * (raw[..., 0].astype('float64') + 1j * raw[..., 1].astype('float64')))
        stats['ampsf_cases'] = stats.get('ampsf_cases', 0) + 1
        for _k in range(3):
            a = rng.randrange(nv)
            b = rng.randint(a + 1, nv)
            st = rng.choice([1, 1, 2])
            sub = (slice(a, b, st), slice(0, ns, 1), slice(0, 2, 1))
            case = {'dtype': dt, 'nv': nv, 'ns': ns, 'sub': [a, b, st]}
            z = ff(raw[sub], sub, squeeze=False)
            w = want[a:b:st]
            if z.shape != w.shape or not numpy.allclose(z, w, rtol=2e-6, atol=1e-6):
                fails.append({'kind': 'ampsf', 'msg': f'AmpSF decode of vectors [{a}:{b}:{st}] differs from AmpSF[v]*(I + jQ)', 'case': case})
                break
            back = ff.inverse(z, (slice(a, b, st), slice(0, ns, 1)))
            if numpy.dtype(dt).kind == 'i' and not numpy.array_equal(back, raw[sub]):
                fails.append({'kind': 'ampsf', 'msg': f'AmpSF encode(decode(x)) != x for integer samples, vectors [{a}:{b}:{st}]', 'case': case})
                break


def run(tier):
    sarpy_guard()
    from sarpy.io.general.format_function import ComplexFormatFunction
    chk = Check('C08', tier)
    rng = chk.rng
    broken = chk.prove(['SarpyModel.Props.C08', 'SarpyModel.Drivers'], 'SarpyModel.Props.C08', 'Sarpy.Props.C08', REQUIRED)
    fails, stats, disagreements = [], {}, []
    exhaustive_mp(fails, stats)
    exhaustive_table(rng, fails, stats, 2 if tier == 'quick' else 12)
    seen = matrix(rng, fails, stats, 300 if tier == 'quick' else 5000)
    ampsf(rng, fails, stats, 60 if tier == 'quick' else 1000)
    # model correspondence at Float
    drv = Driver()
    jobs = []
    for bits, dt in ((8, 'uint8'), (16, 'uint16')):
        top = (1 << bits)
        samples = [(m, p) for m in (1, 2, top // 2, top - 1) for p in (0, 1, top // 4, top // 2, top // 2 + 1, top - 1)]
        samples += [(rng.randrange(1, top), rng.randrange(top)) for _ in range(200 if tier == 'quick' else 3000)]
        ff = ComplexFormatFunction(dt, 'MP', band_dimension=1)
        ff.set_raw_shape((len(samples), 2))
        ff.set_formatted_shape((len(samples),))
        raw = numpy.array(samples, dtype=dt)
        z = ff(raw, (slice(0, len(samples), 1), slice(0, 2, 1)), squeeze=False)
        for (m, p), zz in zip(samples, z):
            jobs.append((bits, m, p, complex(zz), drv.ask(f'codec decmp {bits} {fb(m)} {fb(p)}'), drv.ask(f'codec encmp {bits} {fb(zz.real)} {fb(zz.imag)}')))
    tab = numpy.cumsum(numpy.array([rng.uniform(0.01, 3.0) for _ in range(256)])).astype('float32')
    tjobs = [(k, drv.ask('codec nearest ' + ','.join(fb(t) for t in tab) + ' ' + fb(tab[k]))) for k in range(0, 256, 5)]
    pjobs = []
    for _ in range(20):
        l = [rng.randint(-9, 9) for _ in range(2 * rng.randint(0, 5))]
        if l:
            pjobs.append((l, drv.ask('codec pairs ' + ','.join(map(str, l)))))
    try:
        ans = drv.run()
        for bits, m, p, zz, i1, i2 in jobs:
            stats['model_cases'] = stats.get('model_cases', 0) + 1
            x, y = (bf(t) for t in ans[i1].split())
            if abs(complex(x, y) - zz) > 3e-6 * max(1.0, abs(zz)):
                disagreements.append({'bits': bits, 'm': m, 'p': p, 'model': [x, y], 'impl': [zz.real, zz.imag]})
            mag, ph = (bf(t) for t in ans[i2].split())
            if round(mag) != m or round(ph) % (1 << bits) != p:
                disagreements.append({'bits': bits, 'm': m, 'p': p, 'model_encode': [mag, ph]})
        for k, i in tjobs:
            stats['model_cases'] = stats.get('model_cases', 0) + 1
            if int(ans[i]) != k:
                disagreements.append({'table_index': k, 'model': ans[i]})
        for l, i in pjobs:
            stats['model_cases'] = stats.get('model_cases', 0) + 1
            pairs, back = ans[i].split(' ')
            want = ';'.join(f'{l[j]},{l[j + 1]}' for j in range(0, len(l), 2))
            if pairs != want or back != ','.join(map(str, l)):
                disagreements.append({'list': l, 'model': ans[i]})
    except Infra as e:
        broken.append('model driver does not build/run: ' + str(e)[:300])
    chk.coverage.update({
        'evaluations': stats.get('exhaustive_pairs', 0) + stats.get('matrix_cases', 0) + stats.get('ampsf_cases', 0) + stats.get('model_cases', 0),
        'distinct_nontrivial': len(seen) + 8,
        'exhaustive': True,
        'rule': 'exhaustive: all 65536 (magnitude, phase) byte pairs x {MP, PM} x {collapsed, kept band axis} and x 5+ strictly increasing amplitude tables (linear, convex, concave, random); '
                'sampled: dtype x order x band-axis position x collapsed matrix (distinct tuples counted), AmpSF vectors with offset/strided sub-regions, 16-bit MP pairs incl. boundary phases; '
                'model correspondence at Float on boundary and random pairs',
        'samples': [{'order': 'PM', 'dtype': 'uint8', 'pair': [200, 17]}, {'table': 'cumsum(U(0.01,3))', 'pair': [255, 128]}],
        'stats': stats, 'traces_validated_against_impl': stats.get('model_cases', 0), 'disagreements_checked': len(disagreements)})
    chk.assumptions += [
        'IEEE rounding of cos/sin/atan2 in numpy is not proved: covered exhaustively for 8-bit pairs and by sampling for 16-bit',
        'zero magnitude with non-zero phase cannot be a fixed point (Props.C08.decodeMP_zero): counted, inherent in the format',
        'int32/uint32 samples are exercised up to 2^23 only: complex64 cannot carry more (stated hypothesis, not checked beyond)',
        'Float instance of the model uses Lean core Float.cos/sin/atan2/sqrt (C library)']
    unknown = [f for f in fails if not (f.get('key') and chk.known(f['key']))]
    for f in unknown[:5]:
        chk.violation(f['msg'], {'case': f, 'replay_cmd': './check C08 --replay <this file>'}, True)
    if len(unknown) > 5:
        chk.notes.append(f'{len(unknown)} failing inputs found, first 5 reported')
    if not unknown and (broken or disagreements):
        chk.violation('proof obligation or correspondence no longer checks: ' + '; '.join(broken[:3] + [json.dumps(d, default=str)[:300] for d in disagreements[:2]]),
                      {'broken_obligations': broken, 'disagreements': disagreements[:10]}, False)
    chk.coverage['failing_inputs'] = len(fails)
    return chk.finish()


def replay(path):
    print(json.dumps(json.load(open(path))['case'])[:2000])
    return 1
