"""C08 — complex pixel encodings decode per the standards and invert where defined.

proof side : lean/SarpyModel/Props/C08.lean (pair index algebra; magnitude/phase fixed points over the reals for any bit depth;
             amplitude-table inverse at exact table values; amplitude scale factor)
tie        : correspondence of the Float-instantiated model (same definitions) with ComplexFormatFunction / AmpLookupFunction on
             sampled and boundary (m, p) pairs; pair extraction through the driver on integer lists
search     : exhaustive 2^16 byte pairs on the implementation for uint8 MP / PM and for the amplitude table with several monotone
             tables; dtype x order x band-axis x collapsed matrix against an independent numpy statement; AmpSF sub-region reads
quantisation (arbitrary in-range values, Props.C08 encQ_* / nearestR_* / ampSF_quant_* / truncZ_*):
  proof    : |M - |z|| <= 1/2, 0 <= P < 2^b incl. the wrap point, phase error <= pi/2^b mod 2 pi, decode error <= 1/2 + |z| pi/2^b
             (and the chord form), idempotence, nearest table entry for every real magnitude and every non-decreasing table, ties lower,
             AmpSF |sf n - v| <= |sf|/2, truncation < 1 step; all for ANY nearest-integer rule (instantiated at half-even and round)
  tie      : the same Spec definitions run at Float (driver ops encq / ampq / trunc / nearest) against the implementation on off-grid
             inputs; a difference counts only when the model's un-rounded value is outside a tie band of a half-integer
             (Props.C08 IsNearest.stable is the reason a band suffices)
  oracle   : the bounds themselves, evaluated in float64 numpy on the complex64 inputs handed to sarpy (independent of the model)
"""
import json
import struct

import numpy

from common import Check, Driver, Infra, sarpy_guard

REQUIRED = ['deinterleave_interleave', 'interleave_deinterleave', 'deinterleave_length', 'pick_involutive', 'decode_magnitude',
            'decodeMP_zero', 'arg_polar', 'encodeMP_decodeMP', 'countBelow_sorted', 'nearestIndex_exact', 'ampSF_inverse', 'ampSF_roundtrip',
            # rounding: any nearest-integer rule; the code's half-to-even rule and Mathlib's round are instances
            'rhe_err', 'rhe_tie_even', 'rhe_intCast', 'isNearest_rhe', 'isNearest_round', 'IsNearest.intCast', 'IsNearest.natCast',
            'IsNearest.mem_Icc', 'IsNearest.stable',
            # quantised magnitude / phase encoder
            'encodeMP_eq', 'wrapPow_int', 'encodeMPq_eq', 'encodeMPq_realOps', 'encQ_mag_err', 'encQ_mag_nonneg', 'encQ_mag_range',
            'encQ_phase_range', 'encQ_round_range', 'encQ_phase_wrap', 'encQ_phase_nowrap', 'encQ_phase_wrap_tie_rhe', 'encQ_phase_key',
            'encQ_phase_err', 'polar_sub_le', 'encQ_decode_err_chord', 'encQ_decode_err', 'encQ_decode_err_rhe', 'encQ_decode_err_round',
            'encodeMPq_decodeMP', 'encodeMPq_idempotent', 'encodeMPq_decodeMP_zero',
            # amplitude table, every real magnitude, every non-decreasing table
            'countBelow_lt_iff', 'nearestR_eq', 'nearestR_optimal', 'nearestR_optimal_getElem', 'nearestR_below', 'nearestR_above',
            'nearestR_tie_lower', 'nearestR_half_gap',
            # amplitude scale factor with integer raw formats; plain integer IQ truncation
            'encodeAmpSF_eq', 'ampSF_quant_err', 'ampSF_quant_range', 'ampSF_quant_err_sq', 'ampSF_quant_err_norm', 'ampSF_fixed_point',
            'truncZero_eq', 'truncZ_err', 'truncZ_sign', 'truncZ_intCast',
            # supporting lemmas (closed forms, ranges of the un-rounded values, polar forms, sorted-table access)
            'decodeMP_eq', 'decodeMP_realOpsR', 'encodeMP_realOpsR', 'realOps_eq', 'mag_nonneg', 'phase_nonneg', 'phase_lt', 'phase_eq_arg',
            'tScaled_nonneg', 'tScaled_lt', 'tScaled_phase', 'pair_as_polar', 'polar_as_pair', 'dist_as_norm', 'getD_eq', 'sorted_mono',
            'countBelow_le_length']

# tie bands (in quantisation steps) around a half-integer inside which the float32 arithmetic of the implementation may legitimately
# round either way; measured noise of the un-rounded float32 values against float64: 8 bit 3e-5 steps, 16 bit 7.5e-3 steps
BAND = {8: 1e-3, 16: 3e-2}


def fb(x):
    return str(struct.unpack('<Q', struct.pack('<d', float(x)))[0])


def bf(s):
    return struct.unpack('<d', struct.pack('<Q', int(s)))[0]


def all_pairs_u8():
    m, p = numpy.meshgrid(numpy.arange(256, dtype='uint8'), numpy.arange(256, dtype='uint8'), indexing='ij')
    return m.reshape(-1), p.reshape(-1)


def exhaustive_mp(fails, stats):
    from sarpy.io.general.format_function import ComplexFormatFunction
    m, p = all_pairs_u8()
    for order in ('MP', 'PM'):
        raw = numpy.empty((m.size, 2), dtype='uint8')
        raw[:, 0], raw[:, 1] = (m, p) if order == 'MP' else (p, m)
        for collapsed in (True, False):
            ff = ComplexFormatFunction('uint8', order, band_dimension=1)
            ff.set_raw_shape((m.size, 2))
            ff.set_formatted_shape((m.size,) if collapsed else (m.size, 1))
            sub = (slice(0, m.size, 1), slice(0, 2, 1))
            z = ff(raw, sub, squeeze=False)
            stats['exhaustive_pairs'] = stats.get('exhaustive_pairs', 0) + m.size
            want = m.astype('float64') * numpy.exp(2j * numpy.pi * p.astype('float64') / 256.0)
            if z.dtype != numpy.dtype('complex64') or not numpy.allclose(z.reshape(-1), want, rtol=2e-6, atol=2e-5):
                bad = int(numpy.argmax(numpy.abs(z.reshape(-1) - want)))
                fails.append({'kind': 'mp-decode', 'msg': f'{order} uint8 (collapsed={collapsed}): decode of (m={m[bad]}, p={p[bad]}) is {z.reshape(-1)[bad]!r}, standard says {want[bad]!r}'})
                continue
            fsub = (slice(0, m.size, 1),) if collapsed else (slice(0, m.size, 1), slice(0, 1, 1))
            back = ff.inverse(z, fsub)
            bm, bp = (back[:, 0], back[:, 1]) if order == 'MP' else (back[:, 1], back[:, 0])
            nz = m != 0
            badm = numpy.nonzero(nz & ((bm != m) | (bp != p)))[0]
            if badm.size:
                k = int(badm[0])
                fails.append({'kind': 'mp-fixed-point', 'msg': f'{order} uint8 (collapsed={collapsed}): stored sample (m={m[k]}, p={p[k]}) decodes and re-encodes to (m={bm[k]}, p={bp[k]}); {badm.size} of 65280 non-zero-magnitude samples are not fixed points'})
            z0 = numpy.nonzero(~nz & (bm != 0))[0]
            if z0.size:
                fails.append({'kind': 'mp-zero', 'msg': f'{order} uint8: zero magnitude re-encodes to magnitude {bm[z0[0]]}'})
            k00 = int(numpy.nonzero((m == 0) & (p == 0))[0][0])
            if bm[k00] != 0 or bp[k00] != 0:
                fails.append({'kind': 'mp-zero', 'msg': f'{order} uint8: the sample (0, 0) re-encodes to ({bm[k00]}, {bp[k00]})'})
            lost = int(numpy.count_nonzero(~nz & (p != 0)))
            stats['zero_magnitude_phase_lost'] = lost   # inherent (Props.C08.decodeMP_zero): 255 samples per order, not a defect


def exhaustive_table(rng, fails, stats, ntables):
    from sarpy.io.complex.sicd import AmpLookupFunction
    m, p = all_pairs_u8()
    tables = [numpy.arange(256, dtype='float64'), numpy.linspace(0.5, 400, 256) ** 1.5, numpy.sqrt(numpy.arange(1, 257, dtype='float64'))]
    for _ in range(ntables):
        t = numpy.cumsum(numpy.array([rng.uniform(0.01, 3.0) for _ in range(256)]))
        tables.append(t)
    for ti, table in enumerate(tables):
        t32 = table.astype('float32')
        if not numpy.all(numpy.diff(t32) > 0):
            continue
        for collapsed in (True, False):
            ff = AmpLookupFunction('uint8', t32.astype('float64'), band_dimension=1)
            ff.set_raw_shape((m.size, 2))
            ff.set_formatted_shape((m.size,) if collapsed else (m.size, 1))
            raw = numpy.stack([m, p], axis=1)
            z = ff(raw, (slice(0, m.size, 1), slice(0, 2, 1)), squeeze=False)
            stats['exhaustive_pairs'] = stats.get('exhaustive_pairs', 0) + m.size
            want = t32[m].astype('float64') * numpy.exp(2j * numpy.pi * p.astype('float64') / 256.0)
            if not numpy.allclose(z.reshape(-1), want, rtol=2e-6, atol=1e-6 * float(t32[-1])):
                bad = int(numpy.argmax(numpy.abs(z.reshape(-1) - want)))
                fails.append({'kind': 'table-decode', 'msg': f'amplitude table {ti}: decode of (m={m[bad]}, p={p[bad]}) is {z.reshape(-1)[bad]!r}, standard says {want[bad]!r}'})
                continue
            fsub = (slice(0, m.size, 1),) if collapsed else (slice(0, m.size, 1), slice(0, 1, 1))
            try:
                back = ff.inverse(z, fsub)
            except Exception as e:
                fails.append({'kind': 'table-inverse', 'msg': f'amplitude table {ti} (collapsed={collapsed}): inverse raised {type(e).__name__}: {e}'})
                continue
            nz = t32[m] != 0
            bad = numpy.nonzero(nz & ((back[:, 0] != m) | (back[:, 1] != p)))[0]
            if bad.size:
                k = int(bad[0])
                fails.append({'kind': 'table-fixed-point', 'msg': f'amplitude table {ti} (collapsed={collapsed}): stored (m={m[k]}, p={p[k]}) re-encodes to (m={back[k, 0]}, p={back[k, 1]}); {bad.size} samples are not fixed points'})


def matrix(rng, fails, stats, n):
    """dtype x order x band axis x collapsed, against an independent numpy statement"""
    from sarpy.io.general.format_function import ComplexFormatFunction
    seen = set()
    for _ in range(n):
        order = rng.choice(['IQ', 'QI', 'MP', 'PM'])
        dt = rng.choice(['int8', 'int16', 'int32', 'float16', 'float32', 'float64'] if order in ('IQ', 'QI') else ['uint8', 'uint16', 'uint32', 'float32', 'float64'])
        nd = rng.choice([2, 3])
        bd = rng.randrange(nd)
        collapsed = rng.random() < 0.5
        shape = [rng.randint(1, 5) for _ in range(nd)]
        shape[bd] = 2 if collapsed else 2 * rng.randint(1, 3)
        seen.add((order, dt, bd, nd, collapsed))
        info = numpy.iinfo(dt) if numpy.dtype(dt).kind in 'iu' else None
        size = int(numpy.prod(shape))
        if info is not None:
            lim_lo, lim_hi = max(info.min, -2 ** 23), min(info.max, 2 ** 23)
            vals = numpy.array([rng.choice([lim_lo, lim_hi, 0, 1, rng.randint(lim_lo, lim_hi)]) for _ in range(size)], dtype=dt)
        else:
            vals = numpy.array([rng.choice([0.0, 1.0, -1.5, rng.uniform(-100, 100)]) for _ in range(size)]).astype(dt)
            if order in ('MP', 'PM'):
                vals = numpy.abs(vals)
        # files hand the format function byte-swapped dtypes (NITF is big-endian): both byte orders of every multi-byte type
        bo = rng.choice(['<', '>']) if numpy.dtype(dt).itemsize > 1 else '|'
        dts = bo + numpy.dtype(dt).str[1:]
        raw = vals.reshape(shape).astype(dts)
        seen.add(('byteorder', dt, bo, order in ('MP', 'PM')))
        ff = ComplexFormatFunction(dts, order, band_dimension=bd)
        ff.set_raw_shape(tuple(shape))
        fshape = [s for i, s in enumerate(shape) if not (collapsed and i == bd)]
        if not collapsed:
            fshape[bd] = shape[bd] // 2
        ff.set_formatted_shape(tuple(fshape))
        case = {'order': order, 'dtype': dts, 'shape': shape, 'band_dim': bd, 'collapsed': collapsed}
        stats['matrix_cases'] = stats.get('matrix_cases', 0) + 1
        try:
            z = ff(raw, tuple(slice(0, s, 1) for s in shape), squeeze=False)
        except Exception as e:
            fails.append({'kind': 'matrix', 'msg': f'decode raised {type(e).__name__}: {e}', 'case': case})
            continue
        a = numpy.moveaxis(raw, bd, -1).astype('float64')
        first, second = a[..., 0::2], a[..., 1::2]
        if order == 'IQ':
            want = first + 1j * second
        elif order == 'QI':
            want = second + 1j * first
        else:
            mag, ph = (first, second) if order == 'MP' else (second, first)
            if numpy.dtype(dt).kind == 'u':
                ph = ph * 2 * numpy.pi / (1 << (8 * numpy.dtype(dt).itemsize))
            want = mag * numpy.exp(1j * ph)
        want = want[..., 0] if collapsed else numpy.moveaxis(want, -1, bd)
        scale = max(1.0, float(numpy.max(numpy.abs(want)))) if want.size else 1.0
        if tuple(z.shape) != tuple(want.shape) or not numpy.allclose(z, want.astype('complex64'), rtol=3e-6, atol=3e-6 * scale):
            fails.append({'kind': 'matrix', 'msg': f'decode differs from the standard definition for order {order}, dtype {dts}, band axis {bd}, collapsed={collapsed}', 'case': case})
            continue
        if order in ('IQ', 'QI') or numpy.dtype(dt).kind == 'u':
            try:
                back = ff.inverse(z, tuple(slice(0, s, 1) for s in z.shape))
            except Exception as e:
                fails.append({'kind': 'matrix', 'msg': f'encode raised {type(e).__name__}: {e}', 'case': case})
                continue
            ok = numpy.array_equal(back, raw) if order in ('IQ', 'QI') else None
            if ok is False and numpy.dtype(dt).kind == 'f' and dt == 'float64':
                ok = numpy.allclose(back, raw, rtol=1e-6)   # complex64 carries float32 precision
            if ok is False:
                fails.append({'kind': 'matrix', 'msg': f'encode(decode(x)) != x for order {order}, dtype {dt}, band axis {bd}, collapsed={collapsed}', 'case': case})
    return seen


def ampsf(rng, fails, stats, n):
    from sarpy.io.phase_history.cphd import AmpScalingFunction
    for _ in range(n):
        dt = rng.choice(['int8', 'int16', 'float32'])
        nv, ns = rng.randint(2, 9), rng.randint(1, 6)
        sf = numpy.array([2.0 ** (-rng.randint(0, 6)) * rng.choice([1.0, 1.5, 3.0]) for _ in range(nv)], dtype='float32')
        if numpy.dtype(dt).kind == 'i':
            raw = numpy.array([rng.randint(-100, 100) for _ in range(nv * ns * 2)], dtype=dt).reshape((nv, ns, 2))
        else:
            raw = numpy.array([rng.uniform(-10, 10) for _ in range(nv * ns * 2)], dtype=dt).reshape((nv, ns, 2))
        ff = AmpScalingFunction(dt, amplitude_scaling=sf)
        ff.set_raw_shape((nv, ns, 2))
        ff.set_formatted_shape((nv, ns))
        want = (sf[:, None].astype('float64') * (raw[..., 0].astype('float64') + 1j * raw[..., 1].astype('float64')))
        stats['ampsf_cases'] = stats.get('ampsf_cases', 0) + 1
        for _k in range(3):
            a = rng.randrange(nv)
            b = rng.randint(a + 1, nv)
            st = rng.choice([1, 1, 2])
            sub = (slice(a, b, st), slice(0, ns, 1), slice(0, 2, 1))
            case = {'dtype': dt, 'nv': nv, 'ns': ns, 'sub': [a, b, st]}
            z = ff(raw[sub], sub, squeeze=False)
            w = want[a:b:st]
            if z.shape != w.shape or not numpy.allclose(z, w, rtol=2e-6, atol=1e-6):
                fails.append({'kind': 'ampsf', 'msg': f'AmpSF decode of vectors [{a}:{b}:{st}] differs from AmpSF[v]*(I + jQ)', 'case': case})
                break
            try:
                back = ff.inverse(z, (slice(a, b, st), slice(0, ns, 1)))
            except Exception as e:
                fails.append({'kind': 'ampsf', 'msg': f'AmpSF encode raised {type(e).__name__}: {e}', 'case': case})
                break
            if numpy.dtype(dt).kind == 'i' and not numpy.array_equal(back, raw[sub]):
                fails.append({'kind': 'ampsf', 'msg': f'AmpSF encode(decode(x)) != x for integer samples, vectors [{a}:{b}:{st}]', 'case': case})
                break
            if numpy.dtype(dt).kind == 'f' and (numpy.shape(back) != raw[sub].shape or
                                               not numpy.allclose(numpy.asarray(back, dtype='float64'), raw[sub].astype('float64'), rtol=4e-6, atol=1e-6)):
                # CF8: the scale factor must be undone on encoding as well (exact up to float32 rounding of v*sf/sf)
                fails.append({'kind': 'ampsf', 'msg': f'AmpSF encode(decode(x)) differs from x beyond float32 rounding for float samples, vectors [{a}:{b}:{st}]', 'case': case})
                break
        # re-installing a scaling between inverse calls (block-wise CPHD production: write_pvp_array again with the final AmpSF): the object must
        # behave as a fresh function with the second array - encode is a function of the array installed NOW, not of an earlier one
        sf2 = numpy.array([v * rng.choice([0.25, 0.5, 2.0, 4.0]) for v in sf], dtype='float32')
        sub2 = (slice(0, nv, 1), slice(0, ns, 1))
        z2 = (sf2[:, None].astype('float64') * (raw[..., 0].astype('float64') + 1j * raw[..., 1].astype('float64'))).astype('complex64')
        case = {'dtype': dt, 'nv': nv, 'ns': ns, 'sf': [float(v) for v in sf], 'sf2': [float(v) for v in sf2]}
        try:
            ff.set_amplitude_scaling(sf2)
            again = ff.inverse(z2, sub2)
            fresh = AmpScalingFunction(dt, amplitude_scaling=sf2)
            fresh.set_raw_shape((nv, ns, 2))
            fresh.set_formatted_shape((nv, ns))
            ref = fresh.inverse(z2, sub2)
        except Exception as e:
            fails.append({'kind': 'ampsf-reinstall', 'msg': f'AmpSF encode after set_amplitude_scaling with a second array raised {type(e).__name__}: {e}', 'case': case})
            continue
        stats['ampsf_reinstall_cases'] = stats.get('ampsf_reinstall_cases', 0) + 1
        if numpy.shape(again) != numpy.shape(ref) or not numpy.array_equal(again, ref):
            fails.append({'kind': 'ampsf-reinstall', 'msg': 'AmpScalingFunction.inverse after set_amplitude_scaling(second array) differs from a fresh function with that '
                                                            f'array (dtype {dt}): up to {float(numpy.abs(numpy.asarray(again, dtype="float64") - numpy.asarray(ref, dtype="float64")).max()):g} '
                                                            'raw steps - the encoder still uses the scaling installed before', 'case': case})
        elif numpy.dtype(dt).kind == 'i' and not numpy.array_equal(again, raw):
            fails.append({'kind': 'ampsf-reinstall', 'msg': f'AmpSF encode with the second array: stored integers are not round(value / AmpSF) (dtype {dt})', 'case': case})


# ----------------------------------------------------------------------------------------------------------------------
# quantisation bounds for arbitrary in-range values: bound oracles on the implementation (float64 numpy on the complex64
# inputs actually handed to sarpy; independent of the Lean model).  Every oracle takes arrays, so replay() re-runs a stored
# case as a one-element array through the same code.

def _c64(re, im):
    z = numpy.empty(numpy.shape(re), dtype='complex64')
    z.real, z.imag = re, im
    return z


class Raised(Exception):
    pass


def _guard(what, fn, *a, **k):
    """an exception from sarpy on a supported input is a failure of the property check, not of the harness"""
    try:
        return fn(*a, **k)
    except Exception as e:        # reported, never ignored
        raise Raised(f'{what} raised {type(e).__name__}: {e}')


def _mp_bounds(dt, order, z32):
    """ComplexFormatFunction(dt, MP|PM).inverse on complex64 samples z32 (1-d). Returns (failures, info): failures is a list of
    (kind, index, message); info carries the stored pairs and counts."""
    from sarpy.io.general.format_function import ComplexFormatFunction
    bits = numpy.dtype(dt).itemsize * 8
    N = 1 << bits
    band = BAND[bits]
    n = z32.size
    ff = ComplexFormatFunction(dt, order, band_dimension=1)
    ff.set_raw_shape((n, 2))
    ff.set_formatted_shape((n,))
    raw = _guard('inverse', ff.inverse, z32, (slice(0, n, 1),))
    out = []
    if raw.dtype != numpy.dtype(dt) or raw.shape != (n, 2):
        return [('mp-quant-shape', 0, f'{order} {dt}: inverse returned dtype {raw.dtype} shape {raw.shape}')], {'raw': raw, 'in_range': 0, 'out_of_range': 0}
    M, P = (raw[:, 0], raw[:, 1]) if order == 'MP' else (raw[:, 1], raw[:, 0])
    z = z32.astype('complex128')
    r = numpy.abs(z)
    a = numpy.angle(z)
    step = 2 * numpy.pi / N
    inr = r <= N - 1                       # the property speaks of in-range values: |z| <= 2^b - 1
    Mf, Pf = M.astype('float64'), P.astype('float64')

    def first(mask, kind, fmt):
        idx = numpy.nonzero(mask)[0]
        if idx.size:
            k = int(idx[0])
            out.append((kind, k, f'{order} {dt}: z={complex(z32[k])!r} (|z|={r[k]:.6f}, scaled phase {(a[k] % (2 * numpy.pi)) / step:.6f}) is stored as '
                                 f'(M={int(M[k])}, P={int(P[k])}): ' + fmt(k) + f'; {idx.size} of {n} samples'))

    em = numpy.abs(Mf - r)
    first(inr & (em > 0.5 + band), 'mp-quant-magnitude', lambda k: f'|M - |z|| = {em[k]:.6f} > 1/2')
    d = (Pf * step - a + numpy.pi) % (2 * numpy.pi) - numpy.pi
    first(numpy.abs(d) > (0.5 + band) * step, 'mp-quant-phase', lambda k: f'circular phase error {abs(d[k]) / step:.6f} steps > 1/2')
    t = (a % (2 * numpy.pi)) / step
    first((t > N - 0.5 + band) & (P != 0), 'mp-quant-wrap', lambda k: f'scaled phase above 2^{bits} - 1/2 must be stored as 0')
    w32 = _guard('decode', ff, raw, (slice(0, n, 1), slice(0, 2, 1)), squeeze=False).reshape(-1)
    w = w32.astype('complex128')
    e = numpy.abs(w - z)
    bound = 0.5 + r * numpy.pi / N
    tol = band * (1 + r * step) + 1e-6 * r + 1e-6
    first(inr & (e > bound + tol), 'mp-quant-decode', lambda k: f'|decode(encode z) - z| = {e[k]:.6f} > 1/2 + |z| pi/2^{bits} = {bound[k]:.6f}')
    raw2 = _guard('inverse', ff.inverse, w32, (slice(0, n, 1),))
    first(inr & (M != 0) & numpy.any(raw2 != raw, axis=1), 'mp-quant-idempotent',
          lambda k: f'encode(decode(encode z)) = {raw2[k].tolist()} differs from encode z = {raw[k].tolist()}')
    return out, {'M': M, 'P': P, 'in_range': int(numpy.count_nonzero(inr)), 'out_of_range': int(numpy.count_nonzero(~inr)),
                 'wrapped_to_zero': int(numpy.count_nonzero((t > N - 0.5 + band) & (P == 0)))}


def mp_bounds(dt, order, z32):
    try:
        return _mp_bounds(dt, order, z32)
    except Raised as e:
        return [('mp-quant-raised', 0, f'{e}')], {'in_range': 0, 'out_of_range': z32.size}

def _mp_case(dt, order, z32, k):
    return {'oracle': 'mp', 'dtype': dt, 'order': order, 'z': [float(z32[k].real), float(z32[k].imag)]}


def quant_mp_u8(rng, fails, stats, tier):
    """uint8 MP and PM, exhaustive off-grid grid: every m in 0..255 and p in 0..255 shifted by fixed offsets in (-1/2, 1/2)
    (incl. values near +-1/2) and by one seeded random offset pair per order"""
    off = [-0.498, -0.49, -0.25, 0.0, 0.25, 0.49, 0.498]
    if tier != 'quick':
        off += [-0.45, -0.375, -0.125, -0.01, 0.01, 0.125, 0.375, 0.45]
    m, p = numpy.meshgrid(numpy.arange(256, dtype='float64'), numpy.arange(256, dtype='float64'), indexing='ij')
    m, p = m.reshape(-1), p.reshape(-1)
    collected = {}
    for order in ('MP', 'PM'):
        pairs = [(a, b) for a in off for b in off if (a, b) != (0.0, 0.0)]
        if order == 'PM' and tier == 'quick':
            pairs = [(a, b) for a, b in pairs if abs(a) == abs(b) or a == 0.0 or b == 0.0]
        pairs += [(rng.uniform(-0.499, 0.499), rng.uniform(-0.499, 0.499)) for _ in range(1 if tier == 'quick' else 100)]
        for dm, dp in pairs:
            rr = m + dm
            keep = (rr >= 0) & (rr <= 255)
            zz = rr[keep] * numpy.exp(2j * numpy.pi * (p[keep] + dp) / 256.0)
            z32 = zz.astype('complex64')
            bad, info = mp_bounds('uint8', order, z32)
            stats['quant_u8_samples'] = stats.get('quant_u8_samples', 0) + z32.size
            stats['quant_u8_offset_pairs'] = stats.get('quant_u8_offset_pairs', 0) + 1
            stats.setdefault('_classes', set()).add(('u8', order, round(dm, 6), round(dp, 6)))
            stats['quant_out_of_range_not_judged'] = stats.get('quant_out_of_range_not_judged', 0) + info['out_of_range']
            stats['quant_phase_wrapped_to_zero'] = stats.get('quant_phase_wrapped_to_zero', 0) + info.get('wrapped_to_zero', 0)
            for kind, k, msg in bad:
                fails.append({'kind': kind, 'msg': msg + f' [offsets dm={dm:.4f} dp={dp:.4f}]', 'case': _mp_case('uint8', order, z32, k)})
            if order == 'MP' and (dm, dp) in ((0.25, -0.49), (-0.49, 0.25)):
                collected[(dm, dp)] = (z32, info)
    return collected


def quant_mp_u16(rng, fails, stats, tier):
    """uint16: boundary phases / magnitudes (deterministic block) and seeded samples"""
    N = 1 << 16
    nprng = numpy.random.default_rng(rng.getrandbits(32))
    pb = numpy.array([0, 1, N // 4, N // 2, N // 2 + 1, N - 1], dtype='float64')
    dpb = numpy.array([-0.46, -0.3, 0.0, 0.3, 0.46])
    mb = numpy.array([0.0, 0.3, 0.46, 0.54, 0.7, 1.0, 1.46, 1.54, 100.25, N / 2 + 0.2, N - 1 - 0.54, N - 1 - 0.46, N - 1])
    mm, pp, dd = numpy.meshgrid(mb, pb, dpb, indexing='ij')
    blocks = [(mm.reshape(-1), (pp + dd).reshape(-1))]
    n = (1 << 16) if tier == 'quick' else (1 << 21)
    kind = nprng.integers(0, 4, n)
    rm = numpy.where(kind == 0, nprng.uniform(0, 2.6, n), numpy.where(kind == 1, N - 1 - nprng.uniform(0, 2.6, n), nprng.uniform(0, N - 1, n)))
    pk = nprng.integers(0, 3, n)
    rp = numpy.where(pk == 0, pb[nprng.integers(0, pb.size, n)], nprng.integers(0, N, n).astype('float64'))
    dk = nprng.integers(0, 3, n)
    rd = numpy.where(dk == 0, nprng.choice(numpy.array([-0.46, 0.46, -0.4, 0.4]), n), nprng.uniform(-0.5, 0.5, n))
    blocks.append((rm, rp + rd))
    collected = None
    for order in ('MP', 'PM'):
        for bi, (r0, t0) in enumerate(blocks):
            if order == 'PM' and bi == 1:
                r0, t0 = r0[: n // 4], t0[: n // 4]
            z32 = (r0 * numpy.exp(2j * numpy.pi * t0 / N)).astype('complex64')
            bad, info = mp_bounds('uint16', order, z32)
            stats['quant_u16_samples'] = stats.get('quant_u16_samples', 0) + z32.size
            stats.setdefault('_classes', set()).add(('u16', order, bi))
            stats['quant_out_of_range_not_judged'] = stats.get('quant_out_of_range_not_judged', 0) + info['out_of_range']
            stats['quant_phase_wrapped_to_zero'] = stats.get('quant_phase_wrapped_to_zero', 0) + info.get('wrapped_to_zero', 0)
            for kind_, k, msg in bad:
                fails.append({'kind': kind_, 'msg': msg, 'case': _mp_case('uint16', order, z32, k)})
            if order == 'MP' and bi == 1:
                collected = (z32, info)
    return collected


def _table_bounds(t32, z32, expect=None):
    """AmpLookupFunction.inverse: the stored index must be a nearest table entry (brute force over all 256 entries);
    `expect` (optional int array): exact ties, the index that must be returned (the lower one)"""
    from sarpy.io.complex.sicd import AmpLookupFunction
    n = z32.size
    ff = AmpLookupFunction('uint8', numpy.array(t32, dtype='float32'), band_dimension=1)
    ff.set_raw_shape((n, 2))
    ff.set_formatted_shape((n,))
    raw = _guard('inverse', ff.inverse, z32, (slice(0, n, 1),))
    idx = raw[:, 0].astype('int64')
    T = numpy.asarray(t32, dtype='float64')
    mag = numpy.abs(z32.astype('complex128'))
    out = []
    got = numpy.abs(T[idx] - mag)
    best = numpy.empty(n)
    for a in range(0, n, 8192):
        best[a:a + 8192] = numpy.abs(T[None, :] - mag[a:a + 8192, None]).min(axis=1)
    tol = 1e-6 * numpy.maximum(1.0, numpy.maximum(mag, numpy.abs(T[idx])))     # float32 |z| and float32 differences
    badi = numpy.nonzero(got > best + tol)[0]
    if badi.size:
        k = int(badi[0])
        out.append(('table-nearest', k, f'amplitude table: |z|={mag[k]!r} is stored as index {idx[k]} (entry {T[idx[k]]!r}, distance {got[k]:.6g}) but entry '
                                        f'{int(numpy.argmin(numpy.abs(T - mag[k])))} is at distance {best[k]:.6g}; {badi.size} of {n} samples'))
    if expect is not None:
        badt = numpy.nonzero(idx != expect)[0]
        if badt.size:
            k = int(badt[0])
            out.append(('table-tie', k, f'amplitude table: |z|={mag[k]!r} exactly midway between entries {int(expect[k])} and {int(expect[k]) + 1} '
                                        f'({T[expect[k]]!r}, {T[expect[k] + 1]!r}) is stored as index {idx[k]}, the rule is the lower index; {badt.size} of {n} ties'))
    return out, idx


def table_bounds(t32, z32, expect=None):
    try:
        return _table_bounds(t32, z32, expect)
    except Raised as e:
        return [('table-quant-raised', 0, f'{e}')], numpy.zeros(z32.size, dtype='int64')

def quant_table(rng, fails, stats, tier, tie_mismatch):
    """every interval k in 0..254 x 256 positions inside it (the phase index varies the fraction), values below the first
    and above the last entry, plateaus; exact ties on tables whose midpoints are exact in float32"""
    tabs = [('linear', numpy.arange(256, dtype='float64')), ('convex', numpy.linspace(0.5, 400, 256) ** 1.5),
            ('concave', numpy.sqrt(numpy.arange(1, 257, dtype='float64'))), ('plateaus', numpy.floor(numpy.arange(256) / 2.0) * 1.5 + 1.0)]
    for i in range(2 if tier == 'quick' else 12):
        tabs.append((f'random{i}', numpy.cumsum(numpy.array([rng.uniform(0.01, 3.0) for _ in range(256)]))))
    k, p = numpy.meshgrid(numpy.arange(255), numpy.arange(256), indexing='ij')
    k, p = k.reshape(-1), p.reshape(-1)
    f = (p + 0.5) / 256.0
    collected = None
    for name, table in tabs:
        t32 = table.astype('float32')
        T = t32.astype('float64')
        if not numpy.all(numpy.diff(T) >= 0):
            continue
        x = T[k] + f * (T[k + 1] - T[k])
        extra = numpy.array([T[0] * 0.5, T[0] * 0.999, 0.0, T[255] * 1.001 + 0.01, T[255] * 2 + 1, T[255] + 1e-3])
        xs = numpy.concatenate([x, extra])
        ph = numpy.concatenate([p, numpy.arange(extra.size)]) * (2 * numpy.pi / 256.0)
        z32 = (xs * numpy.exp(1j * ph)).astype('complex64')
        bad, idx = table_bounds(t32, z32)
        stats['quant_table_samples'] = stats.get('quant_table_samples', 0) + z32.size
        stats.setdefault('_classes', set()).update({('table', name, 'interior'), ('table', name, 'outside')})
        for kind, kk, msg in bad:
            fails.append({'kind': kind, 'msg': f'table {name}: ' + msg, 'case': {'oracle': 'table', 'table': [float(v) for v in t32], 'z': [float(z32[kk].real), float(z32[kk].imag)]}})
        if name == 'random0':
            collected = (t32, z32, idx)
    # exact ties: integer tables with even gaps, the midpoint is an integer; |z| is exact for z on an axis.  Both neighbours are
    # nearest entries there, so a different tie rule does not violate the property: a deviation from the model's rule (lower index,
    # Props.C08.nearestR_tie_lower) is a CORRESPONDENCE disagreement (the model no longer mirrors the code), not an oracle failure.
    ties = [('even-gaps', numpy.cumsum(numpy.array([2 * rng.randint(1, 6) for _ in range(256)], dtype='float64'))),
            ('arange*2', numpy.arange(256, dtype='float64') * 2)]
    tie_cases = []
    for name, table in ties:
        t32 = table.astype('float32')
        T = t32.astype('float64')
        mid = (T[:-1] + T[1:]) / 2
        z32 = numpy.concatenate([_c64(mid, 0 * mid), _c64(-mid, 0 * mid), _c64(0 * mid, mid), _c64(0 * mid, -mid)])
        expect = numpy.tile(numpy.arange(255), 4)
        bad, idx = table_bounds(t32, z32, expect)
        stats['quant_table_ties'] = stats.get('quant_table_ties', 0) + z32.size
        stats.setdefault('_classes', set()).add(('table', name, 'tie'))
        for kind, kk, msg in bad:
            if kind == 'table-tie':
                tie_mismatch.append({'op': 'nearest-tie', 'table': name, 'msg': msg[:300]})
            else:
                fails.append({'kind': kind, 'msg': f'table {name}: ' + msg,
                              'case': {'oracle': 'table', 'table': [float(v) for v in t32], 'z': [float(z32[kk].real), float(z32[kk].imag)]}})
        tie_cases.append((t32, numpy.abs(z32.astype('complex128')), idx))
    # a table with repeated entries at its exact entry values: every index of the plateau is a nearest entry (judged by value above);
    # WHICH one is returned depends on searchsorted(side='left') - compared with the model through the driver (exact inputs)
    t32 = (numpy.floor(numpy.arange(256) / 2.0) * 1.5 + 1.0).astype('float32')
    xs = t32.astype('float64')
    z32 = _c64(xs, 0 * xs)
    bad, idx = table_bounds(t32, z32)
    stats['quant_table_samples'] = stats.get('quant_table_samples', 0) + z32.size
    stats.setdefault('_classes', set()).add(('table', 'plateaus', 'exact-entry'))
    for kind, kk, msg in bad:
        fails.append({'kind': kind, 'msg': 'table plateaus (exact entries): ' + msg,
                      'case': {'oracle': 'table', 'table': [float(v) for v in t32], 'z': [float(z32[kk].real), float(z32[kk].imag)]}})
    tie_cases.append((t32, xs, idx))
    return collected, tie_cases


def _ampsf_bounds(dt, sf32, z32):
    """AmpScalingFunction(dt integer).inverse on z32 of shape (nv, ns): per component |sf*n - v| <= |sf|/2 for in-range v/sf;
    out-of-range samples (they wrap through the cast, the property does not speak about them) are counted, not judged"""
    from sarpy.io.phase_history.cphd import AmpScalingFunction
    nv, ns = z32.shape
    bits = numpy.dtype(dt).itemsize * 8
    band = BAND[bits]
    info = numpy.iinfo(dt)
    ff = AmpScalingFunction(dt, amplitude_scaling=numpy.array(sf32, dtype='float32'))
    ff.set_raw_shape((nv, ns, 2))
    ff.set_formatted_shape((nv, ns))
    raw = _guard('inverse', ff.inverse, z32, (slice(0, nv, 1), slice(0, ns, 1)))
    out = []
    if raw.dtype != numpy.dtype(dt) or raw.shape != (nv, ns, 2):
        return [('ampsf-quant-shape', (0, 0), f'AmpSF {dt}: inverse returned dtype {raw.dtype} shape {raw.shape}')], {'in_range': 0, 'out_of_range': 0, 'raw': raw}
    sf = numpy.asarray(sf32, dtype='float32').astype('float64')[:, None]
    inr_all = numpy.ones((nv, ns), dtype=bool)
    for ci, (v32, name) in enumerate(((z32.real, 'I'), (z32.imag, 'Q'))):
        v = v32.astype('float64')
        u = v / sf
        inr = (u >= info.min) & (u <= info.max)
        inr_all &= inr
        nq = raw[..., ci].astype('float64')
        err = numpy.abs(sf * nq - v)
        badm = inr & (err > numpy.abs(sf) * (0.5 + band))
        ij = numpy.argwhere(badm)
        if ij.size:
            i, j = (int(t) for t in ij[0])
            out.append(('ampsf-quant', (i, j), f'AmpSF {dt} sf={float(sf[i, 0])!r}: {name}={float(v[i, j])!r} (v/sf={float(u[i, j]):.6f}) is stored as {int(raw[i, j, ci])}, '
                                               f'|sf*n - v| = {float(err[i, j]):.6g} > |sf|/2 = {abs(float(sf[i, 0])) / 2:.6g}; {ij.shape[0]} samples'))
    w = _guard('decode', ff, raw, (slice(0, nv, 1), slice(0, ns, 1), slice(0, 2, 1)), squeeze=False).astype('complex128')
    e = numpy.abs(w - z32.astype('complex128'))
    lim = numpy.abs(sf) * (1 / numpy.sqrt(2) + 2 * band) + 1e-6 * numpy.abs(z32) + 1e-9
    ij = numpy.argwhere(inr_all & (e > lim))
    if ij.size:
        i, j = (int(t) for t in ij[0])
        out.append(('ampsf-quant-decode', (i, j), f'AmpSF {dt} sf={float(sf[i, 0])!r}: z={complex(z32[i, j])!r} decodes after encoding to {complex(w[i, j])!r}, '
                                                  f'|decode(encode z) - z| = {float(e[i, j]):.6g} > |sf|/sqrt 2 = {abs(float(sf[i, 0])) / numpy.sqrt(2):.6g}; {ij.shape[0]} samples'))
    return out, {'in_range': int(numpy.count_nonzero(inr_all)), 'out_of_range': int(numpy.count_nonzero(~inr_all)), 'raw': raw}


def ampsf_bounds(dt, sf32, z32):
    try:
        return _ampsf_bounds(dt, sf32, z32)
    except Raised as e:
        return [('ampsf-quant-raised', (0, 0), f'{e}')], {'in_range': 0, 'out_of_range': 0, 'raw': None}

def quant_ampsf(rng, fails, stats, tier):
    nprng = numpy.random.default_rng(rng.getrandbits(32))
    collected = None
    for dt in ('int8', 'int16'):
        info = numpy.iinfo(dt)
        sfs = numpy.array([1.0, 0.5, 3.0, 0.0625, 1.5, -0.75, rng.uniform(0.01, 4.0), 2.0 ** (-rng.randint(0, 9)) * rng.choice([1.0, 1.25, 1.75])], dtype='float32')
        if dt == 'int8':
            nn = numpy.arange(info.min, info.max + 1, dtype='float64')
        else:
            cnt = 2000 if tier == 'quick' else 40000
            nn = numpy.concatenate([numpy.array([info.min, info.min + 1, -1, 0, 1, info.max - 1, info.max], dtype='float64'),
                                    nprng.integers(info.min, info.max + 1, cnt).astype('float64')])
        offs = [-0.49, -0.3, 0.0, 0.2, 0.49] + [rng.uniform(-0.499, 0.499) for _ in range(2 if tier == 'quick' else 12)]
        if dt == 'int16':
            offs = [-0.46, -0.3, 0.0, 0.2, 0.46] + [rng.uniform(-0.46, 0.46) for _ in range(2 if tier == 'quick' else 12)]
        # I runs over n + offset, Q over a permutation of the same values; a band of out-of-range values on both sides
        gi = numpy.concatenate([nn + o for o in offs] + [numpy.array([info.max + 0.7, info.max + 73.2, info.min - 0.7, info.min - 72.4])])
        gq = numpy.roll(gi[::-1], 7)
        sf64 = sfs.astype('float64')[:, None]
        z32 = _c64((sf64 * gi[None, :]).astype('float32'), (sf64 * gq[None, :]).astype('float32'))
        bad, inf = ampsf_bounds(dt, sfs, z32)
        stats['quant_ampsf_samples'] = stats.get('quant_ampsf_samples', 0) + z32.size
        stats.setdefault('_classes', set()).update(('ampsf', dt, float(v)) for v in sfs)
        stats['ampsf_out_of_range_not_judged'] = stats.get('ampsf_out_of_range_not_judged', 0) + inf['out_of_range']
        for kind, (i, j), msg in bad:
            fails.append({'kind': kind, 'msg': msg, 'case': {'oracle': 'ampsf', 'dtype': dt, 'sf': float(sfs[i]), 'z': [float(z32[i, j].real), float(z32[i, j].imag)]}})
        if dt == 'int8':
            collected = (sfs, z32, inf['raw'])
    return collected


def _trunc_bounds(dt, order, z32):
    """plain ComplexFormatFunction with an integer IQ / QI raw dtype: no rounding step, the cast truncates toward zero"""
    from sarpy.io.general.format_function import ComplexFormatFunction
    n = z32.size
    ff = ComplexFormatFunction(dt, order, band_dimension=1)
    ff.set_raw_shape((n, 2))
    ff.set_formatted_shape((n,))
    raw = _guard('inverse', ff.inverse, z32, (slice(0, n, 1),))
    i_, q_ = (raw[:, 0], raw[:, 1]) if order == 'IQ' else (raw[:, 1], raw[:, 0])
    out = []
    for name, got, v32 in (('I', i_, z32.real), ('Q', q_, z32.imag)):
        v = v32.astype('float64')
        g = got.astype('float64')
        # the property: no further than one quantisation step (exact arithmetic here: float32 value against an integer)
        idx = numpy.nonzero(numpy.abs(g - v) > 1)[0]
        if idx.size:
            k = int(idx[0])
            out.append(('iq-quant', k, f'{order} {dt}: {name}={float(v[k])!r} is stored as {int(got[k])}: further than one quantisation step; {idx.size} samples'))
        # the rule of the code and of the model (truncation toward zero, Props.C08.truncZ_*): a different in-step rule (e.g. rounding)
        # does not violate the property, it breaks the correspondence
        idx = numpy.nonzero((numpy.abs(g - v) <= 1) & ((numpy.abs(g - v) >= 1) | (numpy.abs(g) > numpy.abs(v)) | (g * v < 0)))[0]
        if idx.size:
            k = int(idx[0])
            out.append(('iq-trunc-rule', k, f'{order} {dt}: {name}={float(v[k])!r} is stored as {int(got[k])}: not the truncation toward zero (|n - v| < 1, |n| <= |v|, same sign); {idx.size} samples'))
    return out, raw


def trunc_bounds(dt, order, z32):
    try:
        return _trunc_bounds(dt, order, z32)
    except Raised as e:
        return [('trunc-quant-raised', 0, f'{e}')], None

def quant_trunc(rng, fails, stats, tier, rule_mismatch):
    nprng = numpy.random.default_rng(rng.getrandbits(32))
    collected = None
    for dt in ('int8', 'int16', 'int32'):
        info = numpy.iinfo(dt)
        hi = min(info.max, 2 ** 22)
        n = 4000 if tier == 'quick' else 100000
        base = numpy.concatenate([numpy.array([0, 1, -1, hi - 1, -hi + 1, info.min if dt != 'int32' else -hi], dtype='float64'), nprng.integers(-hi + 1, hi, n).astype('float64')])
        fr = numpy.concatenate([numpy.array([0.0, 0.5, 0.99]), nprng.uniform(0, 0.999, base.size - 3)])
        v = numpy.where(base >= 0, base + fr, base - fr)
        v = numpy.clip(v, info.min if dt != 'int32' else -hi, min(info.max, hi))
        z32 = _c64(v.astype('float32'), v[::-1].astype('float32'))
        # float32 rounding of an int8/int16 off-grid value never reaches the next integer except at |v| >= 2^17 (int32): keep what is in range
        ok = (numpy.abs(z32.real) <= hi) & (numpy.abs(z32.imag) <= hi)
        z32 = z32[ok]
        for order in ('IQ', 'QI'):
            bad, raw = trunc_bounds(dt, order, z32)
            stats['quant_trunc_samples'] = stats.get('quant_trunc_samples', 0) + z32.size
            stats.setdefault('_classes', set()).add(('trunc', dt, order))
            for kind, k, msg in bad:
                if kind == 'iq-trunc-rule':
                    rule_mismatch.append({'op': 'trunc-rule', 'msg': msg[:300]})
                else:
                    fails.append({'kind': kind, 'msg': msg, 'case': {'oracle': 'trunc', 'dtype': dt, 'order': order, 'z': [float(z32[k].real), float(z32[k].imag)]}})
            if dt == 'int16' and order == 'IQ':
                collected = (z32, raw)
    return collected


def band_order(rng, tier, fails, disagreements, stats):
    """which complex pair order the NITF reader infers from the band subcategories (nitf.py _get_dtype): every pair of bands must carry
    the same labelling, the last pair included; model Spec.NitfDtype (theorems Props/C08Order.lean) vs the implementation on stand-in
    image headers, plus the independent statement of the rule"""
    import types
    from sarpy.io.general import nitf
    pairs = [('I', 'Q'), ('Q', 'I'), ('M', 'P'), ('P', 'M')]
    cases = []
    for _ in range(150 if tier == 'quick' else 3000):
        n = rng.choice([1, 2, 2, 3, 4, 4, 5, 6, 6, 8])
        base = rng.choice(pairs)
        labs = []
        for k in range(n // 2):
            labs += list(base)
        if n % 2:
            labs.append(rng.choice(['I', 'Q', '', 'M']))
        mode = rng.random()
        if mode < 0.45 and n >= 2:
            k = rng.randrange(n // 2) if rng.random() < 0.5 else n // 2 - 1       # often the LAST pair
            alt = rng.choice([p for p in pairs if p != base] + [('', ''), ('I', 'I'), ('R', 'G')])
            labs[2 * k:2 * k + 2] = list(alt)
        elif mode < 0.55:
            labs = [rng.choice(['I', 'Q', 'M', 'P', '', 'R']) for _ in range(n)]
        pv = rng.choice(['SI', 'R', 'INT', 'R'])
        cases.append((labs, pv))
    drv = Driver()
    idx = [drv.ask('nitfdtype order ' + ','.join(l or '_' for l in labs) + ' ' + pv) for labs, pv in cases]
    try:
        ans = drv.run()
    except Infra as e:
        ans = None
        disagreements.append({'kind': 'band-order', 'msg': 'band-order model driver does not build / run: ' + str(e)[:300]})
    for (labs, pv), i in zip(cases, idx):
        stats['band_order_cases'] = stats.get('band_order_cases', 0) + 1
        hdr = types.SimpleNamespace(Bands=[types.SimpleNamespace(ISUBCAT=l, LUTD=None) for l in labs], NBPP=32, PVTYPE=pv)
        try:
            raw_dtype, fdt, fb, order, lut = nitf._get_dtype(hdr)
            impl = f'{order or "N"} {fb} 1'
        except ValueError:
            impl = 'refused'
        except Exception as e:
            impl = 'raised ' + type(e).__name__
        # the rule, stated independently: all pairs equal to the first pair, which is one of the four labellings
        want = None
        if len(labs) % 2 == 0 and len(labs) >= 2 and (labs[0], labs[1]) in pairs and all((labs[k], labs[k + 1]) == (labs[0], labs[1]) for k in range(0, len(labs), 2)):
            want = labs[0] + labs[1]
        ok_pv = want is None or (pv in ('SI', 'R') if want in ('IQ', 'QI') else pv in ('INT', 'R'))
        expect = 'refused' if not ok_pv else f'{want or "N"} {len(labs) // 2 if want else len(labs)} 1'
        if impl != expect:
            fails.append({'kind': 'band-order', 'msg': f'NITF band subcategories {labs} (PVTYPE {pv}): the reader infers {impl}, the labelling rule gives {expect} '
                                                       f'(bands may be combined into complex samples only when every pair carries the same labels)', 'case': {'labels': labs, 'pvtype': pv}})
        if ans is not None:
            m = ans[i].split()
            model = 'refused' if m[2] == '0' else f'{m[0]} {m[1]} 1'
            if model != impl:
                disagreements.append({'kind': 'band-order', 'msg': f'band subcategories {labs} (PVTYPE {pv}): model {model} vs implementation {impl}'})


def run(tier):
    sarpy_guard()
    from sarpy.io.general.format_function import ComplexFormatFunction
    chk = Check('C08', tier)
    rng = chk.rng
    broken = chk.prove(['SarpyModel.Props.C08', 'SarpyModel.Props.C08Order', 'SarpyModel.Drivers'], 'SarpyModel.Props.C08', 'Sarpy.Props.C08', REQUIRED,
                       extra=[('SarpyModel.Props.C08Order', 'Sarpy.Props.C08Order',
                               ['pairOrder_labels', 'complexOrder_cons', 'allPairs_append_pair', 'complexOrder_last_pair', 'allPairs_length',
                                'complexOrder_even', 'formattedBands_complex', 'formattedBands_plain'])])
    fails, stats, disagreements = [], {}, []
    exhaustive_mp(fails, stats)
    exhaustive_table(rng, fails, stats, 2 if tier == 'quick' else 12)
    seen = matrix(rng, fails, stats, 300 if tier == 'quick' else 5000)
    ampsf(rng, fails, stats, 60 if tier == 'quick' else 1000)
    # quantisation bounds for arbitrary in-range values: bound oracles on the implementation
    got_u8 = quant_mp_u8(rng, fails, stats, tier)
    got_u16 = quant_mp_u16(rng, fails, stats, tier)
    got_tab, tie_cases = quant_table(rng, fails, stats, tier, disagreements)
    got_sf = quant_ampsf(rng, fails, stats, tier)
    got_tr = quant_trunc(rng, fails, stats, tier, disagreements)
    # model correspondence at Float
    drv = Driver()
    jobs = []
    nq = 1500 if tier == 'quick' else 20000
    qjobs = []      # quantised encoder: (bits, z, impl M, impl P, driver line)
    for bits, src in ((8, list(got_u8.values())), (16, [got_u16] if got_u16 else [])):
        for z32, info in src:
            if 'M' not in info:
                continue
            pick = sorted(rng.sample(range(z32.size), min(nq, z32.size)))
            for k in pick:
                zz = complex(z32[k])
                if abs(zz) > (1 << bits) - 1:
                    continue
                qjobs.append((bits, zz, int(info['M'][k]), int(info['P'][k]), drv.ask(f'codec encq {bits} {fb(zz.real)} {fb(zz.imag)}')))
    sjobs = []      # AmpSF int8: (sf, z, impl I, impl Q, line)
    if got_sf is not None and got_sf[2] is not None:
        sfs, z32, raw = got_sf
        for _ in range(nq):
            i, j = rng.randrange(z32.shape[0]), rng.randrange(z32.shape[1])
            zz = complex(z32[i, j])
            u = (zz.real / float(sfs[i]), zz.imag / float(sfs[i]))
            if not all(-128 <= t <= 127 for t in u):
                continue
            sjobs.append((float(sfs[i]), zz, int(raw[i, j, 0]), int(raw[i, j, 1]), drv.ask(f'codec ampq {fb(float(sfs[i]))} {fb(zz.real)} {fb(zz.imag)}')))
    rjobs = []      # truncation int16 IQ
    if got_tr is not None and got_tr[1] is not None:
        z32, raw = got_tr
        for k in rng.sample(range(z32.size), min(nq // 3, z32.size)):
            rjobs.append((float(z32[k].real), int(raw[k, 0]), drv.ask(f'codec trunc {fb(float(z32[k].real))}')))
    njobs = []      # nearest table entry, off-grid magnitudes
    if got_tab is not None:
        t32, z32, idx = got_tab
        tline = ','.join(fb(t) for t in t32)
        for k in rng.sample(range(z32.size), 150 if tier == 'quick' else 2000):
            mg = float(numpy.abs(z32[k].astype('complex128')))
            njobs.append((mg, int(idx[k]), drv.ask(f'codec nearest {tline} {fb(mg)}')))
    ejobs = []      # exact ties (exact in float32 and float64): the model and the implementation must pick the same index
    for t32, mags, idx in tie_cases:
        tline = ','.join(fb(t) for t in t32)
        for k in rng.sample(range(mags.size), min(mags.size, 40 if tier == "quick" else 400)):
            ejobs.append((float(mags[k]), int(idx[k]), drv.ask(f'codec nearest {tline} {fb(float(mags[k]))}')))
    hjobs = []      # the rounding rule itself: ties to even (exactly representable halves), and off-tie values
    for v in [k + 0.5 for k in range(-12, 13)] + [rng.randint(-10 ** 6, 10 ** 6) + 0.5 for _ in range(40)] + [rng.uniform(-1000, 1000) for _ in range(40)]:
        hjobs.append((v, drv.ask(f'codec rint {fb(v)}')))
    for bits, dt in ((8, 'uint8'), (16, 'uint16')):
        top = (1 << bits)
        samples = [(m, p) for m in (1, 2, top // 2, top - 1) for p in (0, 1, top // 4, top // 2, top // 2 + 1, top - 1)]
        samples += [(rng.randrange(1, top), rng.randrange(top)) for _ in range(200 if tier == 'quick' else 3000)]
        ff = ComplexFormatFunction(dt, 'MP', band_dimension=1)
        ff.set_raw_shape((len(samples), 2))
        ff.set_formatted_shape((len(samples),))
        raw = numpy.array(samples, dtype=dt)
        z = ff(raw, (slice(0, len(samples), 1), slice(0, 2, 1)), squeeze=False)
        for (m, p), zz in zip(samples, z):
            jobs.append((bits, m, p, complex(zz), drv.ask(f'codec decmp {bits} {fb(m)} {fb(p)}'), drv.ask(f'codec encmp {bits} {fb(zz.real)} {fb(zz.imag)}')))
    tab = numpy.cumsum(numpy.array([rng.uniform(0.01, 3.0) for _ in range(256)])).astype('float32')
    tjobs = [(k, drv.ask('codec nearest ' + ','.join(fb(t) for t in tab) + ' ' + fb(tab[k]))) for k in range(0, 256, 5)]
    pjobs = []
    for _ in range(20):
        l = [rng.randint(-9, 9) for _ in range(2 * rng.randint(0, 5))]
        if l:
            pjobs.append((l, drv.ask('codec pairs ' + ','.join(map(str, l)))))
    try:
        ans = drv.run()
        for bits, m, p, zz, i1, i2 in jobs:
            stats['model_cases'] = stats.get('model_cases', 0) + 1
            x, y = (bf(t) for t in ans[i1].split())
            if abs(complex(x, y) - zz) > 3e-6 * max(1.0, abs(zz)):
                disagreements.append({'bits': bits, 'm': m, 'p': p, 'model': [x, y], 'impl': [zz.real, zz.imag]})
            mag, ph = (bf(t) for t in ans[i2].split())
            if round(mag) != m or round(ph) % (1 << bits) != p:
                disagreements.append({'bits': bits, 'm': m, 'p': p, 'model_encode': [mag, ph]})
        for k, i in tjobs:
            stats['model_cases'] = stats.get('model_cases', 0) + 1
            if int(ans[i]) != k:
                disagreements.append({'table_index': k, 'model': ans[i]})

        def near_half(v, band):
            return abs((v % 1.0) - 0.5) <= band

        for bits, zz, im, ip, i in qjobs:
            stats['model_cases'] = stats.get('model_cases', 0) + 1
            stats['model_quant_cases'] = stats.get('model_quant_cases', 0) + 1
            qm, qp, um, ut = (bf(t) for t in ans[i].split())
            bad_m = int(qm) != im and not near_half(um, BAND[bits])
            bad_p = int(qp) != ip and not near_half(ut, BAND[bits])
            if int(qm) != im or int(qp) != ip:
                if bad_m or bad_p:
                    disagreements.append({'op': 'encq', 'bits': bits, 'z': [zz.real, zz.imag], 'model': [int(qm), int(qp)], 'model_unrounded': [um, ut], 'impl': [im, ip]})
                else:
                    stats['model_near_tie'] = stats.get('model_near_tie', 0) + 1
        for sf, zz, ii, iq, i in sjobs:
            stats['model_cases'] = stats.get('model_cases', 0) + 1
            stats['model_ampsf_cases'] = stats.get('model_ampsf_cases', 0) + 1
            q1, q2, u1, u2 = (bf(t) for t in ans[i].split())
            if (int(q1) != ii and not near_half(u1, BAND[8])) or (int(q2) != iq and not near_half(u2, BAND[8])):
                disagreements.append({'op': 'ampq', 'sf': sf, 'z': [zz.real, zz.imag], 'model': [int(q1), int(q2)], 'impl': [ii, iq]})
            elif int(q1) != ii or int(q2) != iq:
                stats['model_near_tie'] = stats.get('model_near_tie', 0) + 1
        for v, iv, i in rjobs:
            stats['model_cases'] = stats.get('model_cases', 0) + 1
            if int(bf(ans[i])) != iv:
                disagreements.append({'op': 'trunc', 'v': v, 'model': bf(ans[i]), 'impl': iv})
        if got_tab is not None:
            T = got_tab[0].astype('float64')
            for mg, iv, i in njobs:
                stats['model_cases'] = stats.get('model_cases', 0) + 1
                mv = int(ans[i])
                if mv != iv:
                    # the two candidates are equally near within float32 noise: a tie, either index is a nearest entry
                    if abs(abs(T[mv] - mg) - abs(T[iv] - mg)) <= 4e-6 * max(1.0, mg):
                        stats['model_near_tie'] = stats.get('model_near_tie', 0) + 1
                    else:
                        disagreements.append({'op': 'nearest', 'x': mg, 'model': mv, 'impl': iv})
        for mg, iv, i in ejobs:
            stats['model_cases'] = stats.get('model_cases', 0) + 1
            stats['model_tie_cases'] = stats.get('model_tie_cases', 0) + 1
            if int(ans[i]) != iv:
                disagreements.append({'op': 'nearest-tie', 'x': mg, 'model': int(ans[i]), 'impl': iv})
        for v, i in hjobs:
            stats['model_cases'] = stats.get('model_cases', 0) + 1
            if bf(ans[i]) != float(numpy.rint(v)) or bf(ans[i]) != float(numpy.round(numpy.float64(v))):
                disagreements.append({'op': 'rint', 'v': v, 'model': bf(ans[i]), 'numpy': float(numpy.rint(v))})
        for l, i in pjobs:
            stats['model_cases'] = stats.get('model_cases', 0) + 1
            pairs, back = ans[i].split(' ')
            want = ';'.join(f'{l[j]},{l[j + 1]}' for j in range(0, len(l), 2))
            if pairs != want or back != ','.join(map(str, l)):
                disagreements.append({'list': l, 'model': ans[i]})
    except Infra as e:
        broken.append('model driver does not build/run: ' + str(e)[:300])
    qclasses = len(stats.pop('_classes', set()))
    stats['quant_classes'] = qclasses
    quant_total = sum(stats.get(k, 0) for k in ('quant_u8_samples', 'quant_u16_samples', 'quant_table_samples', 'quant_table_ties',
                                                'quant_ampsf_samples', 'quant_trunc_samples'))
    chk.coverage.update({
        'evaluations': stats.get('exhaustive_pairs', 0) + stats.get('matrix_cases', 0) + stats.get('ampsf_cases', 0) + stats.get('model_cases', 0) + quant_total,
        # stored-pair classes (8) + matrix tuples (measured) + off-grid classes (measured: uint8 order x offset pair, uint16 order x block,
        # table x {interior, outside, tie}, AmpSF dtype x scale factor, truncation dtype x order)
        'distinct_nontrivial': len(seen) + 8 + qclasses,
        'exhaustive': True,
        'rule': 'exhaustive: all 65536 (magnitude, phase) byte pairs x {MP, PM} x {collapsed, kept band axis} and x 5+ strictly increasing amplitude tables (linear, convex, concave, random); '
                'off-grid exhaustive (uint8 MP and PM): every m in 0..255 x p in 0..255 shifted by every listed (dm, dp) offset pair in (-1/2, 1/2) incl. +-0.49, +-0.498 and a seeded random pair, |z| <= 255 judged; '
                'uint16: deterministic boundary block (6 boundary phases x 5 offsets x 13 magnitudes) + 2^16 seeded samples (2^20 thorough) concentrated near magnitude 0 / 2^16-1 and near +-1/2 offsets; '
                'amplitude tables: every interval k in 0..254 x 256 interior positions + 6 values outside the table, 6+ tables incl. one with plateaus; exact ties on 2 integer tables x 4 axis directions; '
                'AmpSF: int8 all 256 integers x 7 offsets x 8 scale factors (one negative) + out-of-range values, int16 sampled; integer IQ/QI truncation int8/16/32; '
                'sampled: dtype x order x band-axis position x collapsed matrix (distinct tuples counted), AmpSF vectors with offset/strided sub-regions, 16-bit MP pairs incl. boundary phases; '
                'model correspondence at Float on boundary and random stored pairs and on off-grid inputs (quantised encoder 8/16 bit, AmpSF int8, truncation, nearest table entry, the rounding rule on exact halves)',
        'samples': [{'order': 'PM', 'dtype': 'uint8', 'pair': [200, 17]}, {'table': 'cumsum(U(0.01,3))', 'pair': [255, 128]},
                    {'oracle': 'mp', 'dtype': 'uint8', 'z': '100.49 * exp(2 pi i 254.51 / 256)'}, {'oracle': 'ampsf', 'dtype': 'int8', 'sf': -0.75, 'v': '-0.75 * 17.49'}],
        'tie_bands_steps': BAND,
        'stats': stats, 'traces_validated_against_impl': stats.get('model_cases', 0), 'disagreements_checked': len(disagreements)})
    chk.assumptions += [
        'IEEE rounding of cos/sin/atan2 in numpy is not proved: covered exhaustively for 8-bit pairs and by sampling for 16-bit',
        'zero magnitude with non-zero phase cannot be a fixed point (Props.C08.decodeMP_zero): counted, inherent in the format',
        'int32/uint32 samples are exercised up to 2^23 only: complex64 cannot carry more (stated hypothesis, not checked beyond)',
        'Float instance of the model uses Lean core Float.cos/sin/atan2/sqrt (C library)',
        'quantisation theorems are over the reals for any nearest-integer rule; the implementation evaluates |z|, atan2, the 2^b/(2 pi) scaling and 1/sf in float32: '
        'an input whose un-rounded value lies within the tie band of a half-integer (8 bit 1e-3, 16 bit 3e-2 steps; measured noise 3e-5 / 7.5e-3) may round either way, '
        'oracles allow that band and the correspondence counts such cases as near-tie (IsNearest.stable is the proved reason nothing else may differ)',
        'out-of-range inputs are not covered by the property and not judged: round(|z|) >= 2^b wraps through the unsigned cast (255.5 -> 0), AmpSF samples with '
        'v/sf outside the signed range wrap through the C cast (no clipping in the code); they are generated, counted (quant_out_of_range_not_judged, '
        'ampsf_out_of_range_not_judged) and skipped',
        'the reduction of the rounded phase 2^b to 0 is done by the float -> unsigned cast of numpy on this platform (x86-64); the model states it as mod 2^b and the wrap oracle checks it',
        'uint32 magnitude/phase quantisation is not exercised off-grid: float32 carries 24 bits, the scaled phase is not resolved to a step']
    band_order(rng, tier, fails, disagreements, stats)
    unknown = [f for f in fails if not (f.get('key') and chk.known(f['key']))]
    for f in unknown[:5]:
        chk.violation(f['msg'], {'case': f, 'replay_cmd': './check C08 --replay <this file>'}, True)
    if len(unknown) > 5:
        chk.notes.append(f'{len(unknown)} failing inputs found, first 5 reported')
    if not unknown and (broken or disagreements):
        chk.violation('proof obligation or correspondence no longer checks: ' + '; '.join(broken[:3] + [json.dumps(d, default=str)[:300] for d in disagreements[:2]]),
                      {'broken_obligations': broken, 'disagreements': disagreements[:10]}, False)
    chk.coverage['failing_inputs'] = len(fails)
    kinds = {}
    for f in fails:
        kinds[f.get('kind', '?')] = kinds.get(f.get('kind', '?'), 0) + 1
    chk.coverage['failing_kinds'] = kinds
    chk.coverage['disagreement_ops'] = sorted({str(d.get('op', 'stored-pair')) for d in disagreements})
    return chk.finish()


def replay(path):
    """re-run a stored failing case on the implementation: prints the stored record, re-evaluates the bound oracles for the
    quantisation kinds; returns 1 when the case still fails (or cannot be re-evaluated), 0 when it passes now"""
    rec = json.load(open(path))
    f = rec.get('case', {})
    print(json.dumps(f)[:2000])
    case = f.get('case') if isinstance(f, dict) else None
    if not isinstance(case, dict) or 'oracle' not in case:
        return 1
    sarpy_guard()
    z32 = _c64(numpy.array([case['z'][0]], dtype='float32'), numpy.array([case['z'][1]], dtype='float32'))
    if case['oracle'] == 'mp':
        bad, info = mp_bounds(case['dtype'], case['order'], z32)
        print(f"stored now as M={info['M'].tolist() if 'M' in info else None} P={info['P'].tolist() if 'P' in info else None}")
    elif case['oracle'] == 'table':
        bad, idx = table_bounds(numpy.array(case['table'], dtype='float32'), z32, None if 'expect' not in case else numpy.array([case['expect']]))
        print(f'stored now as index {idx.tolist()}')
    elif case['oracle'] == 'ampsf':
        bad, info = ampsf_bounds(case['dtype'], numpy.array([case['sf']], dtype='float32'), z32.reshape(1, 1))
        print(f"stored now as {info['raw'].tolist()}")
    elif case['oracle'] == 'trunc':
        bad, raw = trunc_bounds(case['dtype'], case['order'], z32)
        print(f'stored now as {raw.tolist()}')
    else:
        return 1
    for kind, _k, msg in bad:
        print(f'STILL FAILS [{kind}] {msg}')
    if not bad:
        print('bounds hold now for this input')
    return 1 if bad else 0
