"""C19, extension: object kinds whose life cycle goes through reader construction phases, blocked image segments, or
shared children.  Used by harness/c19.py (`run_case` dispatches on `case['machine']`).

  machine 'C'  reader construction (Spec.Lifecycle part (c), request `life C ...`)
        ckind 'nitf'    NITFReader over a generated NITF whose image segments are JPEG (IC=C3, one block or 2 x 2 blocks),
                        JPEG 2000 (IC=C8) or uncompressed - the compressed ones make sarpy create `*.sarpy_cache` temp
                        files while the segments are built, before BaseReader.__init__ runs; path / real file / BytesIO
        ckind 'reinit'  a BaseReader subclass whose __init__ runs a random plan of phases: own guarded list initialisation,
                        temp files created and registered before the base initialisation, BaseReader.__init__ called once
                        or several times (re-entrant) with delete_files
  machine 'B'  writers over blocked image segments (part (d), request `life B ...`)
        kind 'GNITF'    general NITFWriter: one or two image segments (stacked in one collection, or two collections), each
                        blocked (NPPBV / NPPBH, padded last blocks) or not, optional text / DES segments after the images
        kind 'BSICD'    SICDWriter over SICDWritingDetails with row_limit (several image segments) and / or blocked subheaders
        kind 'BSIDD'    SIDDWriter (one or two product images) with row_limit and / or blocked subheaders
        targets: new path / existing path (check on, off) / caller's BytesIO / caller-opened real file; chunks are rectangles
        of a random grid, in random or adversarial order (the cells of the LAST block of an image segment first), with
        non-forced flushes in between; ground truth is kept per pixel by the harness, byte positions of every pixel are
        learnt from reference outputs
  machine 'D'  readers sharing children (a DAG): AggregateReader over readers that share a segment, the same reader twice,
        a reader over the same segment twice, aggregates of aggregates; run against the tree machine through the tree
        unfolding of the DAG (an object is closed iff one of its copies is), temp files of inner readers by the oracle only
"""
import gc
import io
import os
import tempfile

import numpy

from common import Infra, REPO
from c19 import CapBytesIO, OpenTracker, call, bits, _real_open, declared_size, preorder, node_tokens, oracle_reader, \
    gen_rops, _Null

# ================================================================================================ compressed NITF files

CKINDS = ('C3', 'C3b', 'C8', 'NC')
COMPRESSED = ('C3', 'C3b', 'C8')


def _enc(a, fmt):
    from PIL import Image
    bio = io.BytesIO()
    if fmt == 'JPEG':
        Image.fromarray(a).save(bio, format='JPEG', quality=95)
    else:
        Image.fromarray(a).save(bio, format='JPEG2000', irreversible=False)
    return bio.getvalue()


def pil_ok():
    try:
        from PIL import features
        return bool(features.check('jpg')), bool(features.check('jpg_2000'))
    except Exception:
        return False, False


def _comp_segment(kind, idx, rows=16, cols=16):
    from sarpy.io.general.nitf_elements.image import ImageSegmentHeader, ImageBands, ImageBand
    yy, xx = numpy.mgrid[0:rows, 0:cols]
    a = (40 + 5 * yy + 3 * xx + 11 * idx).astype('uint8')         # smooth: JPEG error stays small
    kw = dict(IID1='IMG%03d' % idx, NROWS=rows, NCOLS=cols, PVTYPE='INT', IREP='MONO', ICAT='VIS', ABPP=8, NBPP=8, IDLVL=idx + 1, IALVL=0,
              ILOC='0000000000', ICORDS='', Bands=ImageBands(values=[ImageBand(IREPBAND='M')]))
    if kind == 'NC':
        return ImageSegmentHeader(IC='NC', IMODE='B', NBPR=1, NBPC=1, NPPBH=cols, NPPBV=rows, **kw), a.tobytes(), a
    if kind == 'C3':
        return ImageSegmentHeader(IC='C3', COMRAT='00.0', IMODE='B', NBPR=1, NBPC=1, NPPBH=cols, NPPBV=rows, **kw), _enc(a, 'JPEG'), a
    if kind == 'C3b':
        hr, hc = rows // 2, cols // 2
        b = b''.join(_enc(numpy.ascontiguousarray(a[i * hr:(i + 1) * hr, j * hc:(j + 1) * hc]), 'JPEG') for i in range(2) for j in range(2))
        return ImageSegmentHeader(IC='C3', COMRAT='00.0', IMODE='B', NBPR=2, NBPC=2, NPPBH=hc, NPPBV=hr, **kw), b, a
    if kind == 'C8':
        return ImageSegmentHeader(IC='C8', COMRAT='N000', IMODE='B', NBPR=1, NBPC=1, NPPBH=cols, NPPBV=rows, **kw), _enc(a, 'J2K'), a
    raise Infra('unknown compressed segment kind ' + kind)


def build_compressed_nitf(path, kinds):
    """a NITF 2.1 file with one image segment per entry of `kinds`, written through sarpy's own header classes"""
    from sarpy.io.general.nitf import NITFWritingDetails, ImageSubheaderManager
    from sarpy.io.general.nitf_elements.nitf_head import NITFHeader
    segs = [_comp_segment(k, i) for i, k in enumerate(kinds)]
    det = NITFWritingDetails(NITFHeader(CLEVEL=3, OSTAID='verif', FDT='20200101000000', FTITLE='compressed', FL=0),
                             image_managers=tuple(ImageSubheaderManager(h, b) for h, b, _ in segs),
                             image_segment_collections=tuple((i, ) for i in range(len(segs))))
    det.set_first_image_offset()
    det.set_all_sizes(require=True)
    if not det.verify_all_offsets(require=False):
        raise Infra('could not lay out the generated compressed NITF')
    with _real_open(path, 'wb') as f:
        det.write_all_populated_items(f)
    return [a for _, _, a in segs]


# ================================================================================================ machine C

def gen_ctor_case(rng, only=None):
    jpg, j2k = pil_ok()
    ck = only or rng.choice(['nitf', 'nitf', 'reinit'])
    if ck == 'nitf' and not jpg:
        ck = 'reinit'
    if ck == 'nitf':
        pool = [k for k in CKINDS if (k != 'C8' or j2k)]
        n = rng.choice([1, 1, 2, 3])
        kinds = [rng.choice(pool) for _ in range(n)]
        if not any(k in COMPRESSED for k in kinds):
            kinds[rng.randrange(n)] = 'C3'
        tgt = rng.choice(['path', 'path', 'real', 'mem'])
        root = {'k': 'filereader', 'prop': True, 'file': 0, 'cf': tgt == 'path',
                'kids': [{'k': 'cache' if k in COMPRESSED else 'fileseg', 'prop': True, 'file': None, 'cf': False, 'kids': []} for k in kinds]}
        temps = [i for i, k in enumerate(kinds) if k in COMPRESSED]
        plan = ['n'] + [f't{j}' for j in range(len(temps))] + ['b:-']
        return {'machine': 'C', 'ckind': 'nitf', 'segs': kinds, 'ftarget': tgt, 'root': root, 'nfiles': 1, 'pre': [],
                'plan': plan, 'ops': gen_rops(rng, root)}
    # a reader class with a re-entrant construction plan
    nk = rng.choice([1, 2])
    root = {'k': 'reader', 'prop': rng.random() < 0.8, 'file': None, 'cf': False,
            'kids': [{'k': 'array', 'prop': True, 'file': None, 'cf': False, 'kids': []} for _ in range(nk)]}
    nid = [0]

    def fresh():
        nid[0] += 1
        return nid[0] - 1
    plan, pre, known = [], [], []
    style = rng.choice(['nitf-like', 'twice', 'mixed'])
    if style == 'nitf-like':
        plan.append('n')
        for _ in range(rng.randint(1, 3)):
            t = fresh()
            plan.append(f't{t}')
            known.append(t)
        extra = []
        for _ in range(rng.randint(0, 2)):
            e = fresh()
            pre.append(e)
            extra.append(e)
        plan.append('b:' + (','.join(map(str, extra)) or '-'))
    elif style == 'twice':
        for j in range(rng.randint(2, 3)):
            extra = []
            for _ in range(rng.randint(0, 2)):
                e = fresh()
                pre.append(e)
                extra.append(e)
            if known and rng.random() < 0.5:
                extra.append(rng.choice(known))          # handed in again: must not be registered twice
            known += [e for e in extra if e not in known]
            plan.append('b:' + (','.join(map(str, extra)) or '-'))
    else:
        plan.append(rng.choice(['n', 'b:-']))
        for _ in range(rng.randint(2, 5)):
            r = rng.random()
            if r < 0.45:
                t = fresh()
                plan.append(f't{t}')
                known.append(t)
            elif r < 0.6:
                plan.append('n')
            else:
                extra = []
                if rng.random() < 0.6:
                    e = fresh()
                    pre.append(e)
                    extra.append(e)
                if known and rng.random() < 0.4:
                    extra.append(rng.choice(known))
                known += [e for e in extra if e not in known]
                plan.append('b:' + (','.join(map(str, extra)) or '-'))
        if not any(p.startswith('b') for p in plan[1:]) and not plan[0].startswith('b'):
            plan.append('b:-')
    return {'machine': 'C', 'ckind': 'reinit', 'root': root, 'nfiles': 0, 'pre': pre, 'plan': plan, 'ops': gen_rops(rng, root)}


def ctor_line(case):
    pre = ','.join(map(str, case['pre'])) or '-'
    return f"life C {case['nfiles']} {pre} " + ' '.join(case['plan']) + ' / ' + ' '.join(node_tokens(case['root'])) + ' | ' + ' '.join(case['ops'])


def plan_ids(case):
    """ids in the order the model prints them: pre-existing files, then the files construction creates"""
    made = [int(p[1:]) for p in case['plan'] if p.startswith('t')]
    return list(case['pre']) + made


def run_ctor_case(case, scratch, refs=None):
    """returns (trace, oracle failures, info); trace[0] is the construction token"""
    from sarpy.io.general.base import BaseReader
    from sarpy.io.general.data_segment import NumpyArraySegment
    fails = []

    def fail(key, msg, step):
        fails.append({'key': key, 'msg': msg, 'step': step, 'case': case})

    tdir = os.path.join(scratch, 'tmpdir')
    os.makedirs(tdir)
    old_tempdir = tempfile.tempdir
    tempfile.tempdir = tdir
    tracker = caller = None
    holder = [None]
    paths = {}             # id -> path of a temp file
    try:
        if case['ckind'] == 'nitf':
            src = os.path.join(scratch, 'in.ntf')
            build_compressed_nitf(src, case['segs'])
            tracker = OpenTracker(scratch)
            with tracker:
                tgt = case['ftarget']
                if tgt == 'path':
                    arg = src
                elif tgt == 'real':
                    arg = caller = _real_open(src, 'rb')
                else:
                    with _real_open(src, 'rb') as f:
                        arg = caller = io.BytesIO(f.read())
                tracker.handles.clear()
                from sarpy.io.general.nitf import NITFReader
                out, ecls, rd = call(lambda: NITFReader(arg))
                if out != 'ok':
                    fail('', f'NITFReader over a NITF with image segments {case["segs"]} raised {ecls}', -1)
                    return ['fail'], fails, {'exc': {ecls: 1}, 'nodes': 0}
                holder[0] = rd
                # the reader's own handle on the NITF (cache files are opened and closed again while they are filled)
                tracker.handles[:] = [h for h in tracker.handles if not str(h.name).endswith('.sarpy_cache')]
            segs = list(rd.get_data_segment_as_tuple())
            rd = None
            cache = sorted(f for f in os.listdir(tdir))
            # how many cache files sarpy creates is its own business: a count other than one per compressed segment shows up as a
            # model / implementation disagreement (the plan of the request has one `t` per compressed segment), not as a failure
            for j, f in enumerate(cache):
                paths[j] = os.path.join(tdir, f)
            ids = list(range(len(cache)))
        else:
            for e in case['pre']:
                paths[e] = os.path.join(tdir, f'handed{e}.tmp')
                with _real_open(paths[e], 'wb') as f:
                    f.write(b'temp')
            plan = case['plan']
            last_b = max(i for i, p in enumerate(plan) if p.startswith('b'))
            segs = [NumpyArraySegment(numpy.arange(12, dtype='uint16').reshape(3, 4) + 100 * j, mode='r') for j in range(len(case['root']['kids']))]
            prop = case['root']['prop']

            class Planned(BaseReader):
                def __init__(self):
                    for i, ph in enumerate(plan):
                        if ph == 'n':
                            # the form NITFReader.__init__ uses (nitf.py:1250-1255)
                            try:
                                _ = self._delete_temp_files
                            except AttributeError:
                                self._delete_temp_files = []
                        elif ph[0] == 't':
                            t = int(ph[1:])
                            fi, name = tempfile.mkstemp(suffix='.sarpy_cache', text=False)
                            os.close(fi)
                            paths[t] = name
                            self._delete_temp_files.append(name)
                        else:
                            extra = [paths[int(e)] for e in ph[2:].split(',')] if ph[2:] != '-' else []
                            BaseReader.__init__(self, segs if i == last_b else None, close_segments=prop,
                                                delete_files=(extra if extra else None))

            out, ecls, rd = call(Planned)
            if out != 'ok':
                return ['fail'], fails, {'exc': {ecls: 1}, 'nodes': 0, 'ctor_failed': True}
            holder[0] = rd
            rd = None
            ids = plan_ids(case)
        objs = [holder[0]] + segs
        nodes = preorder(case['root'])
        if len(objs) != len(nodes):
            raise Infra(f'built {len(objs)} objects for {len(nodes)} nodes')
        reg_seen = [i for i in ids if paths.get(i) in set(holder[0].files_to_delete_on_close)]
        trace = ['init']
        obs, exc_classes, base = [], {}, {}
        gone, root_flag = False, False

        def flags():
            return [(root_flag if (i == 0 and gone) else bool(o.closed)) for i, o in enumerate(objs)]

        def files_open():
            if case['nfiles'] == 0:
                return []
            return [(not caller.closed) if caller is not None else tracker.any_open()]

        def temps():
            return [os.path.exists(paths[i]) for i in ids]

        with (tracker if tracker is not None else _Null()):
            for step, op in enumerate(case['ops']):
                before = (flags(), files_open(), temps())
                if gone:
                    out, ecls = 'gone', None
                elif op[0] == 'r':
                    i = int(op[1:])
                    out, ecls, v = call(lambda: objs[0].read(index=i))
                    if out == 'ok':
                        if not isinstance(v, numpy.ndarray) or v.size == 0:
                            fail('', f'step {step} {op}: read returned {type(v).__name__} without data', step)
                        elif i in base and not numpy.array_equal(base[i], v):
                            fail('', f'step {step} {op}: a repeated read returned different data', step)
                        else:
                            base[i] = v
                elif op == 'c':
                    out, ecls, _ = call(lambda: objs[0].close())
                elif op == 'x':
                    def f():
                        with objs[0]:
                            pass
                    out, ecls, _ = call(f)
                elif op == 'e':
                    out, ecls, _ = call(lambda: objs[0].__exit__(ValueError, ValueError('x'), None))
                elif op == 'd':
                    root_flag = True
                    objs[0] = None
                    holder[0] = None
                    gc.collect()
                    gone = True
                    out, ecls = 'ok', None
                else:
                    raise Infra('bad op ' + op)
                if ecls:
                    exc_classes[ecls] = exc_classes.get(ecls, 0) + 1
                fl, fo, tp = flags(), files_open(), temps()
                trace.append(f'{out}:{bits(fl)}:{bits(fo)}:{bits(tp)}')
                obs.append({'op': op, 'out': out, 'exc': ecls, 'flags': fl, 'files': fo, 'temps': tp, 'before': before, 'gone': gone})
        oracle_reader(case, nodes, obs, fail)
        # nothing else may be left behind in the temp directory once the reader is closed
        if obs and (any(o['op'] in 'cxed' for o in obs)):
            left = sorted(os.listdir(tdir))
            if left:
                fail('', f'after close {len(left)} file(s) are left in the temp directory: {left[:3]}', len(obs) - 1)
        info = {'exc': exc_classes, 'nodes': len(nodes), 'registered_at_end_of_construction': len(reg_seen), 'created': len(ids)}
        return trace, fails, info
    finally:
        tempfile.tempdir = old_tempdir
        if tracker is not None:
            for h in tracker.handles:
                try:
                    h.close()
                except Exception:
                    pass
        if caller is not None:
            caller.close()
        if holder[0] is not None:
            call(holder[0].close)
        holder[0] = None
        gc.collect()


def compare_ctor(model_line, trace, fails):
    mt = model_line.split(' ')
    if mt == ['fail'] or trace == ['fail']:
        return [] if mt == trace else [f'construction: model {mt[0]} implementation {trace[0]}']
    if len(mt) != len(trace):
        return [f'model answered {len(mt)} tokens for {len(trace)}: {model_line[:120]}']
    out = []
    for k, (m, t) in enumerate(zip(mt[1:], trace[1:])):
        if m != t:
            out.append(f'step {k}: model {m} implementation {t}')
    return out


# ================================================================================================ machine B

BKINDS = ('GNITF', 'BSICD', 'BSIDD')

# Reading of "a file object supplied by the caller ... holds the complete output after the writer closes": everything has been
# handed to the file object (its buffer is part of it).  NITFWriter.close() does not flush a caller-opened buffered file, so the
# PATH can lag behind until the caller flushes / closes its object (CPHDWriter1.close() does flush).  Counted in the evidence
# (coverage.caller_real_file_lags_until_caller_flush_after_close); set this to True to treat the lag as a failure under the key below.
STRICT_PATH_COMPLETE_AT_CLOSE = False
K_LAG = 'NITFWriter.close-leaves-output-in-caller-buffer'


def _segmentation(rows, limit):
    if not limit or limit >= rows:
        return [(0, rows)]
    return [(a, min(a + limit, rows)) for a in range(0, rows, limit)]


def _block_grid(rows, cols, bv, bh):
    """valid rectangles (r0, c0, h, w) of the blocks of a rows x cols image with block size bv x bh (0: unblocked along that axis)"""
    bv = bv or rows
    bh = bh or cols
    out = []
    for r in range(0, rows, bv):
        for c in range(0, cols, bh):
            out.append((r, c, min(bv, rows - r), min(bh, cols - c)))
    return out


def gen_blocked_cfg(rng, kind):
    if kind == 'GNITF':
        nimg = rng.choice([1, 1, 2])
        stacked = nimg == 2 and rng.random() < 0.6
        cols = rng.randint(3, 6)
        images = []
        for k in range(nimg):
            c = cols if stacked else rng.randint(3, 6)
            images.append({'rows': rng.randint(2, 5), 'cols': c, 'bv': rng.choice([0, 2, 2, 3]), 'bh': rng.choice([0, 2, 3, 4])})
        if not any(im['bv'] or im['bh'] for im in images):
            images[-1]['bv'] = 2
        return {'images': images, 'stacked': stacked, 'nbpp': rng.choice([8, 16]), 'text': rng.choice([0, 0, 1]), 'des': rng.choice([0, 0, 1])}
    if kind == 'BSICD':
        rows, cols = rng.randint(4, 7), rng.randint(3, 6)
        limit = rng.choice([0, 2, 3])
        bv, bh = rng.choice([(0, 0), (2, 0), (2, 2), (2, 3), (3, 2), (0, 2)])
        if not limit and not (bv or bh):
            limit = 2
        return {'rows': rows, 'cols': cols, 'limit': limit, 'bv': bv, 'bh': bh}
    if kind == 'BSIDD':
        shapes = [[rng.randint(3, 6), rng.randint(3, 5)] for _ in range(rng.choice([1, 1, 2]))]
        limit = rng.choice([0, 2, 3])
        bv, bh = rng.choice([(0, 0), (2, 0), (2, 2), (2, 3), (0, 2)])
        if not limit and not (bv or bh):
            limit = 2
        return {'shapes': shapes, 'limit': limit, 'bv': bv, 'bh': bh}
    raise Infra(kind)


def cfg_key(kind, cfg):
    import json
    return kind + json.dumps(cfg, sort_keys=True)


def layout(kind, cfg):
    """(shapes per data segment, image segments [(data segment index, samples per pixel, [(r0, c0, h, w) ...])]) - computed from
    the configuration alone (row segmentation by the row limit, block grid row-major, last blocks clipped)"""
    if kind == 'GNITF':
        ims = cfg['images']
        if cfg['stacked']:
            shapes = [(sum(im['rows'] for im in ims), ims[0]['cols'])]
            segs, r = [], 0
            for im in ims:
                segs.append((0, 1, [(r + a, b, h, w) for a, b, h, w in _block_grid(im['rows'], im['cols'], im['bv'], im['bh'])]))
                r += im['rows']
            return shapes, segs
        return [(im['rows'], im['cols']) for im in ims], \
            [(k, 1, _block_grid(im['rows'], im['cols'], im['bv'], im['bh'])) for k, im in enumerate(ims)]
    if kind == 'BSICD':
        segs = [(0, 2, [(a + r, c, h, w) for r, c, h, w in _block_grid(b - a, cfg['cols'], cfg['bv'], cfg['bh'])])
                for a, b in _segmentation(cfg['rows'], cfg['limit'])]
        return [(cfg['rows'], cfg['cols'])], segs
    if kind == 'BSIDD':
        segs = []
        for k, (rows, cols) in enumerate(cfg['shapes']):
            for a, b in _segmentation(rows, cfg['limit']):
                segs.append((k, 1, [(a + r, c, h, w) for r, c, h, w in _block_grid(b - a, cols, cfg['bv'], cfg['bh'])]))
        return [tuple(s) for s in cfg['shapes']], segs
    raise Infra(kind)


def _apply_blocks(managers, bv, bh):
    for m in managers:
        h = m.subheader
        if bv:
            h.NPPBV = bv
            h.NBPC = -(-h.NROWS // bv)
        if bh:
            h.NPPBH = bh
            h.NBPR = -(-h.NCOLS // bh)


class BRefs:
    """writers, data and reference outputs of the blocked configurations"""

    def __init__(self, refs):
        self.refs = refs             # c19.Refs: metadata templates, scratch directory
        self.cache = {}
        self.n = 0

    def make_writer(self, kind, cfg, target, check=True):
        if kind == 'GNITF':
            from sarpy.io.general.nitf import NITFWritingDetails, NITFWriter, ImageSubheaderManager, DESSubheaderManager, TextSubheaderManager
            from sarpy.io.general.nitf_elements.nitf_head import NITFHeader
            from sarpy.io.general.nitf_elements.image import ImageSegmentHeader, ImageBands, ImageBand
            from sarpy.io.general.nitf_elements.des import DataExtensionHeader
            from sarpy.io.general.nitf_elements.text import TextSegmentHeader
            mans, prev_rows = [], 0
            for k, im in enumerate(cfg['images']):
                bv, bh = im['bv'] or im['rows'], im['bh'] or im['cols']
                stacked = cfg['stacked'] and k > 0
                hdr = ImageSegmentHeader(IID1='IMG%03d' % k, NROWS=im['rows'], NCOLS=im['cols'], PVTYPE='INT', IREP='MONO', ICAT='VIS',
                                         ABPP=cfg['nbpp'], NBPP=cfg['nbpp'], IC='NC', IMODE='B', NBPR=-(-im['cols'] // bh), NBPC=-(-im['rows'] // bv),
                                         NPPBH=bh, NPPBV=bv, IDLVL=k + 1, IALVL=k if stacked else 0,
                                         ILOC='%05d00000' % (prev_rows if stacked else 0), ICORDS='',
                                         Bands=ImageBands(values=[ImageBand(IREPBAND='M')]))
                mans.append(ImageSubheaderManager(hdr))
                prev_rows = im['rows']
            texts = tuple(TextSubheaderManager(TextSegmentHeader(TEXTID=f'T{k}', TXTITL='note'), b'some text ' * 3) for k in range(cfg['text']))
            dess = tuple(DESSubheaderManager(DataExtensionHeader(), b'<d>' + b'A' * 30 + b'</d>') for k in range(cfg['des']))
            colls = (tuple(range(len(mans))), ) if cfg['stacked'] else tuple((k, ) for k in range(len(mans)))
            details = NITFWritingDetails(NITFHeader(CLEVEL=3, OSTAID='verif', FDT='20200101000000', FTITLE='blocked', FL=0),
                                         image_managers=tuple(mans), image_segment_collections=colls,
                                         text_managers=texts or None, des_managers=dess or None)
            return NITFWriter(target, details, check_existence=check)
        if kind == 'BSICD':
            from sarpy.io.complex.sicd import SICDWriter, SICDWritingDetails
            det = SICDWritingDetails(self.refs.sicd(cfg['rows'], cfg['cols']), row_limit=cfg['limit'] or None)
            _apply_blocks(det.image_managers, cfg['bv'], cfg['bh'])
            return SICDWriter(target, sicd_writing_details=det, check_existence=check)
        if kind == 'BSIDD':
            from sarpy.io.product.sidd import SIDDWriter, SIDDWritingDetails
            det = SIDDWritingDetails([self.refs.sidd(r, c) for r, c in cfg['shapes']], self.refs.sicd(3, 2), row_limit=cfg['limit'] or None)
            _apply_blocks(det.image_managers, cfg['bv'], cfg['bh'])
            return SIDDWriter(target, sidd_writing_details=det, check_existence=check)
        raise Infra(kind)

    @staticmethod
    def data(kind, cfg, shapes, i):
        r, c = shapes[i]
        base = numpy.arange(r * c).reshape(r, c)
        if kind == 'BSICD':
            return ((base + 1 + 30 * i) + 1j * (base + 1.5 + 30 * i)).astype('complex64')
        if kind == 'BSIDD':
            return (150 + 40 * i + base % 60).astype('uint8')
        if cfg['nbpp'] == 16:
            return (257 * (1 + (base + 7 * i) % 120)).astype('uint16')
        return (1 + (base + 7 * i) % 250).astype('uint8')

    def _write_ref(self, kind, cfg, shapes, pixels):
        """reference output with the given pixels [(i, r, c)] written one by one, or 'all' (one write per data segment)"""
        self.n += 1
        p = os.path.join(self.refs.scratch, f'bref{self.n}')
        with self.make_writer(kind, cfg, p) as w:
            if pixels == 'all':
                for i in range(len(shapes)):
                    w.write(self.data(kind, cfg, shapes, i), start_indices=(0, 0), index=i)
            else:
                ds = [self.data(kind, cfg, shapes, i) for i in range(len(shapes))]
                for i, r, c in pixels:
                    w.write(ds[i][r:r + 1, c:c + 1], start_indices=(r, c), index=i)
        with _real_open(p, 'rb') as f:
            out = f.read()
        os.remove(p)
        return out

    def get(self, kind, cfg):
        key = cfg_key(kind, cfg)
        if key in self.cache:
            return self.cache[key]
        shapes, segs = layout(kind, cfg)
        zero = self._write_ref(kind, cfg, shapes, [])
        if zero != self._write_ref(kind, cfg, shapes, []):
            raise Infra(f'{kind} writer output is not deterministic; the reference comparison is not usable')
        full = self._write_ref(kind, cfg, shapes, 'all')
        if len(full) != len(zero):
            raise Infra(f'{kind}: complete and empty reference outputs differ in size')
        pix = [(i, r, c) for i, (rr, cc) in enumerate(shapes) for r in range(rr) for c in range(cc)]
        nb = max(1, len(pix).bit_length())
        fa, za = numpy.frombuffer(full, 'u1'), numpy.frombuffer(zero, 'u1')
        dpos = numpy.nonzero(fa != za)[0]
        code = numpy.zeros(len(dpos), dtype='int64')
        for j in range(nb):
            sel = [p for k, p in enumerate(pix) if ((k + 1) >> j) & 1]
            one = numpy.frombuffer(self._write_ref(kind, cfg, shapes, sel), 'u1')
            if len(one) != len(full):
                raise Infra(f'{kind}: reference output size depends on what was written')
            d = one[dpos] != za[dpos]
            if numpy.any(one[dpos][d] != fa[dpos][d]) or numpy.any((one != za) & (fa == za)):
                raise Infra(f'{kind}: a partially written reference output has bytes that are neither written data nor untouched')
            code |= d.astype('int64') << j
        if numpy.any(code < 1) or numpy.any(code > len(pix)):
            raise Infra(f'{kind}: cannot attribute some data bytes of the reference output to a pixel')
        pos = {}
        for k, p in enumerate(pix):
            pp = dpos[code == k + 1]
            if len(pp) == 0:
                raise Infra(f'{kind}: no byte of the reference output belongs to pixel {p}')
            pos[p] = pp
        ref = {'zero': zero, 'full': full, 'fa': fa, 'za': za, 'pos': pos, 'shapes': shapes, 'segs': segs}
        self.cache[key] = ref
        return ref


def gen_blocked_case(rng, cfgs, kind=None, directed=False):
    """`cfgs`: {kind: [configurations]} drawn once per run (reference outputs are learnt per configuration)"""
    kind = kind or rng.choice(BKINDS)
    cfg = rng.choice(cfgs[kind])
    shapes, segs = layout(kind, cfg)
    tgt = 'm' if directed else rng.choice(['p0', 'p1', 'p2', 'm', 'm', 'm', 'r', 'r'])
    check = rng.random() < 0.5 if tgt in ('p1', 'p2') else rng.random() < 0.8
    chunks = []
    for i, (rows, cols) in enumerate(shapes):
        rc = sorted(rng.sample(range(1, rows), rng.randint(0, min(2, rows - 1)))) if rows > 1 else []
        cc = sorted(rng.sample(range(1, cols), rng.randint(0, min(2, cols - 1)))) if cols > 1 else []
        if directed:
            # cut exactly along the block boundaries of the data segment so that single blocks can be completed alone
            rc = sorted({b[0] for s in segs if s[0] == i for b in s[2]} - {0})
            cc = sorted({b[1] for s in segs if s[0] == i for b in s[2]} - {0})
        re, ce = [0] + rc + [rows], [0] + cc + [cols]
        for a, b in zip(re[:-1], re[1:]):
            for c, d in zip(ce[:-1], ce[1:]):
                chunks.append((i, a, b - a, c, d - c))
    rng.shuffle(chunks)
    order = 'last-block-first' if directed else rng.choice(['random', 'random', 'last-block-first', 'reverse'])
    if order == 'reverse':
        chunks.sort(key=lambda ch: (-ch[0], -ch[1], -ch[3]))
    elif order == 'last-block-first':
        lasts = [(s[0], s[2][-1]) for s in segs if len(s[2]) > 1 or len([t for t in segs if t[0] == s[0]]) > 1]

        def hits_last(ch):
            i, a, n, c, m = ch
            for coll, (r0, c0, h, w) in lasts:
                if coll == i and a < r0 + h and r0 < a + n and c < c0 + w and c0 < c + m:
                    return 0
            return 1
        chunks.sort(key=hits_last)
    style = rng.random()
    if directed or style < 0.5:
        pass
    elif style < 0.88:
        chunks = chunks[:rng.randint(0, max(0, len(chunks) - 1))]
    else:
        chunks = []
    n = max(len(chunks) + 2, rng.randint(2, 14)) if directed else rng.randint(1, 14)
    ops, pending = [], list(chunks)
    for j in range(n):
        r = rng.random()
        remaining = n - j
        if directed:
            # a non-forced flush after every chunk, close at the end
            if pending:
                ops.append('w%d,%d,%d,%d,%d' % pending.pop(0))
                ops.append('f')
            else:
                ops.append('c')
                break
        elif pending and (r < 0.5 or (remaining <= len(pending) + 1 and r < 0.9)):
            ops.append('w%d,%d,%d,%d,%d' % pending.pop(0))
        elif r < 0.54:
            i = rng.randrange(len(shapes) + 1)
            rows, cols = shapes[i] if i < len(shapes) else (2, 2)
            if rng.random() < 0.5:
                ops.append('w%d,%d,1,%d,1' % (i, rows, cols - 1))        # a row below the image / no such segment
            else:
                ops.append('w%d,%d,1,%d,2' % (i, rows - 1, cols - 1))    # sticks out on the right / no such segment
        elif r < 0.76:
            ops.append('f')
        elif r < 0.88:
            ops.append(rng.choice(['c', 'c', 'x', 'e']))
        elif r < 0.92 and j >= n - 2:
            ops.append('d')
        else:
            ops.append(rng.choice(['f', 'c']))
    return {'machine': 'B', 'kind': kind, 'cfg': cfg, 'target': tgt, 'check': bool(check), 'order': order, 'ops': ops[:40]}


def blocked_line(case):
    shapes, segs = layout(case['kind'], case['cfg'])
    sh = ','.join(f'{r}x{c}' for r, c in shapes)
    sg = ','.join(f'{coll}:{spp}:' + '/'.join('%d.%d.%d.%d' % b for b in blocks) for coll, spp, blocks in segs)
    tgt = 'p1' if case['target'] == 'p2' else case['target']
    return f"life B {tgt} {int(case['check'])} {sh} {sg} | " + ' '.join(case['ops'])


def _children_of(seg):
    ch = getattr(seg, 'children', None)
    return list(ch) if ch is not None else [seg]


def run_blocked_case(case, scratch, brefs, final_readback=True):
    kind, cfg, tgt = case['kind'], case['cfg'], case['target']
    ref = brefs.get(kind, cfg)
    shapes, segs = ref['shapes'], ref['segs']
    fails = []

    def fail(key, msg, step, fields=()):
        fails.append({'key': key, 'msg': msg, 'step': step, 'fields': list(fields), 'case': case})

    path = os.path.join(scratch, 'out.bin')
    if os.path.exists(path):
        os.remove(path)
    pre = None
    if tgt in ('p1', 'p2'):
        pre = b'PREEXISTING' * 5000 if tgt == 'p1' else b''
        with _real_open(path, 'wb') as f:
            f.write(pre)
        os.utime(path, (1000000000, 1000000000))
    caller = None
    tracker = OpenTracker(scratch)
    exc_classes, trace, obs = {}, [], []
    info = {'refused': False, 'lag': None}
    w = None
    try:
        with tracker:
            if tgt == 'm':
                target = caller = CapBytesIO()
            elif tgt == 'r':
                target = caller = _real_open(path, 'wb')
            else:
                target = path
            tracker.handles.clear()
            out, ecls, w = call(lambda: brefs.make_writer(kind, cfg, target, case['check']))
            if out != 'ok':
                exc_classes[ecls] = 1
                if not (tgt in ('p1', 'p2') and case['check'] and ecls == 'SarpyIOError'):
                    fail('', f'construction raised {ecls} for target {tgt} check_existence={case["check"]}', -1)
                else:
                    st = os.stat(path)
                    with _real_open(path, 'rb') as f:
                        now = f.read()
                    if now != pre or int(st.st_mtime) != 1000000000:
                        fail('', 'the existing file was modified although the writer refused it', -1)
                if tracker.any_open():
                    fail('', 'construction failed but left a file handle open', -1)
                return ['refused'], fails, {'exc': exc_classes, 'refused': True}
            if tgt in ('p1', 'p2') and case['check']:
                fail('', f"an existing {'empty ' if tgt == 'p2' else ''}file was accepted (and truncated) although check_existence=True", -1)
            trace.append('init:%d' % int(tgt in ('p1', 'p2')))
            # ---- the objects sarpy built, against the layout the harness computed from the configuration
            isegs = list(w._image_segment_data_segments)
            managers = list(w.nitf_writing_details.image_managers)
            colls = [tuple(c) for c in w.image_segment_collections]
            mine = [tuple(k for k, s in enumerate(segs) if s[0] == i) for i in range(len(shapes))]
            if colls != mine or len(isegs) != len(segs):
                raise Infra(f'{kind}: image segment collections {colls} / {len(isegs)} data segments, the harness expects {mine}')
            blocks = [_children_of(s) for s in isegs]
            for k, (coll, spp, bl) in enumerate(segs):
                shp = [tuple(int(x) for x in (ch.raw_shape[:2] if ch.raw_ndim >= 2 else ch.raw_shape)) for ch in blocks[k]]
                if len(blocks[k]) != len(bl) or any((h, wd) != s2 for (_, _, h, wd), s2 in zip(bl, shp)):
                    raise Infra(f'{kind}: image segment {k} has blocks {shp}, the harness expects {bl}')
            dsegs = list(w.data_segment)
            truth = [numpy.zeros(s, dtype=bool) for s in shapes]          # ground truth kept by the harness, per pixel
            gone, closed_flag = False, False
            last_seg_claims = [False] * len(segs)

            def snapshot(flush_caller=True):
                if tgt == 'm':
                    return caller.content()
                if tgt == 'r' and flush_caller and not caller.closed:
                    caller.flush()       # the caller's own buffer: what the file object holds is what reaches the path on flush
                with _real_open(path, 'rb') as f:
                    return f.read()

            def file_open():
                return (not caller.closed) if caller is not None else tracker.any_open()

            def delivered(content):
                buf = numpy.zeros(len(ref['full']), dtype='u1')
                a = numpy.frombuffer(content[:len(buf)], 'u1')
                buf[:len(a)] = a
                out_, corrupt = [numpy.zeros(s, dtype=bool) for s in shapes], False
                for (i, r, c), p in ref['pos'].items():
                    if numpy.array_equal(buf[p], ref['fa'][p]):
                        out_[i][r, c] = True
                    elif not numpy.array_equal(buf[p], ref['za'][p]):
                        corrupt = True
                return out_, corrupt

            def seg_obs(deliv, closed_now):
                out_ = []
                for k, (coll, spp, bl) in enumerate(segs):
                    bo = []
                    for (r0, c0, h, wd), ch in zip(bl, blocks[k]):
                        bo.append({'claims': bool(ch.check_fully_written()), 'count': int(ch._pixels_written),
                                   'deliv': deliv[coll][r0:r0 + h, c0:c0 + wd].reshape(-1).tolist(),
                                   'pix': truth[coll][r0:r0 + h, c0:c0 + wd].reshape(-1).tolist()})
                    if closed_now:
                        claims = last_seg_claims[k]      # a closed aggregate has dropped its children; nothing changes after close
                    else:
                        claims = bool(isegs[k].check_fully_written())
                        last_seg_claims[k] = claims
                    m = managers[k]
                    out_.append({'claims': claims, 'handed': bool(m.item_written or m.item_bytes is not None), 'blocks': bo,
                                 'complete': all(all(b['pix']) for b in bo)})
                return out_

            for step, op in enumerate(case['ops']):
                was_closed = closed_flag
                before_content = snapshot() if was_closed and not gone else None
                before_mtime = os.stat(path).st_mtime_ns if (was_closed and tgt != 'm' and not gone) else None
                coll_claims = None
                if gone:
                    out, ecls = 'gone', None
                elif op[0] == 'w':
                    i, a, n, c, m = [int(t) for t in op[1:].split(',')]
                    if i < len(shapes) and a + n <= shapes[i][0] and c + m <= shapes[i][1]:
                        d = brefs.data(kind, cfg, shapes, i)[a:a + n, c:c + m]
                    else:
                        d = numpy.resize(brefs.data(kind, cfg, shapes, 0), (n, m))      # a chunk that does not fit / no such segment
                    out, ecls, _ = call(lambda: w.write(d, start_indices=(a, c), index=i))
                    if out == 'ok' and i < len(shapes):
                        truth[i][a:a + n, c:c + m] = True
                elif op == 'f':
                    out, ecls, _ = call(lambda: w.flush())
                elif op == 'c':
                    raw_before = None
                    out, ecls, _ = call(lambda: w.close())
                    if tgt == 'r' and out == 'ok' and not was_closed and not caller.closed:
                        raw = snapshot(flush_caller=False)
                        held = snapshot()
                        if raw != held:
                            info['lag'] = (len(raw), len(held))
                            if STRICT_PATH_COMPLETE_AT_CLOSE:
                                fail(K_LAG, f'step {step} {op}: after close the path shows {len(raw)} of {len(held)} bytes until the caller flushes its file object', step)
                elif op == 'x':
                    def f():
                        with w:
                            pass
                    out, ecls, _ = call(f)
                elif op == 'e':
                    out, ecls, _ = call(lambda: w.__exit__(ValueError, ValueError('x'), None))
                elif op == 'd':
                    closed_flag = True
                    w = None
                    gc.collect()
                    gone = True
                    out, ecls = 'ok', None
                else:
                    raise Infra('bad op ' + op)
                if ecls:
                    exc_classes[ecls] = exc_classes.get(ecls, 0) + 1
                if not gone:
                    closed_flag = bool(w.closed)
                if not closed_flag:
                    coll_claims = [bool(s.check_fully_written()) for s in dsegs]
                content = snapshot()
                deliv, corrupt = delivered(content)
                so = seg_obs(deliv, closed_flag)
                fo = file_open()
                o = {'op': op, 'out': out, 'exc': ecls, 'closed': closed_flag, 'fileOpen': fo, 'segs': so, 'size': len(content),
                     'gone': gone, 'was_closed': was_closed, 'corrupt': corrupt, 'coll_claims': coll_claims,
                     'coll_complete': [bool(t.all()) for t in truth], 'deliv_eq_truth': all(numpy.array_equal(d_, t) for d_, t in zip(deliv, truth))}
                if before_content is not None:
                    o['untouched'] = (before_content == content) and (before_mtime is None or before_mtime == os.stat(path).st_mtime_ns)
                obs.append(o)
                trace.append(f"{out}:{int(closed_flag)}:{int(fo)}:" + ';'.join(
                    f"{int(s['claims'])},{int(s['handed'])}," + '/'.join(
                        f"{int(b['claims'])}.{b['count']}.{bits(b['deliv'])}.{bits(b['pix'])}" for b in s['blocks']) for s in so))
            final = snapshot()
            other_open = [h for h in tracker.handles if not h.closed]
        info.update({'exc': exc_classes, 'complete': all(bool(t.all()) for t in truth), 'closed': closed_flag,
                     'nblocks': sum(len(b) for b in blocks), 'nsegs': len(segs)})
        oracle_blocked(case, ref, obs, final, other_open, path, fail, final_readback, brefs, truth)
        return trace, fails, info
    finally:
        if w is not None:
            call(lambda: w.close())
        for h in tracker.handles:
            try:
                h.close()
            except Exception:
                pass
        if caller is not None:
            caller.close()
        w = None
        gc.collect()


def read_back_blocked(kind, path):
    if kind == 'BSICD':
        from sarpy.io.complex.sicd import SICDReader as RD
    elif kind == 'BSIDD':
        from sarpy.io.product.sidd import SIDDReader as RD
    else:
        from sarpy.io.general.nitf import NITFReader as RD
    with RD(path) as r:
        n = len(r.get_data_segment_as_tuple())
        return [numpy.array(r.read(index=i)) if n > 1 else numpy.array(r.read()) for i in range(n)]


def oracle_blocked(case, ref, obs, final, other_open, path, fail, final_readback, brefs, truth):
    """the clauses of the property stated on the observations, with the harness's per-pixel ground truth"""
    kind, tgt = case['kind'], case['target']
    shapes = ref['shapes']
    closed_seen = False
    for step, o in enumerate(obs):
        op, out = o['op'], o['out']
        if out == 'gone':
            continue
        if o['corrupt']:
            fail('', f'step {step} {op}: the bytes of a pixel in the target are neither the written data nor untouched', step)
        if op in ('c', 'x', 'e', 'd'):
            if out != 'ok':
                fail('', f"step {step} {op}: close/context exit raised {o['exc']}", step)
            elif op != 'd' and not o['closed']:
                fail('', f'step {step} {op}: writer does not report closed after close', step)
            if closed_seen and o.get('untouched') is False:
                fail('', f'step {step} {op}: a repeated close modified the target', step)
            closed_seen = True
        elif op[0] in 'wf':
            if o['was_closed']:
                if out == 'ok':
                    fail('', f'step {step} {op}: write/flush after close did not raise', step)
                if o.get('untouched') is False:
                    fail('', f'step {step} {op}: write/flush after close touched the file', step)
            else:
                bad = False
                if op[0] == 'w':
                    i, a, n, c, m = [int(t) for t in op[1:].split(',')]
                    bad = i >= len(shapes) or a + n > shapes[i][0] or c + m > shapes[i][1]
                if bad and out == 'ok':
                    fail('', f'step {step} {op}: a write outside the image / to a missing segment did not raise', step)
                if not bad and out != 'ok':
                    fail('', f"step {step} {op}: write/flush on an open writer raised {o['exc']}", step)
        if tgt in ('m', 'r') and not o['fileOpen']:
            fail('', f"step {step} {op}: the caller's file object was closed by the writer", step)
        if tgt in ('p0', 'p1', 'p2') and closed_seen and o['fileOpen']:
            fail('', f'step {step} {op}: the file the writer opened itself is still open after close', step)
        # ---- never claims fully written unless complete: every level, every step
        for k, s in enumerate(o['segs']):
            if s['claims'] and not s['complete']:
                missing = [j for j, b in enumerate(s['blocks']) if not all(b['pix'])]
                fail('', f'step {step} {op}: image segment {k} reports fully written but pixels of its block(s) {missing} were never written '
                         f"(block claims {[int(b['claims']) for b in s['blocks']]})", step)
            for j, b in enumerate(s['blocks']):
                if b['claims'] and not all(b['pix']):
                    fail('', f'step {step} {op}: block {j} of image segment {k} reports fully written but is not', step)
            if tgt == 'm' and not o['closed'] and s['handed'] and not s['complete']:
                fail('', f'step {step} {op}: a non-forced flush handed the incomplete image segment {k} to the target (its bytes are frozen; '
                         f'pixels written later cannot reach the file object)', step)
        if o['coll_claims'] is not None:
            for i, cl in enumerate(o['coll_claims']):
                if cl and not o['coll_complete'][i]:
                    fail('', f'step {step} {op}: data segment {i} reports fully written but is not', step)
        if closed_seen:
            if not o['deliv_eq_truth']:
                lost = []
                for k, s in enumerate(o['segs']):
                    for j, b in enumerate(s['blocks']):
                        if b['deliv'] != b['pix']:
                            lost.append((k, j))
                fail('', f'step {step} {op}: after close the target does not hold exactly the written pixels: blocks (segment, block) {lost[:6]} differ '
                         f'(target {tgt})', step)
            if o['size'] != len(ref['full']):
                fail('', f"step {step} {op}: closed container has {o['size']} bytes, the full declared size is {len(ref['full'])}", step)
    if closed_seen:
        dsz = declared_size('NITF', final)
        if dsz is None:
            fail('', 'the closed container does not start with a parsable header', len(obs) - 1)
        elif dsz != len(final):
            fail('', f'closed container: {len(final)} bytes, header declares {dsz}', len(obs) - 1)
        if all(bool(t.all()) for t in truth) and final != ref['full']:
            fail('', 'all pixels were written but the closed output differs from the complete reference output', len(obs) - 1)
        if other_open and tgt in ('m', 'r'):
            fail('', f'{len(other_open)} file handle(s) the writer opened itself are still open after close', len(obs) - 1)
        if final_readback and dsz == len(final):
            p = os.path.join(os.path.dirname(path), 'readback.bin')
            with _real_open(p, 'wb') as f:
                f.write(final)
            out, ecls, arrs = call(lambda: read_back_blocked(kind, p))
            if out != 'ok':
                fail('', f'the closed container cannot be opened / read by its reader: {ecls}', len(obs) - 1)
            elif obs[-1]['deliv_eq_truth']:
                if kind == 'GNITF' and case['cfg']['stacked']:
                    arrs = [numpy.concatenate(arrs, axis=0)]        # the general reader shows every image segment on its own
                for i, a in enumerate(arrs):
                    want = brefs.data(kind, case['cfg'], shapes, i).copy()
                    want[~truth[i]] = 0
                    if a.shape != want.shape or not numpy.array_equal(a, want):
                        fail('', f'data segment {i} read back from the closed container differs from what was written', len(obs) - 1)
            os.remove(p)


def compare_blocked(model_line, trace, fails):
    mt = model_line.split(' ')
    if mt == ['refused'] or trace == ['refused']:
        return [] if mt == trace else [f'construction: model {mt[0]} implementation {trace[0]}']
    if len(mt) != len(trace):
        return [f'model answered {len(mt)} steps for {len(trace)}: {model_line[:120]}']
    out = []
    for k, (m, t) in enumerate(zip(mt, trace)):
        if m != t:
            out.append(f"step {k - 1}: model {m[:160]} implementation {t[:160]}")
    return out


# ================================================================================================ machine D

DSHAPES = ('agg-shared-seg', 'agg-same-reader', 'reader-same-seg', 'agg-of-agg', 'agg-shared-view')


def gen_dag_case(rng):
    shape = rng.choice(DSHAPES)
    root = {'k': 'reader', 'kids': [None, None]}
    return {'machine': 'D', 'shape': shape, 'close_readers': rng.random() < 0.7, 'close_inner': rng.random() < 0.7,
            'close_segments': [rng.random() < 0.75, rng.random() < 0.75], 'close_parent': rng.random() < 0.7,
            'ntemp': [rng.choice([0, 1, 2]), rng.choice([0, 1])], 'ops': gen_rops(rng, root, rng.randint(1, 8))}


def dag_graph(case):
    """objects (name, kind) and edges (parent, child, propagates?) of the case, root first; `reads`: number of readable indices"""
    cs, cr, ci, cp = case['close_segments'], case['close_readers'], case['close_inner'], case['close_parent']
    sh = case['shape']
    if sh == 'agg-shared-seg':        # two readers over the same segment
        objs = ['agg', 'r0', 'r1', 'seg']
        edges = [('agg', 'r0', cr), ('agg', 'r1', cr), ('r0', 'seg', cs[0]), ('r1', 'seg', cs[1])]
    elif sh == 'agg-same-reader':     # the same reader twice
        objs = ['agg', 'r0', 'seg']
        edges = [('agg', 'r0', cr), ('agg', 'r0', cr), ('r0', 'seg', cs[0])]
    elif sh == 'reader-same-seg':     # one reader, the same segment twice
        objs = ['r0', 'seg']
        edges = [('r0', 'seg', cs[0]), ('r0', 'seg', cs[0])]
    elif sh == 'agg-of-agg':          # an aggregate over an aggregate and a reader that is also inside the inner aggregate
        objs = ['agg', 'inner', 'r0', 'r1', 'seg0', 'seg1']
        edges = [('agg', 'inner', cr), ('agg', 'r0', cr), ('inner', 'r0', ci), ('inner', 'r1', ci), ('r0', 'seg0', cs[0]), ('r1', 'seg1', cs[1])]
    else:                             # two readers over two views (subset / reorientation) of one array
        objs = ['agg', 'r0', 'r1', 'v0', 'v1', 'arr']
        edges = [('agg', 'r0', cr), ('agg', 'r1', cr), ('r0', 'v0', cs[0]), ('r1', 'v1', cs[1]), ('v0', 'arr', cp), ('v1', 'arr', True)]
    return objs, edges


def dag_tree(case):
    """tree unfolding of the DAG as a node dict for the R machine + the object name of every node in pre-order"""
    objs, edges = dag_graph(case)
    names = []

    def unfold(name, prop_of_edges):
        names.append(name)
        kids = [(c, p) for (a, c, p) in edges if a == name]
        # `prop` is a property of the parent object (close_segments / close_readers / close_parent): the same for all its edges
        prop = kids[0][1] if kids else True
        return {'k': 'dag', 'prop': prop, 'file': None, 'cf': False, 'kids': [unfold(c, None) for c, _ in kids]}
    root = unfold(objs[0], None)
    return root, names


def dag_line(case):
    root, _ = dag_tree(case)
    ntemp = case['ntemp'][0] if case['shape'] == 'reader-same-seg' else 0
    return f"life R 0 {ntemp} " + ' '.join(node_tokens(root)) + ' | ' + ' '.join(case['ops'])


def run_dag_case(case, scratch):
    from sarpy.io.general.data_segment import NumpyArraySegment, SubsetSegment, ReorientationSegment
    from sarpy.io.general.base import BaseReader, AggregateReader
    objs, edges = dag_graph(case)
    sh = case['shape']
    temps = {}

    def mk_temps(owner, n):
        out = []
        for i in range(n):
            p = os.path.join(scratch, f'{owner}_{i}.tmp')
            with _real_open(p, 'wb') as f:
                f.write(b'temp')
            out.append(p)
        temps[owner] = out
        return out

    def arr(k=0):
        return NumpyArraySegment(numpy.arange(12, dtype='uint16').reshape(3, 4) + 50 * k, mode='r')
    cs, cr, ci, cp = case['close_segments'], case['close_readers'], case['close_inner'], case['close_parent']
    o = {}
    if sh == 'agg-shared-seg':
        o['seg'] = arr()
        o['r0'] = BaseReader(o['seg'], close_segments=cs[0], delete_files=mk_temps('r0', case['ntemp'][0]))
        o['r1'] = BaseReader(o['seg'], close_segments=cs[1], delete_files=mk_temps('r1', case['ntemp'][1]))
        o['agg'] = AggregateReader([o['r0'], o['r1']], close_readers=cr)
    elif sh == 'agg-same-reader':
        o['seg'] = arr()
        o['r0'] = BaseReader(o['seg'], close_segments=cs[0], delete_files=mk_temps('r0', case['ntemp'][0]))
        o['agg'] = AggregateReader([o['r0'], o['r0']], close_readers=cr)
    elif sh == 'reader-same-seg':
        o['seg'] = arr()
        o['r0'] = BaseReader([o['seg'], o['seg']], close_segments=cs[0], delete_files=mk_temps('r0', case['ntemp'][0]))
    elif sh == 'agg-of-agg':
        o['seg0'], o['seg1'] = arr(0), arr(1)
        o['r0'] = BaseReader(o['seg0'], close_segments=cs[0], delete_files=mk_temps('r0', case['ntemp'][0]))
        o['r1'] = BaseReader(o['seg1'], close_segments=cs[1], delete_files=mk_temps('r1', case['ntemp'][1]))
        o['inner'] = AggregateReader([o['r0'], o['r1']], close_readers=ci)
        o['agg'] = AggregateReader([o['inner'], o['r0']], close_readers=cr)
    else:
        o['arr'] = arr()
        o['v0'] = SubsetSegment(o['arr'], (slice(0, 3, 1), slice(0, 2, 1)), 'formatted', squeeze=False, close_parent=cp)
        o['v1'] = ReorientationSegment(o['arr'], reverse_axes=(0, ), close_parent=True)
        o['r0'] = BaseReader(o['v0'], close_segments=cs[0], delete_files=mk_temps('r0', case['ntemp'][0]))
        o['r1'] = BaseReader(o['v1'], close_segments=cs[1], delete_files=mk_temps('r1', case['ntemp'][1]))
        o['agg'] = AggregateReader([o['r0'], o['r1']], close_readers=cr)
    root_name = objs[0]
    # independent statement of what close of the root must reach: graph reachability through propagating edges
    reach = {root_name}
    changed = True
    while changed:
        changed = False
        for a, c, p in edges:
            if a in reach and p and c not in reach:
                reach.add(c)
                changed = True
    _, names = dag_tree(case)
    holder = [o[root_name]]
    others = {k: v for k, v in o.items() if k != root_name}
    o = None
    nreads = len([e for e in edges if e[0] == root_name])
    fails, trace, exc = [], [], {}

    def fail(msg, step):
        fails.append({'key': '', 'msg': msg, 'step': step, 'fields': [], 'case': case})
    closed_seen = gone = False
    root_flag = False

    def closed_of(name):
        if name == root_name:
            return root_flag if gone else bool(holder[0].closed)
        return bool(others[name].closed)
    for step, op in enumerate(case['ops']):
        if gone:
            out, ecls = 'gone', None
        elif op[0] == 'r':
            i = int(op[1:])
            out, ecls, _ = call(lambda: holder[0].read(index=i))
            if closed_seen and out == 'ok':
                fail(f'step {step} {op}: read after close returned data', step)
            if not closed_seen and out != 'ok' and (i < nreads or nreads == 1):
                fail(f'step {step} {op}: read of an open reader raised {ecls}', step)
        elif op == 'd':
            root_flag = True
            holder[0] = None
            gc.collect()
            gone, out, ecls = True, 'ok', None
            closed_seen = True
        else:
            if op == 'c':
                out, ecls, _ = call(lambda: holder[0].close())
            elif op == 'x':
                out, ecls, _ = call(lambda: holder[0].__exit__(None, None, None))
            else:
                out, ecls, _ = call(lambda: holder[0].__exit__(ValueError, ValueError('x'), None))
            closed_seen = True
            if out != 'ok':
                fail(f'step {step} {op}: close of {case["shape"]} raised {ecls}', step)
            elif not holder[0].closed:
                fail(f'step {step} {op}: reader does not report closed after close', step)
        if ecls:
            exc[ecls] = exc.get(ecls, 0) + 1
        # the tree machine's flags: one per node of the unfolding, an object is closed iff one of its copies is
        fl = [closed_of(n) for n in names]
        root_temps = [os.path.exists(p) for p in temps.get(root_name, [])]
        trace.append(f"{out}:{bits(fl)}:-:{bits(root_temps)}")
        for name in objs:
            c = closed_of(name)
            if closed_seen and name in reach and not c:
                fail(f'step {step} {op}: {name} is reached by the close of {root_name} through the ownership options but is still open', step)
            if name not in reach and c:
                fail(f'step {step} {op}: {name} was closed although no closed owner was told to close it', step)
            if not closed_seen and c:
                fail(f'step {step} {op}: {name} is closed before the root was closed', step)
            for p in temps.get(name, []):
                ex = os.path.exists(p)
                if c and ex:
                    fail(f'step {step} {op}: temp file of the closed reader {name} is still present', step)
                if not c and not ex:
                    fail(f'step {step} {op}: temp file of the open reader {name} was removed', step)
    for v in list(others.values()) + ([holder[0]] if holder[0] is not None else []):
        call(v.close)
    for ps in temps.values():
        for p in ps:
            if os.path.exists(p):
                os.remove(p)
    return trace, fails, {'exc': exc, 'names': names}


def compare_dag(model_line, trace, names):
    """model flags are per node of the tree unfolding; an object is closed iff one of its copies is"""
    mt = model_line.split(' ')
    if len(mt) != len(trace):
        return [f'model answered {len(mt)} steps for {len(trace)}: {model_line[:120]}']
    out = []
    for k, (m, t) in enumerate(zip(mt, trace)):
        mo, mf, _, mtemp = m.split(':')
        to, tf, _, ttemp = t.split(':')
        by_name = {}
        for n, b in zip(names, mf):
            by_name[n] = by_name.get(n, False) or b == '1'
        mf2 = ''.join('1' if by_name[n] else '0' for n in names)
        if (mo, mf2, mtemp) != (to, tf, ttemp):
            out.append(f'step {k}: model {mo}:{mf2}:{mtemp} implementation {to}:{tf}:{ttemp}')
    return out


# ================================================================================================ translator fidelity (three-way)

def kernel_requests():
    """small-scope enumeration of the regenerated decision kernels: (request line, thunk evaluating the Python original)"""
    import itertools
    import types
    import sarpy.io.general.data_segment as ds
    import sarpy.io.general.nitf as nitf
    out = []

    def child(b):
        return types.SimpleNamespace(check_fully_written=lambda warn=False, b=b: b)
    for name, cls in (('block', ds.BlockAggregateSegment), ('band', ds.BandAggregateSegment)):
        for mode_r in (0, 1):
            for n in range(0, 5):
                for bs in itertools.product([False, True], repeat=n):
                    me = types.SimpleNamespace(mode='r' if mode_r else 'w', children=[child(b) for b in bs])
                    out.append((f"lifegen {name} {mode_r} {bits(bs)}", (lambda cls=cls, me=me: bool(cls.check_fully_written(me)))))
    for name, cls in (('array', ds.NumpyArraySegment), ('subset', ds.SubsetSegment)):
        for mode_r in (0, 1):
            for w in range(0, 5):
                for e in range(0, 5):
                    me = types.SimpleNamespace(mode='r' if mode_r else 'w', _pixels_written=w, _expected_pixels_written=e)
                    out.append((f'lifegen {name} {mode_r} {w} {e}', (lambda cls=cls, me=me: bool(cls.check_fully_written(me)))))
    for a, b, c, d in itertools.product([0, 1], repeat=4):
        def hand(a=a, b=b, c=c, d=d):
            # one iteration of the loop in NITFWriter.flush, run on stand-ins: was item_bytes assigned?
            mgr = types.SimpleNamespace(item_written=bool(a), item_bytes=(b'old' if b else None))
            entry = types.SimpleNamespace(check_fully_written=lambda warn=False: bool(d), get_raw_bytes=lambda warn=False: b'new')
            det = types.SimpleNamespace(image_managers=[mgr], verify_all_offsets=lambda require=False: False,
                                        write_all_populated_items=lambda f: None, write_header=lambda f, overwrite=False: None)
            me = types.SimpleNamespace(_validate_closed=lambda: None, _data_segment=None, _in_memory=True, _closed=False,
                                       _image_segment_data_segments=[entry], nitf_writing_details=det, _file_object=None)
            nitf.NITFWriter.flush(me, force=bool(c))
            return mgr.item_bytes == b'new'
        out.append((f'lifegen hand {a} {b} {c} {d}', hand))
    return out


def kernel_threeway(ans_lines, requests):
    """-> (number compared, disagreements implementation / regenerated Lean / reference)"""
    dis = []
    for (line, thunk), got in zip(requests, ans_lines):
        try:
            impl = '1' if thunk() else '0'
        except Exception as e:      # noqa: the stand-ins are the harness's; report, do not alarm
            impl = 'err ' + type(e).__name__
        if got == 'bad-op' or ' | ' not in got:
            dis.append({'msg': f'{line}: the driver answered {got[:60]}'})
            continue
        gen, spec = got.split(' | ')
        if not (impl == gen == spec):
            dis.append({'msg': f'{line}: implementation {impl}, regenerated Lean {gen}, reference definition {spec}'})
    return len(requests), dis


# ================================================================================================ machine A: hand-built aggregates

def gen_aggregate_cases():
    """Block / Band aggregates over 2-3 writable children, every subset of the children completed through the child itself"""
    import itertools
    out = []
    for agg in ('block', 'band'):
        for n in (2, 3):
            for done in itertools.product([0, 1], repeat=n):
                out.append({'machine': 'A', 'agg': agg, 'done': list(done), 'ops': []})
    return out


def aggregate_line(case):
    return f"lifegen {case['agg']} 0 {bits(case['done'])}"


def run_aggregate_case(case, scratch=None):
    """-> (trace [claim], failures, info): the aggregate must not claim to be fully written unless every child is complete"""
    from sarpy.io.general.data_segment import NumpyArraySegment, BandAggregateSegment, BlockAggregateSegment
    n = len(case['done'])
    kids = [NumpyArraySegment(numpy.zeros((2, 2), dtype='uint8'), mode='w') for _ in range(n)]
    if case['agg'] == 'band':
        agg = BandAggregateSegment(kids, 2)
    else:
        arr = [(slice(0, 2, 1), slice(2 * j, 2 * j + 2, 1)) for j in range(n)]
        agg = BlockAggregateSegment(kids, arr, 'raw', 0, (2, 2 * n), 'uint8', (2, 2 * n))
    for k, d in zip(kids, case['done']):
        if d:
            k.write(numpy.full((2, 2), 7, dtype='uint8'), start_indices=(0, 0))
    out, ecls, claim = call(lambda: bool(agg.check_fully_written()))
    child_claims = [bool(k.check_fully_written()) for k in kids]
    fails = []
    if out != 'ok':
        fails.append({'key': '', 'msg': f"{case['agg']} aggregate: check_fully_written raised {ecls}", 'step': 0, 'case': case})
    elif claim and not all(case['done']):
        fails.append({'key': '', 'msg': f"{case['agg']} aggregate over {n} children reports fully written although children "
                                        f"{[j for j, d in enumerate(case['done']) if not d]} were never written (children claim {child_claims})",
                      'step': 0, 'case': case})
    call(agg.close)
    return ['1' if claim else '0'], fails, {'exc': {}, 'child_claims': child_claims}


def compare_aggregate(model_line, trace):
    if ' | ' not in model_line:
        return [f'the driver answered {model_line[:60]}']
    gen, spec = model_line.split(' | ')
    if not (gen == spec == trace[0]):
        return [f'aggregate claim: implementation {trace[0]}, regenerated Lean {gen}, reference definition {spec}']
    return []



# ================================================================================================ machine E: the existence check

EPRE = {'a': 'nothing', 'e': 'an empty file', 'f': 'a non-empty file', 'd': 'a directory'}
ECHECK = {'n': None, '0': False, '1': True}


def gen_exist_cases(kinds):
    """every path-taking writer family x what is at the path x check_existence (not given / False / True)"""
    return [{'machine': 'E', 'kind': k, 'pre': p, 'check': c, 'ops': []} for k in kinds for p in 'aefd' for c in 'n01']


def exist_line(case):
    return f"life E {case['pre']} {case['check']}"


def exist_gen_line(case):
    fam = {'NITF': 'nitf', 'SICD': 'nitf', 'SIDD': 'nitf', 'CPHD': 'cphd', 'CRSD': 'cphd', 'SIO': 'sio'}[case['kind']]
    chk = '0' if case['check'] == '0' else '1'
    return f"lifegen refuses {fam} {chk} {int(case['pre'] != 'a')}"


def _dir_state(path):
    return sorted(os.listdir(path))


def run_exist_case(case, scratch, refs):
    """-> (trace, failures, info).  trace = [`refused:<kept>` | `failed:<kept>` | `opened<clobbered>:<kept>`]"""
    import c19
    kind, pre, check = case['kind'], case['pre'], ECHECK[case['check']]
    shapes = [tuple(s) for s in c19.WSHAPES[kind][0]]
    ref = refs.get(kind, shapes)
    fails = []

    def fail(msg):
        fails.append({'key': '', 'msg': msg, 'step': 0, 'case': case})
    path = os.path.join(scratch, 'target.bin')
    content = None
    if pre == 'e':
        content = b''
    elif pre == 'f':
        content = b'PREEXISTING' * 500
    if content is not None:
        with _real_open(path, 'wb') as f:
            f.write(content)
        os.utime(path, (1000000000, 1000000000))
    elif pre == 'd':
        os.mkdir(path)
        with _real_open(os.path.join(path, 'inside.txt'), 'wb') as f:
            f.write(b'x')

    def intact():
        if pre == 'a':
            return not os.path.lexists(path)
        if pre == 'd':
            return os.path.isdir(path) and _dir_state(path) == ['inside.txt']
        if not os.path.isfile(path):
            return False
        with _real_open(path, 'rb') as f:
            now = f.read()
        return now == content and int(os.stat(path).st_mtime) == 1000000000
    tracker = OpenTracker(scratch)
    what = f"{kind} writer on a path holding {EPRE[pre]}, check_existence {'not given' if check is None else check}"
    must_refuse = pre != 'a' and check is not False        # the property clause, stated directly
    with tracker:
        out, ecls, w = call(lambda: refs.make_writer(kind, shapes, path, check))
        if out != 'ok':
            res = 'refused' if ecls == 'SarpyIOError' else 'failed'
            keep = intact()
            if not keep:
                fail(f'{what}: construction raised {ecls} but what was at the path is no longer byte-identical')
            if tracker.any_open():
                fail(f'{what}: construction raised {ecls} and left a file handle open')
            if res == 'refused' and not must_refuse:
                fail(f'{what}: refused (SarpyIOError) although ' + ('nothing exists there' if pre == 'a' else 'the caller disabled the check'))
            if res == 'failed' and must_refuse:
                fail(f'{what}: raised {ecls} instead of refusing with SarpyIOError')
            if res == 'failed' and not (pre == 'd'):
                fail(f'{what}: construction raised {ecls}')
            trace = [f'{res}:{int(keep)}']
        else:
            keep = pre == 'a'
            if must_refuse:
                fail(f'{what}: the existing target was accepted and overwritten - the caller did not disable the existence check')
            o2, e2, _ = call(w.close)
            if o2 != 'ok':
                fail(f'{what}: close raised {e2}')
            if tracker.any_open():
                fail(f'{what}: the file the writer opened itself is still open after close')
            if os.path.isfile(path):
                with _real_open(path, 'rb') as f:
                    now = f.read()
                if len(now) != len(ref['full']):
                    fail(f"{what}: after close the file has {len(now)} bytes, the full declared size is {len(ref['full'])}")
            else:
                fail(f'{what}: no file at the path after close')
            trace = [f"opened{int(pre in 'ef')}:{int(keep)}"]
        for h in tracker.handles:
            try:
                h.close()
            except Exception:
                pass
    w = None
    gc.collect()
    return trace, fails, {'exc': ({ecls: 1} if ecls else {}), 'must_refuse': must_refuse}


def compare_exist(model_line, gen_line, trace):
    out = []
    if model_line != trace[0]:
        out.append(f'existence check: model {model_line} implementation {trace[0]}')
    if gen_line is not None:
        if ' | ' not in gen_line:
            out.append(f'the driver of the regenerated kernels answered {gen_line[:60]}')
        else:
            gen, spec = gen_line.split(' | ')
            impl = '1' if trace[0].startswith('refused') else '0'
            if not (gen == spec == impl):
                out.append(f'existence test: implementation refuses={impl}, regenerated Lean {gen}, reference definition {spec}')
    return out


# ------------------------------------------------------------------------------------------------ the conversion route to a writer

def converter_existence(scratch):
    """The public conversion route (sarpy.io.complex.converter.Converter / conversion_utility) builds the target path from
    output_directory + output_file and hands it to a SICD / SIO writer: the existence clause of the property holds for this route as for the
    writers themselves - an existing target is refused (SarpyIOError) and left byte-identical unless the caller passed check_existence=False.
    The process working directory is elsewhere, as it is for any caller that passes a directory.
    -> (failures, number of cases)"""
    import sargen
    from sarpy.io.complex.base import FlatSICDReader
    from sarpy.io.complex.converter import Converter, conversion_utility
    fails, n = [], 0
    rows, cols = 9, 7
    data = (numpy.arange(rows * cols, dtype='float32').reshape((rows, cols)) + 1j).astype('complex64')
    old_cwd = os.getcwd()
    elsewhere = tempfile.mkdtemp(dir=scratch)
    try:
        os.chdir(elsewhere)
        for route in ('Converter', 'conversion_utility'):
            for fmt in ('SICD', 'SIO'):
                for pre in 'af':
                    for check in (None, False, True):
                        n += 1
                        outdir = tempfile.mkdtemp(dir=scratch)
                        name = 'out.' + ('nitf' if fmt == 'SICD' else 'sio')
                        path = os.path.join(outdir, name)
                        content = b'PREEXISTING' * 300
                        if pre == 'f':
                            with _real_open(path, 'wb') as f:
                                f.write(content)
                        reader = FlatSICDReader(sargen.small_sicd(rows, cols), data)
                        kw = {} if check is None else {'check_existence': check}
                        what = (f"{route}(output_directory, output_file, output_format={fmt!r}) with {'an existing file' if pre == 'f' else 'nothing'} at the target, "
                                f"check_existence {'not given' if check is None else check}")
                        case = {'machine': 'E', 'kind': 'CONV:' + route + ':' + fmt, 'pre': pre, 'check': {None: 'n', False: '0', True: '1'}[check], 'ops': []}
                        must_refuse = pre == 'f' and check is not False

                        def go():
                            if route == 'Converter':
                                cv = Converter(reader, outdir, output_file=name, output_format=fmt, **kw)     # the writer opens its target here
                                cv.__exit__(None, None, None)
                            else:
                                conversion_utility(reader, outdir, output_files=name, output_format=fmt, **kw)
                        out, ecls, _ = call(go)
                        intact = pre == 'f' and os.path.isfile(path) and _real_open(path, 'rb').read() == content
                        if must_refuse:
                            if out == 'ok' or not intact:
                                fails.append({'key': '', 'step': 0, 'case': case,
                                              'msg': f'{what}: the existing target was ' + ('accepted and overwritten' if not intact else 'accepted') +
                                                     ' - the caller did not disable the existence check'})
                            elif ecls != 'SarpyIOError':
                                fails.append({'key': '', 'step': 0, 'case': case, 'msg': f'{what}: raised {ecls} instead of refusing with SarpyIOError'})
                        elif out != 'ok' and ecls == 'SarpyIOError':
                            fails.append({'key': '', 'step': 0, 'case': case,
                                          'msg': f'{what}: refused (SarpyIOError) although ' + ('nothing exists there' if pre == 'a' else 'the caller disabled the check')})
                        # (whether the conversion itself succeeds is not part of this clause: Converter(output_format='SIO').write_data() raises
                        # AttributeError on the unchanged tree - SIOWriter has no sicd_meta - which no property of this list is about)
                        try:
                            reader.close()
                        except Exception:
                            pass
    finally:
        os.chdir(old_cwd)
    return fails, n


# ------------------------------------------------------------------------------------------------ the other read entry points after close

def aux_reads_after_close(scratch, rng):
    """CPHD and CRSD readers have read entry points beside read(): per-vector parameters, support arrays, whole blocks.  The clause "after
    close, reads raise rather than return data" holds for each of them.  A product WITH support arrays is written, opened, read once through
    every entry point (which must give data), closed, and read again through every entry point.
    -> (failures, number of reads after close)"""
    import random
    import cphdgen
    from sarpy.io.phase_history.cphd import CPHDWriter1, CPHDReader
    fails, n = [], 0
    r = random.Random(rng.random())
    meta = cphdgen.build_meta('CI4', [(4, 6)], False, [(3, 2, 'IAZ'), (2, 3, 'AGP')])
    pvp, raw, support = cphdgen.make_pvp(meta, r), cphdgen.make_raw(meta, r), cphdgen.make_support(meta, r)
    path = os.path.join(tempfile.mkdtemp(dir=scratch), 'aux.cphd')
    w = CPHDWriter1(path, meta.copy(), check_existence=False)
    w.write_file_raw(pvp, raw, support)
    w.close()
    case = {'machine': 'R', 'root': {'k': 'filereader', 'kids': []}, 'fkind': 'CPHD', 'ftarget': 'path', 'ops': ['aux-reads', 'close', 'aux-reads'], 'nfiles': 1, 'ntemp': 0}
    rd = CPHDReader(path)
    entry = [('read_support_array(0)', lambda: rd.read_support_array(0)), ('read_support_array(1, (0, 1))', lambda: rd.read_support_array(1, (0, 1))),
             ('read_support_block()', lambda: rd.read_support_block()), ('read_pvp_array(0)', lambda: rd.read_pvp_array(0)),
             ('read_pvp_block()', lambda: rd.read_pvp_block()), ('read_signal_block()', lambda: rd.read_signal_block()),
             ('read_chip(index=0)', lambda: rd.read_chip(index=0)), ('read_raw(index=0)', lambda: rd.read_raw(index=0))]

    def has_data(v):
        return (isinstance(v, numpy.ndarray) and v.size > 0) or (isinstance(v, dict) and any(isinstance(x, numpy.ndarray) and x.size for x in v.values()))
    usable = []
    for nm, fn in entry:
        out, ecls, v = call(fn)
        if out == 'ok' and has_data(v):
            usable.append((nm, fn))
        v = None
    call(rd.close)
    if not getattr(rd, 'closed', False):
        fails.append({'key': '', 'step': 1, 'case': case, 'msg': 'CPHD reader: closed is False after close()'})
    for nm, fn in usable:
        n += 1
        out, ecls, v = call(fn)
        if out == 'ok' and has_data(v):
            fails.append({'key': 'CPHDReader:' + nm.split('(')[0] + ':returns-data-after-close', 'step': 2, 'case': dict(case, entry_point=nm),
                          'msg': f'CPHD reader (file with two support arrays): {nm} after close() returned data instead of raising'})
        v = None
    rd = None
    gc.collect()
    return fails, n, [nm for nm, _ in usable]


# ------------------------------------------------------------------------------------------------ a fault of the caller's file object, then a retry

class _FaultyBytesIO(io.BytesIO):
    """caller's in-memory file object whose k-th write() raises OSError once (a full pipe, a quota): nothing is written by the failing call"""

    def __init__(self, fail_at):
        super().__init__()
        self.fail_at, self.calls, self.failed = fail_at, 0, False

    def write(self, b):
        self.calls += 1
        if self.calls == self.fail_at and not self.failed:
            self.failed = True
            raise OSError('injected: no space left on device')
        return super().write(b)


def fault_then_retry(scratch, rng):
    """'a file object supplied by the caller is left open and holds the complete output after the writer closes': when one write() of that
    file object fails (OSError), close() reports it; once the caller's object works again, a repeated close() either completes the output or
    raises again - it never returns silently with writer.closed true over an incomplete file.  SICD writer, several image segments, every
    write position of the close sequence.
    -> (failures, number of fault positions)"""
    import sargen
    from sarpy.io.complex.sicd import SICDWriter, SICDWritingDetails
    fails, n = [], 0
    rows, cols = 14, 5
    meta = sargen.small_sicd(rows, cols)
    data = (numpy.arange(rows * cols, dtype='float32').reshape((rows, cols)) + 1 + 2j).astype('complex64')

    def run(fo, flush_mid):
        w = SICDWriter(fo, sicd_writing_details=SICDWritingDetails(meta.copy(), row_limit=5), check_existence=False)
        w.write(data[:7], start_indices=(0, 0))
        errs = []
        if flush_mid:
            try:
                w.flush()
            except OSError as e:
                errs.append('flush')
        w.write(data[7:], start_indices=(7, 0))
        for attempt in range(3):
            try:
                w.close()
                break
            except OSError:
                errs.append('close')
        return w, errs
    for flush_mid in (False, True):
        ref = io.BytesIO()
        run(ref, flush_mid)
        good = ref.getvalue()
        ref_calls = _FaultyBytesIO(10 ** 9)
        run(ref_calls, flush_mid)
        total = ref_calls.calls
        for k in range(1, total + 1):
            n += 1
            fo = _FaultyBytesIO(k)
            case = {'machine': 'W', 'kind': 'SICD', 'ops': ['write', 'flush' if flush_mid else '-', 'write', 'close', 'close'], 'fault_at_write_call': k,
                    'write_calls_without_fault': total}
            try:
                w, errs = run(fo, flush_mid)
            except Exception as e:
                fails.append({'key': '', 'step': k, 'case': case, 'msg': f'SICD writer on a file object whose write call {k} of {total} raises OSError once: '
                                                                         f'the write / close sequence raised {type(e).__name__}: {e}'})
                continue
            if not fo.failed:
                continue
            out = fo.getvalue()
            if getattr(w, 'closed', False) and out != good:
                at = next((i for i, (a_, b_) in enumerate(zip(out, good)) if a_ != b_), min(len(out), len(good)))
                fails.append({'key': '', 'step': k, 'case': case,
                              'msg': f'SICD writer on a caller-supplied file object whose write call {k} of {total} raised OSError once ({", ".join(errs) or "no call"} reported it): '
                                     f'after the repeated close() the writer is closed, but the file object does not hold the complete output '
                                     f'({len(out)} bytes, fault-free {len(good)}; first difference at byte {at})'})
    return fails, n
