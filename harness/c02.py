"""C02 — a SICD written by sarpy reads back with the same pixels and metadata; bytes independent of the write history.

proof side : lean/SarpyModel/Props/C02.lean (writer protocols, history independence, row routing) on top of C03 and C07
tie        : the kernels/ladders of C01/C03 are translator-tied; the protocol model is tied by comparing real outputs of
             both protocols (path/memmap vs file-object/in-memory) and of permuted histories byte for byte
search     : write -> open_complex -> compare pixels, metadata, bytes; independent NITF parse of each file
"""
import json
import logging
import os
import shutil
import tempfile

import numpy

from common import Check, Driver, Infra, VERIF, sarpy_guard
import nitfparse
import sargen

REQUIRED = ['stores_independent_of_flush', 'store_of_history', 'close_delivers', 'protocols_agree',
            'final_image_independent_of_history', 'split_join_rows', 'segmentation_split_join']


def strip(d, keys=('ImageCreation',)):
    if isinstance(d, dict):
        return {k: strip(v, keys) for k, v in d.items() if k not in keys}
    if isinstance(d, list):
        return [strip(v, keys) for v in d]
    return d


def meta_diff(a, b, path=''):
    if type(a) != type(b):
        if isinstance(a, (int, float)) and isinstance(b, (int, float)) and float(a) == float(b):
            return None
        return f'{path}: {a!r} vs {b!r}'
    if isinstance(a, dict):
        for k in sorted(set(a) | set(b)):
            if k not in a or k not in b:
                return f'{path}/{k}: present on one side only'
            m = meta_diff(a[k], b[k], path + '/' + k)
            if m:
                return m
        return None
    if isinstance(a, list):
        if len(a) != len(b):
            return f'{path}: lengths {len(a)} vs {len(b)}'
        for i, (x, y) in enumerate(zip(a, b)):
            m = meta_diff(x, y, f'{path}[{i}]')
            if m:
                return m
        return None
    if isinstance(a, float):
        if a == b or (a != a and b != b):
            return None
        if abs(a - b) <= 1e-9 * max(1.0, abs(a), abs(b)):
            return None
        return f'{path}: {a!r} vs {b!r}'
    return None if a == b else f'{path}: {a!r} vs {b!r}'


def one_case(rng, tmpdir, tier, fails, stats, seen):
    from sarpy.io.complex.converter import open_complex
    pt = rng.choice(['RE32F_IM32F', 'RE32F_IM32F', 'RE16I_IM16I', 'AMP8I_PHS8I'])
    rows, cols = rng.randint(2, 48), rng.randint(2, 40)
    if rng.random() < 0.2:
        rows, cols = rng.choice([(3, 2100), (2100, 3), (2, 8200), (5, 8193)])
    row_limit = rng.choice([None, rng.randint(1, rows), max(1, rows // 3)])
    case = {'rows': rows, 'cols': cols, 'pixel_type': pt, 'row_limit': row_limit}
    if pt == 'AMP8I_PHS8I':
        table = numpy.sort(numpy.array([rng.uniform(0, 100) for _ in range(256)]))
        table = numpy.cumsum(numpy.abs(numpy.diff(numpy.concatenate([[0.0], table]))) + 1e-3)   # strictly increasing
        meta = sargen.small_sicd(rows, cols, pt, amp_table=table)
        mag = numpy.array([[rng.randrange(256) for _ in range(cols)] for _ in range(rows)])
        ph = numpy.array([[rng.randrange(256) for _ in range(cols)] for _ in range(rows)])
        data = (table[mag] * numpy.exp(2j * numpy.pi * ph / 256.0)).astype('complex64')
    else:
        meta = sargen.small_sicd(rows, cols, pt)
        data = sargen.pixel_array(rng, rows, cols, pt)
    nseg = 1 if not row_limit else -(-rows // row_limit)
    seen.add((pt, min(nseg, 4), rows > 2048 or cols > 2048))
    # the creation block the caller supplies: absent, partial (no DateTime) or complete.  The writer stamps Profile (and DateTime when
    # missing); everything else the caller supplied must come back
    from sarpy.io.complex.sicd_elements.ImageCreation import ImageCreationType
    icv = rng.choice(['absent', 'absent', 'app+site', 'site', 'complete'])
    if icv == 'absent':
        meta.ImageCreation = None
    elif icv == 'app+site':
        meta.ImageCreation = ImageCreationType(Application='harness 1.0', Site='site A')
    elif icv == 'site':
        meta.ImageCreation = ImageCreationType(Site='site B')
    else:
        meta.ImageCreation = ImageCreationType(Application='harness 2.0', Site='site C', DateTime=numpy.datetime64('2020-02-03T04:05:06'), Profile='old profile')
    supplied = None if meta.ImageCreation is None else {k: getattr(meta.ImageCreation, k) for k in ('Application', 'Site', 'DateTime')}
    case = dict(case, image_creation=icv)
    seen.add(('image-creation', icv))
    # reference history: one whole write to a path
    logging.disable(logging.CRITICAL)
    try:
        ref, det = sargen.write_sicd(meta, data, 'path', tmpdir, row_limit=row_limit, name='ref.nitf')
    except Exception as e:
        fails.append({'kind': 'write', 'msg': f'SICD write refused: {type(e).__name__}: {e}', 'case': case,
                      'key': 'amp8i-write' if pt == 'AMP8I_PHS8I' else None})
        return
    stats['files'] = stats.get('files', 0) + 1
    stamp = det.sicd_meta.ImageCreation
    problems, _ = nitfparse.check_structure(ref)
    for p in problems:
        fails.append({'kind': 'structure', 'msg': 'written SICD is not structurally consistent: ' + p, 'case': case})
    # read back
    try:
        rdr = open_complex(os.path.join(tmpdir, 'ref.nitf'))
        try:
            if type(rdr).__name__ != 'SICDReader' or rdr.image_count != 1:
                fails.append({'kind': 'read', 'msg': f'reopened as {type(rdr).__name__} with {rdr.image_count} images', 'case': case})
            got = rdr[:, :] if rows > 1 and cols > 1 else rdr.read(squeeze=False)
            got = numpy.reshape(got, data.shape)
            if pt in ('RE32F_IM32F', 'RE16I_IM16I'):
                if not numpy.array_equal(got, data):
                    bad = numpy.argwhere(got != data)[0].tolist()
                    fails.append({'kind': 'pixels', 'msg': f'pixels differ after write/read (first at {bad}: wrote {data[tuple(bad)]!r}, read {got[tuple(bad)]!r})', 'case': case})
            else:
                err = numpy.abs(got - data)
                step = numpy.max(numpy.diff(table)) + 2 * numpy.pi * numpy.max(table) / 256
                if float(numpy.max(err)) > 1e-3 * float(numpy.max(table)) + 1e-3:
                    bad = numpy.unravel_index(numpy.argmax(err), err.shape)
                    fails.append({'kind': 'pixels', 'key': 'amp8i-roundtrip',
                                  'msg': f'AMP8I_PHS8I pixels representable in the table differ after write/read: max error {float(numpy.max(err)):.4g} at {tuple(int(x) for x in bad)}', 'case': case})
            a = meta.copy()
            a.derive()
            b = rdr.sicd_meta.copy()
            b.derive()
            m = meta_diff(strip(a.to_dict()), strip(b.to_dict()))
            if m:
                fails.append({'kind': 'metadata', 'msg': 'metadata differs after write/read: ' + m, 'case': case})
            ic = rdr.sicd_meta.ImageCreation
            if ic is None or ic.DateTime is None or ic.Profile is None:
                fails.append({'kind': 'metadata', 'msg': f'ImageCreation after write/read is not stamped (Profile / DateTime): {None if ic is None else ic.to_dict()}', 'case': case})
            elif supplied is not None:
                for k_, v_ in supplied.items():
                    if v_ is not None and getattr(ic, k_) != v_:
                        fails.append({'kind': 'metadata', 'msg': f'ImageCreation.{k_} supplied as {v_!r} reads back as {getattr(ic, k_)!r} (the writer stamps Profile, and DateTime only when missing)', 'case': case})
        finally:
            rdr.close()
    except Exception as e:
        fails.append({'kind': 'read', 'msg': f'reopening raised {type(e).__name__}: {e}', 'case': case})
        return
    # other histories: must produce the same bytes
    nh = 3 if tier == 'quick' else 6
    for h in range(nh):
        chunks = sargen.row_chunks(rng, rows, 5)
        if rows >= 4 and rng.random() < 0.3:
            # a strided partition: the rows of each residue class modulo `step` form one chunk (addressed by subscript); together with a row
            # limit the strided chunk is spread over several image segments
            step = rng.choice([2, 3])
            chunks = [(r0_, rows, step) for r0_ in range(step)]
        order = list(range(len(chunks)))
        rng.shuffle(order)
        flush_after = sorted(rng.sample(range(len(chunks)), rng.randint(0, len(chunks)))) if rng.random() < 0.6 else ()
        target = rng.choice(['path', 'bytesio', 'fileobj'])
        hist = {'chunks': chunks, 'order': order, 'flush_after': list(flush_after), 'target': target}
        m2 = meta.copy()
        m2.ImageCreation = stamp.copy()
        try:
            out, _ = sargen.write_sicd(m2, data, target, tmpdir, row_limit=row_limit, chunks=chunks, order=order, flush_after=flush_after, name='h.nitf')
        except Exception as e:
            fails.append({'kind': 'history', 'msg': f'chunked history refused: {type(e).__name__}: {e}', 'case': dict(case, history=hist)})
            continue
        stats['histories'] = stats.get('histories', 0) + 1
        # the reference must be re-rendered with the same stamp
        if h == 0:
            ref2, _ = sargen.write_sicd(m2, data, 'path', tmpdir, row_limit=row_limit, name='ref2.nitf')
            ref = ref2
        if out != ref:
            i = next((k for k in range(min(len(out), len(ref))) if out[k] != ref[k]), min(len(out), len(ref)))
            fails.append({'kind': 'history', 'msg': f'bytes depend on the write history: {target} output of {len(chunks)} chunks in order {order} with flushes after {list(flush_after)} '
                                                    f'differs from one whole write to a path at byte {i} (lengths {len(out)} / {len(ref)})',
                          'case': dict(case, history=hist)})


def run(tier):
    sarpy_guard()
    chk = Check('C02', tier)
    rng = chk.rng
    # the segmentation loop is regenerated from /repo (translate/gen_loops.py) and bridged to Spec.Layout.segmentation: the row routing theorem then
    # holds for the regenerated code (Bridge/LoopsPipe.lean)
    import loops2
    import hdr
    l_info = loops2.regen('nitf')
    # the step between layout and codecs - which pixel encoding the reader derives from the image subheaders the writer made - is regenerated
    # from sicd.py / nitf.py (translate/gen_hdr.py) and bridged to Spec.Hdr (Bridge/Hdr.lean, Bridge/HdrSicd.lean); theorems Props/C02Hdr.lean
    h_info = hdr.regen('sicd')
    h_targets, h_extra = hdr.obligations('sicd')
    broken = chk.prove(['SarpyModel.Props.C02', 'SarpyModel.Bridge.LoopsPipe', 'SarpyModel.Drivers'] + h_targets, 'SarpyModel.Props.C02', 'Sarpy.Props.C02', REQUIRED,
                       {'loop_kernels': l_info, 'header_chains': h_info},
                       extra=[('SarpyModel.Bridge.LoopsPipe', 'Sarpy.Bridge.LP', ['gen_segmentation_split_join']),
                              ('SarpyModel.Bridge.Loops', 'Sarpy.Bridge.L', ['gen_seg_cond', 'gen_seg_body', 'gen_default_image_segmentation', 'gen_construct_block_bounds'])] + h_extra)
    if [u for u in l_info['unsupported'] if u[0] == 'default_image_segmentation']:
        broken.append('translator could not express: ' + json.dumps(l_info['unsupported']))
    fails = []
    stats = {}
    disagreements = []
    seen = set()
    tmpdir = tempfile.mkdtemp(prefix='c02_', dir=os.environ.get('VERIF_SCRATCH', '/var/tmp'))
    try:
        for _ in range(30 if tier == 'quick' else 400):
            one_case(rng, tmpdir, tier, fails, stats, seen)
        # header interpretation: real writer / reader vs regenerated chains vs reference model, and the direct oracle on real files
        hdr.run_family('sicd', rng, tier, tmpdir, broken, fails, disagreements, stats, seen, h_info)
    finally:
        shutil.rmtree(tmpdir, ignore_errors=True)
        logging.disable(logging.NOTSET)
    # segmentation kernel: implementation vs regenerated Lean vs reference definition + direct tiling oracle
    nseg = loops2.run_kernels(rng, tier, ['seg'], fails, disagreements, stats, relax=('seg-limit',))
    chk.coverage.update({
        'evaluations': stats.get('files', 0) + stats.get('histories', 0) + nseg + stats.get('hdr_model_cases', 0) + stats.get('hdr_files', 0),
        'distinct_nontrivial': len(seen),
        'rule': 'random image sizes (2..48 rows/cols plus > 2048 strips), pixel types RE32F_IM32F / RE16I_IM16I / AMP8I_PHS8I (random strictly increasing table), '
                'row limits forcing 1..k segments; per case one whole-image write to a path plus 3 (quick) or 6 histories with random row-chunk partitions, '
                'orders, flush placements and path / BytesIO / caller-file targets; distinct = (pixel type, segment-count class, large-dimension flag); '
                'header interpretation (harness/hdr.py): every pixel type x segment sizes incl. 8192 / 8193 / > 8192 rows and columns and several segments on the real '
                'writing-details, reader and writer classes; 250 (quick) stand-in headers outside the writer\'s table x metadata pixel types x AmpTable present / absent; '
                'numpy.dtype for every kind, byte order and size 0..40; 15 (quick) real files parsed out of band, decoded with numpy alone and read back; 3 x 3 cross table '
                'and relabelled files on the real reader',
        'samples': [fails[0]['case']] if fails else [{'rows': 17, 'cols': 9, 'pixel_type': 'RE16I_IM16I', 'row_limit': 5}],
        'stats': stats,
        'traces_validated_against_impl': stats.get('histories', 0),
        'disagreements_checked': len(disagreements),
    })
    chk.assumptions += [
        'the row segmentation the routing theorem speaks about is the regenerated default_image_segmentation (translator tie, Bridge/Loops.lean, Bridge/LoopsPipe.lean)',
        'the protocol model (Spec.Pipeline) is tied to NITFWriter by comparing the real outputs of both protocols and of permuted/flush-interleaved histories byte for byte, not by a translator',
        'metadata equality is checked through to_dict after derive() on both sides, ignoring ImageCreation (documented stamp)',
        'AMP8I_PHS8I: only table-representable pixels are written (exactness expected); quantisation bounds are C08',
    ] + hdr.ASSUMPTIONS
    unknown = [f for f in fails if not (f.get('key') and chk.known(f['key']))]
    for f in unknown[:5]:
        chk.violation(f['msg'], {'case': f, 'replay_cmd': './check C02 --replay <this file>'}, True)
    if len(unknown) > 5:
        chk.notes.append(f'{len(unknown)} failing inputs found, first 5 reported')
    if not unknown and (broken or disagreements):
        chk.violation('proof obligation or correspondence no longer checks: ' + '; '.join(broken[:3] + [d['msg'][:200] for d in disagreements[:2]]),
                      {'broken_obligations': broken, 'disagreements': disagreements[:10]}, False)
    chk.coverage['failing_inputs'] = len(fails)
    return chk.finish()


def replay(path):
    case = json.load(open(path))['case']
    if isinstance(case.get('case'), dict) and 'kernel' in case['case']:
        import loops2
        return loops2.replay_case(case['case'])
    if isinstance(case.get('case'), dict) and 'hdr' in case['case']:
        import hdr
        return hdr.replay_case(case['case']['hdr'])
    print(json.dumps(case)[:2000])
    return 1
