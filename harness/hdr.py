"""hdr - "the reader interprets the image subheaders the writer produced as the very pixel encoding the writer used", for C02 (SICD)
and C10 (SIDD).  Called from harness/c02.py and harness/c10.py.

proof side : lean/SarpyModel/Props/C02Hdr.lean, Props/C10Hdr.lean, Props/HdrCommon.lean (reference model Spec/Hdr.lean)
tie        : translator translate/gen_hdr.py regenerates the writers' pixel-type tables and the readers' decision chains into
             Gen/Hdr.lean / HdrSicd.lean / HdrSidd.lean on every run; bridge theorems Gen = Spec (Bridge/Hdr*.lean) are proof obligations.
             Correspondence (this file), three ways real code / regenerated Lean / reference definitions:
               (a) the subheader fields the REAL writing-details objects produce for every pixel type and a set of segment sizes
                   (incl. exactly 8192, 8193 and > 8192 rows / columns, several segments) vs the writer tables;
               (b) what the REAL reader / writer classes derive from those headers after a trip through bytes (compliance verdict, raw
                   dtype, formatted dtype / bands, complex order, lut, format function class and its parameters) vs the model;
               (c) the same on stand-in headers OUTSIDE the writers' tables (QI / PM orders, NBPP 64 / 12 / 24, PVTYPE C / B, 1 / 3 / 4
                   bands, concatenating labels, lookup tables, compressed IC, IMODE S, wrong ICAT / IID1, every metadata pixel type,
                   AmpTable present or absent);
               (d) numpy's dtype constructor vs `npDtype` for every kind, byte order and size 0..40 (reference spec of external semantics).
search     : direct oracle on the real code, independent of the model: small products of every pixel type and size class are written
             through the real writer, the subheader bytes are parsed OUT OF BAND and compared with what the standard prescribes for
             the pixel type (a table stated here, not read from sarpy), the stored bytes are decoded with numpy alone and compared
             with what was written, the file is read back through the real opener and compared again; every SICD header of the
             writer's table is offered to the real compliance check under every other pixel type, and files whose XML is relabelled
             to another pixel type must not open as a readable SICD.
"""
import json
import logging
import os
import re
import types

import numpy

from common import VERIF, Driver, Infra
import nitfparse
import sargen

GEN_PATH = os.path.join(VERIF, 'lean', 'SarpyModel', 'Gen', 'Hdr.lean')
REFUSED = Exception      # whatever the implementation raises on a header is `refused` (errors are compared as a small enum, never by class or message)

BRIDGE = ['gen_is_compressed', 'gen_raw_dtype', 'anyM_pure', 'gen_pair_test', 'gen_complex_order', 'gen_lut_info', 'gen_get_dtype', 'gen_format_function',
          'gen_nitf_reader_compliance', 'gen_nitf_writer_compliance', 'gen_glue']
BRIDGE_SICD = ['gen_sicd_reader_compliance', 'gen_sicd_reader_format_function', 'gen_sicd_writer_format_function', 'gen_sicd_writer_hdr', 'gen_glue']
BRIDGE_SIDD = ['gen_check_iid_format', 'gen_sidd_reader_compliance', 'gen_sidd_writer_hdr', 'gen_glue']
COMMON = ['enc_fields', 'getDtype_congr', 'interp_congr', 'nitfReaderCompliance_congr', 'nitfWriterCompliance_congr', 'anyM_pairs', 'pairsAll_even',
          'complexOrder_iff', 'complexOrder_short', 'writer_blocks', 'gen_writer_blocks', 'ofBytesBE_toBytesBE', 'bytes_roundtrip', 'map_roundtrip']
C02_HDR = ['sicdReaderCompliance_congr', 'sicdRead_congr', 'sicdWrite_congr', 'sicdHdr_enc', 'sicd_reader_selects', 'sicd_writer_selects',
           'sicd_reader_eq_writer', 'gen_sicd_reader_selects', 'sicd_amp_without_table', 'intended_injective', 'sicd_dtype_injective',
           'sicd_read_injective', 'sicd_compliance_cross', 'sicd_compliance_diagonal', 'sicd_mislabelled_skipped', 'sicdHdr_blocks',
           'sicd_writer_blocks', 'wrapSigned_of_range', 'amp_point', 'sicd_roundtrip']
C10_HDR = ['siddReaderCompliance_congr', 'siddRead_congr', 'siddWrite_congr', 'sidd_writer_table', 'sidd_writer_refuses_lut', 'sidd_writer_accepts',
           'gen_sidd_writer_accepts', 'siddHdr_enc', 'sidd_reader_selects', 'sidd_writer_selects', 'sidd_reader_eq_writer', 'sidd_dtype_injective',
           'intendedSidd_injective', 'sidd_reads_lut', 'siddHdr_blocks', 'sidd_writer_blocks', 'isDigit_ofNat', 'siddIid_ok', 'sidd_roundtrip']

SICD_TYPES = ['RE32F_IM32F', 'RE16I_IM16I', 'AMP8I_PHS8I']
SIDD_TYPES = ['MONO8I', 'MONO16I', 'RGB24I']
SIDD_ALL = ['MONO8I', 'MONO8LU', 'MONO16I', 'RGB8LU', 'RGB24I']

# what the standards prescribe for the image subheader of each pixel type (SICD Volume 2 / SIDD Volume 2 NITF file format descriptions);
# stated here independently of sarpy: (PVTYPE, NBPP, ABPP, IREP, ICAT, IC, IMODE, [(IREPBAND, ISUBCAT)], numpy dtype of the stored samples)
STANDARD = {
    'RE32F_IM32F': ('R', 32, 32, 'NODISPLY', 'SAR', 'NC', 'P', [('', 'I'), ('', 'Q')], '>f4'),
    'RE16I_IM16I': ('SI', 16, 16, 'NODISPLY', 'SAR', 'NC', 'P', [('', 'I'), ('', 'Q')], '>i2'),
    'AMP8I_PHS8I': ('INT', 8, 8, 'NODISPLY', 'SAR', 'NC', 'P', [('', 'M'), ('', 'P')], '>u1'),
    'MONO8I': ('INT', 8, 8, 'MONO', 'SAR', 'NC', 'B', [('M', '')], '>u1'),
    'MONO16I': ('INT', 16, 16, 'MONO', 'SAR', 'NC', 'B', [('M', '')], '>u2'),
    'RGB24I': ('INT', 8, 8, 'RGB', 'SAR', 'NC', 'P', [('R', ''), ('G', ''), ('B', '')], '>u1'),
}


def obligations(family):
    """(lake targets, extra audits) to add to the property's Check.prove call"""
    fam = 'Sicd' if family == 'sicd' else 'Sidd'
    pid = 'C02' if family == 'sicd' else 'C10'
    targets = [f'SarpyModel.Props.{pid}Hdr', f'SarpyModel.Bridge.Hdr{fam}', 'SarpyModel.Bridge.Hdr', 'SarpyModel.Props.HdrCommon']
    extra = [(f'SarpyModel.Props.{pid}Hdr', f'Sarpy.Props.{pid}', C02_HDR if family == 'sicd' else C10_HDR),
             ('SarpyModel.Props.HdrCommon', 'Sarpy.Props.Hdr', COMMON),
             ('SarpyModel.Bridge.Hdr', 'Sarpy.Bridge.Hdr', BRIDGE),
             (f'SarpyModel.Bridge.Hdr{fam}', f'Sarpy.Bridge.Hdr{fam}', BRIDGE_SICD if family == 'sicd' else BRIDGE_SIDD)]
    return targets, extra


def regen(family):
    import gen_hdr
    r = gen_hdr.generate(GEN_PATH)
    mine = {k for k, g in gen_hdr.GROUP_OF.items() if g in ('nitf', family)} | {'jobs', 'glue', 'writer tables'}
    return {'hashes': {k: v for k, v in r['hashes'].items() if k in mine}, 'unsupported': [u for u in r['unsupported'] if u[0] in mine],
            'changed': r['changed'], 'writer_table': r['info'].get(f'{family}_writer_hdr')}


# ---------------------------------------------------------------------------------------------------------------- canonical strings
def _s(x):
    return x if x else '_'


def canon(text):
    """byte order of one-byte items is not a property of the data: `>u1` and `|u1` are the same dtype"""
    return re.sub(r'[<>|]([ui])1(?![0-9])', r'|\g<1>1', text)


def show_raw(d):
    if d is None:
        return 'None'
    d = numpy.dtype(d)
    bo = d.byteorder
    if bo == '=':
        bo = '<' if numpy.little_endian else '>'
    if bo == '|':
        bo = '|'
    return canon(f'{bo}{d.kind}{d.itemsize}')


def show_fd(fd, raw, lut):
    if lut is not None:
        return 'lut'
    if fd is not None and numpy.dtype(fd) == numpy.dtype('complex64') and (raw is None or numpy.dtype(raw) != numpy.dtype(fd) or numpy.dtype(raw).byteorder != numpy.dtype(fd).byteorder):
        return 'complex64'
    return 'raw:' + show_raw(raw)


class quiet:
    """sarpy logs every refusal; keep the run's output to the verdict lines (nesting-safe)"""

    def __enter__(self):
        self.level = logging.root.manager.disable
        logging.disable(logging.CRITICAL)

    def __exit__(self, *a):
        logging.disable(self.level)


def show_ff(f, lut=None):
    if f is None:
        return 'none'
    n = type(f).__name__
    if n == 'AmpLookupFunction':
        return f'amp({show_raw(f._raw_dtype)})'
    if n == 'ComplexFormatFunction':
        return f'complex({show_raw(f._raw_dtype)},{f.order},{f.band_dimension})'
    if n == 'SingleLUTFormatFunction':
        # the table handed to the constructor (what the constructor does with a one-column table is the format function's business)
        return 'lut(' + '.'.join(str(x) for x in (lut if lut is not None else f.lookup_table).shape) + ')'
    return 'unknown:' + n


def show_lut(l):
    return '-' if l is None else '.'.join(str(x) for x in l.shape)


def enc_hdr(h):
    """the real ImageSegmentHeader as the driver's header token"""
    bands = ';'.join(f'{_s(b.ISUBCAT)}:{_s(b.IREPBAND)}:{show_lut(b.LUTD)}' for b in h.Bands) or '-'
    return ','.join([_s(h.PVTYPE), str(h.NBPP), _s(h.IC), _s(h.IMODE), _s(h.ICAT), '1' if h.mask_subheader is not None else '0', _s(h.IID1),
                     str(h.NROWS), str(h.NCOLS), str(h.NPPBH), str(h.NPPBV), str(h.NBPR), str(h.NBPC)]) + '|' + bands


def show_whdr(h):
    bands = ';'.join(f'{_s(b.ISUBCAT)}:{_s(b.IREPBAND)}:{show_lut(b.LUTD)}' for b in h.Bands) or '-'
    return ','.join([_s(h.PVTYPE), str(h.NBPP), str(h.ABPP), _s(h.IREP), _s(h.ICAT), _s(h.IC), _s(h.IMODE), str(h.NROWS), str(h.NCOLS), str(h.NPPBH),
                     str(h.NPPBV), str(h.NBPR), str(h.NBPC), '1' if h.mask_subheader is not None else '0']) + '|' + bands


def token_ok(h):
    """the line protocol carries plain tokens: no separators inside strings"""
    vals = [h.PVTYPE, h.IC, h.IMODE, h.ICAT, h.IID1] + [b.ISUBCAT for b in h.Bands] + [b.IREPBAND for b in h.Bands]
    return all(re.fullmatch(r'[A-Za-z0-9/]*', v or '') and v != '_' for v in vals)


# ---------------------------------------------------------------------------------------------------------------- the real code on a header
_QUIET = {}


def _standin(cls, hdr, meta):
    # a subclass whose finaliser does nothing (the object is never opened): every method under test is the class's own
    if cls not in _QUIET:
        _QUIET[cls] = type(cls.__name__ + 'StandIn', (cls, ), {'__del__': lambda self: None, 'close': lambda self: None})
    o = object.__new__(_QUIET[cls])
    nd = types.SimpleNamespace(img_headers=[hdr], close=lambda: None, file_name=None)
    name = cls.__name__
    if name in ('SICDReader', 'SIDDReader'):
        o._nitf_details = nd
        if name == 'SICDReader':
            o._sicd_meta = meta
        else:
            o._sidd_meta = meta
    else:
        o._nitf_writing_details = types.SimpleNamespace(image_managers=(types.SimpleNamespace(subheader=hdr, item_bytes=None), ), sicd_meta=meta)
    return o


def _route(hdr):
    if hdr.IC not in ('NC', 'NM') or hdr.IMODE not in ('B', 'R', 'P'):
        return None
    return {'B': 0, 'R': 1, 'P': 2}[hdr.IMODE]


def _interp(o, hdr):
    axis = _route(hdr)
    if axis is None:
        return 'other'
    try:
        raw, fd, fb, order, lut = o._get_dtypes(0)
        ff = o.get_format_function(raw, order, lut, 2)
    except REFUSED:
        return 'refused'
    return f'reads:{show_raw(raw)}|{len(hdr.Bands)}|{axis}|{show_ff(ff, lut)}|{show_fd(fd, raw, lut)}|{fb}'


def real_read(cls, hdr, meta):
    """what the real reader class does with one image segment: skipped (listed unsupported) / refused (raises) / other / reads:..."""
    o = _standin(cls, hdr, meta)
    try:
        ok = o._check_image_segment_for_compliance(0, hdr)
    except REFUSED:
        return 'refused', 'refused'
    if not ok:
        return 'skipped', '0'
    return _interp(o, hdr), '1'


def real_write(cls, hdr, meta):
    o = _standin(cls, hdr, meta)
    try:
        o._check_image_segment_for_compliance(0, hdr)
    except REFUSED:
        return 'refused', 'refused'
    return _interp(o, hdr), '1'


def real_dtype(hdr):
    from sarpy.io.general.nitf import _get_dtype
    try:
        raw, fd, fb, order, lut = _get_dtype(hdr)
    except REFUSED:
        return 'refused'
    return f'{show_raw(raw)}|{show_fd(fd, raw, lut)}|{fb}|{order or "N"}|{show_lut(lut)}'


def model_norm(s):
    """model answers name the exception class; the implementation side is compared as `refused` (errors are a small enum)"""
    s = re.sub(r'refused:\w+', 'refused', s)
    s = re.sub(r'err:\w+', 'refused', s)
    return canon(s)


def fields(ans):
    return dict(x.split('=', 1) for x in ans.split(' ') if '=' in x)


# ---------------------------------------------------------------------------------------------------------------- generators
def sicd_meta(pt, rows, cols, amp=True):
    m = sargen.small_sicd(rows, cols, pt)
    if pt == 'AMP8I_PHS8I' and not amp:
        m.ImageData.AmpTable = None
    return m


def writer_headers(family, pt, rows, cols, row_limit):
    """the real writing-details object (no file is written): its image subheaders"""
    with quiet():
        if family == 'sicd':
            from sarpy.io.complex.sicd import SICDWritingDetails
            det = SICDWritingDetails(sicd_meta(pt, rows, cols), row_limit=row_limit)
        else:
            from sarpy.io.product.sidd import SIDDWritingDetails
            det = SIDDWritingDetails([sargen.small_sidd(rows, cols, pt)], None, row_limit=row_limit)
        return [m.subheader for m in det.image_managers]


SIZES = [(3, 4, None), (2, 8192, None), (2, 8193, None), (3, 9000, None), (8192, 2, None), (8193, 2, None), (7, 5, 3), (8200, 3, 8193), (20000, 2, None)]


def standin_header(rng):
    from sarpy.io.general.nitf_elements.image import ImageSegmentHeader, ImageBands, ImageBand
    pv = rng.choice(['INT', 'SI', 'R', 'C', 'B', 'INT', 'R'])
    nbpp = rng.choice([8, 16, 32, 64, 8, 16, 32, 12, 24, 1, 96, 40])
    nb = rng.choice([1, 2, 2, 2, 3, 4, 4, 6])
    style = rng.random()
    if style < 0.45:
        a, b = rng.choice([('I', 'Q'), ('Q', 'I'), ('M', 'P'), ('P', 'M')])
        labs = [(a if k % 2 == 0 else b) for k in range(nb)]
        if rng.random() < 0.3 and nb >= 2:
            k = rng.randrange(nb)
            labs[k] = rng.choice(['I', 'Q', 'M', 'P', '', 'X'])
    elif style < 0.6:
        labs = rng.choice([['', 'IQ'], ['IQ', ''], ['MP', ''], ['', 'QI'], ['I', 'QI'], ['IQ', 'IQ']])[:nb] + [''] * max(0, nb - 2)
    else:
        labs = [rng.choice(['', '', 'I', 'Q', 'M', 'P', 'R']) for _ in range(nb)]
    bands = []
    for k, l in enumerate(labs):
        b = ImageBand(ISUBCAT=l, IREPBAND=rng.choice(['', 'M', 'R', 'G', 'B', 'LU']))
        if rng.random() < (0.25 if k == 0 else 0.06):
            b.LUTD = numpy.zeros((rng.choice([1, 1, 3, 2, 4]), rng.choice([2, 16, 256])), dtype='uint8')
        bands.append(b)
    ic = rng.choice(['NC', 'NC', 'NC', 'NC', 'NM', 'C3', 'C8', 'I1', 'M1', 'C5'])
    h = ImageSegmentHeader(PVTYPE=pv, NBPP=nbpp, ABPP=min(nbpp, 99), NROWS=rng.randint(1, 9), NCOLS=rng.randint(1, 9), IC=ic,
                           IMODE=rng.choice(['P', 'P', 'B', 'R', 'S']), ICAT=rng.choice(['SAR', 'SAR', 'SAR', 'VIS', 'SARIQ', 'LEG']),
                           IID1=rng.choice(['SIDD001001', 'SIDD001001', 'SICD000', 'SIDD00100', 'SIDD', 'SIDDabc001', 'SIDX001001', 'sidd001001', 'SIDD0010011']),
                           IREP=rng.choice(['NODISPLY', 'MONO', 'RGB', 'RGB/LUT']), Bands=ImageBands(values=bands))
    if rng.random() < 0.1:
        # a mask subheader object where IC says there is none (or the reverse) - only the writer's check looks at it
        h._mask_subheader = object()
    return h


# ---------------------------------------------------------------------------------------------------------------- the direct oracle
def oob_subheaders(buf):
    """[(fields, data offset, data size)] of every image segment, parsed out of band"""
    fh = nitfparse.parse_file_header(buf)
    out = []
    off = fh['HL']
    for sub, dat in fh['segments'].get('image', []):          # the image segments follow the file header
        out.append((nitfparse.parse_image_subheader(buf, off, sub), off + sub, dat))
        off += sub + dat
    return out


def check_subheader(pt, im, where):
    """the written subheader against what the standard prescribes for the pixel type; -> list of messages"""
    pv, nbpp, abpp, irep, icat, ic, imode, bands, _ = STANDARD[pt]
    msgs = []

    def want(name, got, exp):
        if got != exp:
            msgs.append(f'{where}: {name} is {got!r}, the standard prescribes {exp!r} for pixel type {pt}')
    want('PVTYPE', im['PVTYPE'].decode().strip(), pv)
    want('NBPP', im['NBPP'], nbpp)
    want('ABPP', im['ABPP'], abpp)
    want('IREP', im['IREP'].decode().strip(), irep)
    want('ICAT', im['ICAT'].decode().strip(), icat)
    want('IC', im['IC'].decode(), ic)
    want('IMODE', im['IMODE'].decode(), imode)
    want('NBANDS', im['bands'], len(bands))
    for k, (rb, sc) in enumerate(bands[:im['bands']]):
        want(f'IREPBAND{k}', im[f'IREPBAND{k}'].decode().strip(), rb)
        want(f'ISUBCAT{k}', im[f'ISUBCAT{k}'].decode().strip(), sc)
        want(f'NLUTS{k}', im[f'NLUTS{k}'], 0)
    # MIL-STD-2500C: NPPBH / NPPBV 0001-8192 pixels per block; 0000 (with one block in that direction) for a dimension beyond 8192
    want('NBPR', im['NBPR'], 1)
    want('NBPC', im['NBPC'], 1)
    want('NPPBH', im['NPPBH'], im['NCOLS'] if im['NCOLS'] <= 8192 else 0)
    want('NPPBV', im['NPPBV'], im['NROWS'] if im['NROWS'] <= 8192 else 0)
    return msgs


def make_pixels(rng, pt, rows, cols):
    """(what is handed to the writer, the stored numbers as a (rows, cols, bands) integer/float array, amplitude table | None)"""
    if pt == 'RE32F_IM32F':
        st = numpy.array([[[rng.uniform(-1e3, 1e3), rng.uniform(-1e3, 1e3)] for _ in range(cols)] for _ in range(rows)], dtype='float32')
        return (st[..., 0] + 1j * st[..., 1]).astype('complex64'), st, None
    if pt == 'RE16I_IM16I':
        st = numpy.array([[[rng.choice([-32768, 32767, 0, 1, -1, rng.randint(-32768, 32767)]) for _ in range(2)] for _ in range(cols)] for _ in range(rows)], dtype='int16')
        return (st[..., 0].astype('float32') + 1j * st[..., 1].astype('float32')).astype('complex64'), st, None
    if pt == 'AMP8I_PHS8I':
        table = numpy.cumsum(numpy.array([rng.uniform(0.5, 3.0) for _ in range(256)]))
        st = numpy.array([[[rng.randrange(256), rng.randrange(256)] for _ in range(cols)] for _ in range(rows)], dtype='uint8')
        z = (table[st[..., 0]] * numpy.exp(2j * numpy.pi * st[..., 1] / 256.0)).astype('complex64')
        return z, st, table
    d = sargen.sidd_pixels(rng, rows, cols, pt)
    return d, (d if d.ndim == 3 else d[..., None]), None


def oracle_file(rng, family, pt, rows, cols, row_limit, tmpdir, fails, stats):
    """write -> parse out of band -> numpy decode of the stored bytes -> read back; everything compared with what was written"""
    case = {'hdr': {'kind': 'file', 'family': family, 'pixel_type': pt, 'rows': rows, 'cols': cols, 'row_limit': row_limit, 'seed': rng.getrandbits(32)}}
    return oracle_file_case(case, tmpdir, fails, stats)


def oracle_file_case(case, tmpdir, fails, stats):
    import random
    c = case['hdr']
    family, pt, rows, cols, row_limit = c['family'], c['pixel_type'], c['rows'], c['cols'], c['row_limit']
    rng = random.Random(c['seed'])
    data, stored, table = make_pixels(rng, pt, rows, cols)
    n0 = len(fails)

    def fail(msg, kind='header'):
        fails.append({'kind': 'hdr-' + kind, 'msg': msg, 'case': case})
    _lvl = logging.root.manager.disable
    logging.disable(logging.CRITICAL)
    try:
        try:
            if family == 'sicd':
                meta = sargen.small_sicd(rows, cols, pt, amp_table=table)
                buf, _ = sargen.write_sicd(meta, data, 'path', tmpdir, row_limit=row_limit, name='hdr.nitf')
            else:
                meta = sargen.small_sidd(rows, cols, pt)
                buf, _ = sargen.write_sidd([meta], [data], 'path', tmpdir, row_limit=row_limit, name='hdr.nitf')
        except Exception as e:
            fail(f'{family.upper()} of pixel type {pt}, {rows} x {cols} (row limit {row_limit}): the writer raised {type(e).__name__}: {e}', 'write')
            return len(fails) - n0
        stats['hdr_files'] = stats.get('hdr_files', 0) + 1
        # (1) the subheaders, out of band
        try:
            segs = oob_subheaders(buf)
        except Exception as e:
            fail(f'{pt} {rows} x {cols}: the written file does not parse out of band: {type(e).__name__}: {e}', 'parse')
            return len(fails) - n0
        dt = numpy.dtype(STANDARD[pt][8])
        nb = len(STANDARD[pt][7])
        pieces = []
        for k, (im, off, size) in enumerate(segs):
            for m in check_subheader(pt, im, f'{pt} {rows} x {cols}, image segment {k} ({im["NROWS"]} x {im["NCOLS"]})'):
                fail(m)
            # (2) the stored bytes decoded with numpy alone, in the layout the standard prescribes
            want = im['NROWS'] * im['NCOLS'] * nb * dt.itemsize
            if size != want:
                fail(f'{pt} {rows} x {cols}, image segment {k}: {size} bytes of image data, {want} expected for {im["NROWS"]} x {im["NCOLS"]} x {nb} samples of {dt}', 'bytes')
                continue
            arr = numpy.frombuffer(buf, dtype=dt, count=im['NROWS'] * im['NCOLS'] * nb, offset=off)
            if STANDARD[pt][6] == 'P' or nb == 1:
                arr = arr.reshape(im['NROWS'], im['NCOLS'], nb)
            else:
                arr = numpy.moveaxis(arr.reshape(nb, im['NROWS'], im['NCOLS']), 0, 2)
            pieces.append(arr)
        if pieces and sum(p.shape[0] for p in pieces) == rows and all(p.shape[1] == cols for p in pieces):
            got = numpy.concatenate(pieces, axis=0)
            if not numpy.array_equal(got, stored.astype(got.dtype)) or got.dtype.kind != stored.dtype.kind:
                bad = numpy.argwhere(got != stored.astype(got.dtype))
                at = bad[0].tolist() if len(bad) else None
                fail(f'{pt} {rows} x {cols}: the bytes of the image segments, decoded as {dt} in the prescribed band layout, are not the samples written '
                     f'(first difference at {at}: stored {got[tuple(at)] if at else None!r}, written {stored[tuple(at)] if at else None!r})', 'bytes')
        elif pieces:
            fail(f'{pt} {rows} x {cols}: the image segments hold {[p.shape[:2] for p in pieces]} pixels', 'bytes')
        # (3) read back
        path = os.path.join(tmpdir, 'hdr.nitf')
        try:
            if family == 'sicd':
                from sarpy.io.complex.converter import open_complex
                rdr = open_complex(path)
            else:
                from sarpy.io.product.converter import open_product
                rdr = open_product(path)
        except Exception as e:
            fail(f'{pt} {rows} x {cols}: reopening raised {type(e).__name__}: {e}', 'read')
            return len(fails) - n0
        try:
            back = numpy.reshape(rdr.read(squeeze=False), data.shape)
            raw_back = rdr.read_raw(squeeze=False)
            if family == 'sicd' and pt != 'AMP8I_PHS8I' or family == 'sidd':
                if not numpy.array_equal(back, data) or (back.dtype.kind, back.dtype.itemsize) != (data.dtype.kind, data.dtype.itemsize):
                    bad = numpy.argwhere(back != data)
                    at = tuple(bad[0].tolist()) if len(bad) else None
                    fail(f'{pt} {rows} x {cols}: pixels read back differ from the pixels written (first at {at}: wrote {data[at] if at else None!r}, read {back[at] if at else None!r}; '
                         f'dtypes {data.dtype} / {back.dtype})', 'pixels')
            else:
                err = float(numpy.max(numpy.abs(back - data)))
                if err > 1e-3 * float(numpy.max(table)):
                    fail(f'{pt} {rows} x {cols}: table-representable pixels read back with error {err:.4g}', 'pixels')
            rb = numpy.reshape(raw_back, stored.shape)
            if not numpy.array_equal(rb, stored):
                fail(f'{pt} {rows} x {cols}: raw samples read back differ from the stored samples', 'pixels')
        except Exception as e:
            fail(f'{pt} {rows} x {cols}: reading back raised {type(e).__name__}: {e}', 'read')
        finally:
            rdr.close()
    finally:
        logging.disable(_lvl)
    return len(fails) - n0


def oracle_cross(fails, stats):
    """(4) on the real code: the SICD reader's compliance check accepts the writer's header for p under metadata q exactly when p = q"""
    from sarpy.io.complex.sicd import SICDReader
    from sarpy.io.general.nitf_elements.image import ImageSegmentHeader
    _lvl = logging.root.manager.disable
    logging.disable(logging.CRITICAL)
    try:
        for p in SICD_TYPES:
            for rows, cols in ((3, 4), (2, 9000)):
                try:
                    hdr = writer_headers('sicd', p, rows, cols, None)[0]
                    hdr = ImageSegmentHeader.from_bytes(hdr.to_bytes(), 0)
                except Exception:
                    continue    # reported by oracle_file
                for q in SICD_TYPES:
                    meta = sicd_meta(q, rows, cols)
                    case = {'hdr': {'kind': 'cross', 'header_of': p, 'metadata': q, 'rows': rows, 'cols': cols}}
                    stats['hdr_cross'] = stats.get('hdr_cross', 0) + 1
                    try:
                        ok = bool(_standin(SICDReader, hdr, meta)._check_image_segment_for_compliance(0, hdr))
                        verdict = 'accepted' if ok else 'rejected'
                    except Exception as e:
                        verdict = f'raised {type(e).__name__}'
                    if verdict != ('accepted' if p == q else 'rejected'):
                        fails.append({'kind': 'hdr-cross', 'case': case,
                                      'msg': f'SICDReader._check_image_segment_for_compliance on the image subheader the writer makes for {p} ({rows} x {cols}), with '
                                             f'ImageData.PixelType {q} in the metadata: {verdict}; a segment must be accepted exactly when its encoding is the one the metadata names'})
    finally:
        logging.disable(_lvl)


def oracle_mislabel(rng, tmpdir, fails, stats):
    """a SICD file whose XML names another pixel type than its image segments carry must not open as a readable SICD (the three
    pixel type names have the same length, so the XML is relabelled in place)"""
    from sarpy.io.complex.converter import open_complex
    _lvl = logging.root.manager.disable
    logging.disable(logging.CRITICAL)
    try:
        for p in SICD_TYPES:
            data, stored, table = make_pixels(rng, p, 3, 4)
            meta = sargen.small_sicd(3, 4, p, amp_table=table)
            try:
                buf, _ = sargen.write_sicd(meta, data, 'path', tmpdir, name='mis.nitf')
            except Exception:
                continue        # a writer that refuses its own pixel type is reported by oracle_file
            for q in SICD_TYPES:
                if q == p or buf.count(p.encode()) != 1:
                    continue
                stats['hdr_mislabel'] = stats.get('hdr_mislabel', 0) + 1
                path = os.path.join(tmpdir, 'mis2.nitf')
                open(path, 'wb').write(buf.replace(p.encode(), q.encode()))
                case = {'hdr': {'kind': 'mislabel', 'written_as': p, 'relabelled': q}}
                try:
                    rdr = open_complex(path)
                except Exception:
                    continue
                try:
                    if type(rdr).__name__ == 'SICDReader':
                        try:
                            got = rdr.read(squeeze=False)
                            fails.append({'kind': 'hdr-mislabel', 'case': case,
                                          'msg': f'a SICD written as {p} whose XML is relabelled {q} opens as SICDReader and reads {got.shape} pixels of {got.dtype}: '
                                                 f'image segments that do not carry the encoding the metadata names are interpreted silently'})
                        except Exception:
                            pass
                finally:
                    rdr.close()
    finally:
        logging.disable(_lvl)


# ---------------------------------------------------------------------------------------------------------------- the run
def run_family(family, rng, tier, tmpdir, broken, fails, disagreements, stats, seen, info):
    """appends to broken / fails / disagreements; `info` is the result of regen(family)"""
    from sarpy.io.general.nitf_elements.image import ImageSegmentHeader
    if info['unsupported']:
        broken.append('translator gen_hdr could not express: ' + json.dumps(info['unsupported'])[:600])
    kw = 'hdrsicd' if family == 'sicd' else 'hdrsidd'
    types_ = SICD_TYPES if family == 'sicd' else SIDD_TYPES
    if family == 'sicd':
        from sarpy.io.complex.sicd import SICDReader as RD, SICDWriter as WR
    else:
        from sarpy.io.product.sidd import SIDDReader as RD, SIDDWriter as WR
    drv = Driver()
    jobs = []

    def dis(msg, **k):
        disagreements.append(dict({'kind': 'hdr', 'msg': msg}, **k))

    # (d) numpy
    for kind in 'uifc':
        for big in (1, 0):
            for n in range(0, 41):
                try:
                    d = numpy.dtype(f'{">" if big else "<"}{kind}{n}')
                    impl = f'{show_raw(d)} {d.name}'
                except Exception:
                    impl = 'refused'
                jobs.append(('numpy', {'kind': kind, 'big': big, 'n': n}, impl, drv.ask(f'hdr npdtype {big} {kind} {n}')))
    # (a) writer tables on the real writing-details objects, (b) reader / writer on those headers after a trip through bytes
    _lvl = logging.root.manager.disable
    logging.disable(logging.CRITICAL)
    try:
        all_types = types_ + (['MONO8LU', 'RGB8LU'] if family == 'sidd' else [])
        for pt in all_types:
            for rows, cols, lim in SIZES if tier == 'quick' else SIZES + [(rng.randint(1, 60), rng.randint(1, 60), rng.choice([None, 7])) for _ in range(20)]:
                try:
                    hdrs = writer_headers(family, pt, rows, cols, lim)
                except REFUSED:
                    hdrs = None
                if hdrs is None:
                    jobs.append(('whdr', {'pixel_type': pt, 'rows': rows, 'cols': cols}, 'refused', drv.ask(f'{kw} whdr {pt} {rows} {cols}')))
                    continue
                seen.add(('hdr-writer', pt, len(hdrs) > 1, rows > 8192, cols > 8192))
                for k, h in enumerate(hdrs if tier != 'quick' else hdrs[:2] + hdrs[-1:]):
                    jobs.append(('whdr', {'pixel_type': pt, 'rows': rows, 'cols': cols, 'row_limit': lim, 'segment': k}, show_whdr(h),
                                 drv.ask(f'{kw} whdr {pt} {h.NROWS} {h.NCOLS}')))
                    h2 = ImageSegmentHeader.from_bytes(h.to_bytes(), 0)
                    if show_whdr(h2) != show_whdr(h):
                        fails.append({'kind': 'hdr-header', 'case': {'hdr': {'kind': 'bytes', 'pixel_type': pt, 'rows': rows, 'cols': cols}},
                                      'msg': f'{pt}: the image subheader does not survive its own bytes: {show_whdr(h)} -> {show_whdr(h2)}'})
                    if family == 'sicd':
                        for amp in (True, False) if pt == 'AMP8I_PHS8I' else (True, ):
                            meta = sicd_meta(pt, rows, cols, amp)
                            jobs.append(('read', {'pixel_type': pt, 'header': enc_hdr(h2), 'amp_table': amp}, (real_read(RD, h2, meta), real_write(WR, h2, meta)),
                                         drv.ask(f'{kw} read {pt} {0 if amp else 1} 0 {enc_hdr(h2)}')))
                    else:
                        jobs.append(('read', {'pixel_type': pt, 'header': enc_hdr(h2)}, (real_read(RD, h2, [None]), real_write(WR, h2, None)),
                                     drv.ask(f'{kw} read 0 {enc_hdr(h2)}')))
        # (c) stand-in headers outside the tables
        n = 250 if tier == 'quick' else 4000
        made = 0
        while made < n:
            h = standin_header(rng)
            if not token_ok(h):
                continue
            made += 1
            tok = enc_hdr(h)
            seen.add(('hdr-standin', h.PVTYPE, h.NBPP in (8, 16, 32, 64), min(len(h.Bands), 3), h.IC in ('NC', 'NM'), h.IMODE, any(b.LUTD is not None for b in h.Bands)))
            jobs.append(('dtype', {'header': tok}, real_dtype(h), drv.ask(f'hdr dtype {tok}')))
            if family == 'sicd':
                pt = rng.choice(SICD_TYPES)
                amp = rng.random() < 0.7
                meta = sicd_meta(pt, 3, 4, amp)
                jobs.append(('read', {'pixel_type': pt, 'header': tok, 'amp_table': amp}, (real_read(RD, h, meta), real_write(WR, h, meta)),
                             drv.ask(f'{kw} read {pt} {0 if amp else 1} 0 {tok}')))
            else:
                jobs.append(('read', {'header': tok}, (real_read(RD, h, [None]), real_write(WR, h, None)), drv.ask(f'{kw} read 0 {tok}')))
    finally:
        logging.disable(_lvl)
    gl = [drv.ask('hdr glue'), drv.ask(f'{kw} glue')]
    try:
        ans = drv.run()
    except Infra as e:
        ans = None
        broken.append('hdr model driver does not build / run (a regenerated chain no longer type-checks): ' + str(e)[:400])
    if ans is not None:
        for i in gl:
            if ans[i] != 'true':
                dis('method resolution / thin wrappers of the reader and writer classes differ from the reference table (Spec.Hdr.glue*)')
        for what, case, impl, i in jobs:
            stats['hdr_model_cases'] = stats.get('hdr_model_cases', 0) + 1
            a = ans[i]
            if what == 'numpy':
                if model_norm(a) != impl:
                    dis(f'numpy.dtype for {case}: {impl}; npDtype: {a}', case=case)
            elif what == 'whdr':
                f = fields(a)
                for side in ('S', 'G'):
                    if model_norm(f.get(side, '?')) != impl:
                        dis(f'image subheader fields for {case}: the writer makes {impl}, the {"reference" if side == "S" else "regenerated"} table says {f.get(side)}', case=case)
            elif what == 'dtype':
                f = fields(a)
                for side in ('S', 'G'):
                    if model_norm(f.get(side, '?')) != impl:
                        dis(f'_get_dtype on {case["header"]}: implementation {impl}, {"reference" if side == "S" else "regenerated"} model {f.get(side)}', case=case)
            else:
                f = fields(a)
                (r_out, r_c), (w_out, w_c) = impl
                exp = {'R': r_out, 'W': w_out, 'C': r_c, 'GC': r_c, 'WC': w_c, 'GWC': w_c}
                for k_, v in exp.items():
                    if model_norm(f.get(k_, '?')) != v:
                        dis(f'{family.upper()} {"reader" if k_ in ("R", "C", "GC") else "writer"} on header {case["header"]} ({ {k: v for k, v in case.items() if k != "header"} }): '
                            f'implementation {v}, model {k_}={f.get(k_)}', case=case)
                if 'F' in f and 'GF' in f:
                    g = f['GF'].split('/')
                    if not (model_norm(f['F']) == model_norm(g[0]) == model_norm(g[-1])):
                        dis(f'format function chains disagree on {case["header"]}: reference {f["F"]}, regenerated reader / writer {f["GF"]}', case=case)
    # the direct oracle on real files: every pixel type x size class (always: it is the search when an obligation broke, and it is cheap)
    file_sizes = [(3, 4, None), (2, 8192, None), (2, 8193, None), (8193, 2, None), (7, 5, 3)]
    if tier != 'quick':
        file_sizes += [(rng.randint(1, 40), rng.randint(1, 40), rng.choice([None, 5])) for _ in range(12)] + [(3, 20000, None)]
    for pt in types_:
        for rows, cols, lim in file_sizes:
            seen.add(('hdr-file', pt, rows > 8192, cols > 8192, lim is not None))
            oracle_file(rng, family, pt, rows, cols, lim, tmpdir, fails, stats)
    if family == 'sicd':
        oracle_cross(fails, stats)
        oracle_mislabel(rng, tmpdir, fails, stats)
    else:
        # the writer must refuse, not mis-write, the lookup-table pixel types it has no header for
        for pt in ('MONO8LU', 'RGB8LU'):
            try:
                hdrs = writer_headers('sidd', pt, 3, 4, None)
                stats['hdr_lut_written'] = stats.get('hdr_lut_written', 0) + 1
                for k, h in enumerate(hdrs):
                    if not any(b.LUTD is not None for b in h.Bands):
                        fails.append({'kind': 'hdr-header', 'case': {'hdr': {'kind': 'lut-type', 'pixel_type': pt}},
                                      'msg': f'the SIDD writer accepts pixel type {pt} but gives image segment {k} no lookup table ({show_whdr(h)}): the product cannot be displayed as {pt}'})
            except REFUSED:
                stats['hdr_lut_refused'] = stats.get('hdr_lut_refused', 0) + 1


ASSUMPTIONS = [
    'header interpretation: the writers\' pixel-type tables (constant entries of basic_args, the pixel type chain, the ImageSegmentHeader(...) keywords, class defaults '
    'for fields given nowhere) and the readers\' chains (_get_dtype with its closures, _get_format_function, the compliance checks, get_format_function of the '
    'SICD reader and writer, _check_iid_format) are regenerated by translate/gen_hdr.py and bridged by theorem to Spec/Hdr.lean',
    'hand models tied by correspondence only: the order in which NITFReader.__init__ / NITFWriter.__init__ use those pieces (check_for_compliance, then '
    '_handle_no_compression with band dimension 2) and the IMODE -> raw band axis rule (Spec.Hdr.route, interp); numpy.dtype construction (npDtype) is '
    'enumerated against numpy for sizes 0..40',
    'fixed readings of the translator: int(a / 8) on non-negative header integers is floor division; str.isnumeric on ASCII header text is "non-empty, all decimal digits"; '
    'LUTD is an array of rank 2 as the header class stores it (other ranks are representable in the model and follow the code\'s ndim tests)',
    'the trip of the header fields through bytes (to_bytes / from_bytes) is C13\'s; here it is exercised on every generated header and out of band on every written file',
]


def replay_case(c):
    """re-run the direct oracle of one reported case on the implementation alone"""
    import shutil
    import tempfile
    fails, stats = [], {}
    tmpdir = tempfile.mkdtemp(prefix='hdr_', dir=os.environ.get('VERIF_SCRATCH', '/var/tmp'))
    try:
        if c.get('kind') == 'file':
            oracle_file_case({'hdr': c}, tmpdir, fails, stats)
        elif c.get('kind') == 'cross':
            oracle_cross(fails, stats)
            fails = [f for f in fails if f['case']['hdr'].get('header_of') == c['header_of'] and f['case']['hdr'].get('metadata') == c['metadata']]
        elif c.get('kind') == 'mislabel':
            import random
            oracle_mislabel(random.Random(0), tmpdir, fails, stats)
        else:
            print(json.dumps(c))
            return 1
    finally:
        shutil.rmtree(tmpdir, ignore_errors=True)
    for f in fails[:5]:
        print('FAIL:', f['msg'])
    print('replayed', json.dumps(c), '->', 'property violated' if fails else 'no failure')
    return 1 if fails else 0
