import argparse
import importlib
import os
import subprocess
import sys
import traceback

sys.path.insert(0, os.path.dirname(os.path.abspath(__file__)))
from common import Infra


def main():
    ap = argparse.ArgumentParser()
    ap.add_argument('pid')
    ap.add_argument('--tier', default=os.environ.get('VERIF_TIER', 'quick'), choices=['quick', 'thorough'])
    ap.add_argument('--replay')
    a = ap.parse_args()
    try:
        mod = importlib.import_module(a.pid.lower())
        if a.replay:
            return mod.replay(a.replay)
        return mod.run(a.tier)
    except Infra as e:
        print(f'INFRASTRUCTURE FAILURE ({a.pid}): {e}', file=sys.stderr)
        return 2
    except subprocess.TimeoutExpired as e:
        print(f'TIMEOUT ({a.pid}): {e}', file=sys.stderr)
        return 2
    except Exception as e:
        tb = traceback.extract_tb(e.__traceback__)
        traceback.print_exc()
        # A translator (translate/*.py) that cannot read the CURRENT source is a broken tie, not an infrastructure failure: the
        # theorems that rest on the regenerated file are no longer shown to speak about this code.  (On the unchanged tree the
        # translators do not fail: setup and every quick run would show it.)
        frames = [f for f in tb if os.sep + 'translate' + os.sep in f.filename]
        if frames and not a.replay:
            try:
                from common import Check
                chk = Check(a.pid, a.tier)
                f = frames[-1]
                chk.coverage.update({'obligations': 1, 'discharged': 0, 'evaluations': 0})
                chk.violation(f'the translator {os.path.basename(f.filename)} ({f.name}, line {f.lineno}) cannot read the current source: '
                              f'{type(e).__name__}: {e}; the theorems resting on the regenerated file no longer apply to this code',
                              {'broken_obligations': [f'translator {os.path.basename(f.filename)}:{f.name}'], 'traceback': traceback.format_exc()[-3000:]}, False)
                return chk.finish()
            except Exception:
                traceback.print_exc()
        print(f'INFRASTRUCTURE FAILURE ({a.pid}): harness crashed', file=sys.stderr)
        return 2


if __name__ == '__main__':
    sys.exit(main())
