import argparse
import importlib
import os
import subprocess
import sys
import traceback

sys.path.insert(0, os.path.dirname(os.path.abspath(__file__)))
from common import Infra


def main():
    ap = argparse.ArgumentParser()
    ap.add_argument('pid')
    ap.add_argument('--tier', default=os.environ.get('VERIF_TIER', 'quick'), choices=['quick', 'thorough'])
    ap.add_argument('--replay')
    a = ap.parse_args()
    try:
        mod = importlib.import_module(a.pid.lower())
        if a.replay:
            return mod.replay(a.replay)
        return mod.run(a.tier)
    except Infra as e:
        print(f'INFRASTRUCTURE FAILURE ({a.pid}): {e}', file=sys.stderr)
        return 2
    except subprocess.TimeoutExpired as e:
        print(f'TIMEOUT ({a.pid}): {e}', file=sys.stderr)
        return 2
    except Exception:
        traceback.print_exc()
        print(f'INFRASTRUCTURE FAILURE ({a.pid}): harness crashed', file=sys.stderr)
        return 2


if __name__ == '__main__':
    sys.exit(main())
