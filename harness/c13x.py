"""C13 extension: conditional and length-prefixed parts of the NITF headers (called from harness/c13.py, not a check of its own).

proof side : lean/SarpyModel/Props/C13x.lean - for EVERY description of the extended format language (Spec/FieldFmt2.lean:
             conditional parts, length-prefixed areas, computed counts/lengths, binary integers, nesting) and every accepted
             value: decode(encode v ++ rest) = (v, rest), |encode v| = length v, conformant bytes re-encode to themselves,
             under the decidable well-formedness of the description;
             lean/SarpyModel/Gen/NitfTables2.lean - the descriptions of the current tree (regenerated on every run by
             translate/tables_nitf2.py) with a kernel-decided well-formedness theorem each
tie        : translator (reflection + AST of the conditional code, decoder side cross-checked with the encoder side)
             + correspondence: every generated instance is converted to a model value; the model's encode / length /
             acceptance are compared with to_bytes / get_bytes_length, and the model's decode of to_bytes()+trailer with
             from_bytes of the same bytes (value by value), plus strict conformance of every encoding
search     : byte-level oracle on the implementation (length, round trip, re-encode identity) and an out-of-band
             MIL-STD-2500 walk over the encoded bytes (conditional fields, loops and areas by the standard's rules)

Use from c13.py (see notes/NOTES_C13X.md):
    import c13x
    x = c13x.Session(chk, tier)            # regenerates Gen/NitfTables2.lean, builds the instances
    broken += x.prove()                    # lake build + axiom audit of Props.C13x and Gen.NitfTables2, translator findings
    x.enqueue(drv)                         # before drv.run()
    f2, d2, s2 = x.collect(ans)            # after  drv.run(); same shapes as c13.py's fails / disagreements / stats
"""
import json
import os
import sys

from common import VERIF, ALLOWED_AXIOMS, Infra, audit, lake_build

sys.path.insert(0, os.path.join(VERIF, 'translate'))

REQUIRED = ['dec_enc', 'enc_length', 'dec_strict_sound', 'dec_strict_lenient', 'decode_encode', 'decodeStrict_encode', 'encode_length',
            'reencode', 'conformant_iff', 'reencode_conformant', 'decode_consumes_length', 'decode_rest_independent', 'encode_injective',
            'decodeAll_encodeAll', 'dec_blob', 'dec_bin', 'decBin_encBin', 'cond_congr', 'expr_congr', 'agree_enter', 'binds_self',
            'desLike_wf', 'bandLike_wf', 'bandsLike_wf', 'userHeader_wf', 'maskLike_wf', 'treLike_wf', 'illFormed_loses_round_trip']
TARGETS = ['SarpyModel.Props.C13x', 'SarpyModel.Gen.NitfTables2']
TRAILER = b'\x07TRAILER'

# stable keys of genuine defects of the unchanged tree (see notes/NOTES_C13X.md); a failure gets a key only when the failing
# instance contains that defect's specific trigger
KEY_DESID = 'DataExtensionHeader.DESID:conditional-presence-differs-between-encoder-and-decoder'
KEY_ICORDS0 = 'ImageSegmentHeader0.ICORDS:conditional-presence-differs-between-encoder-and-decoder'
KEY_DEVT = 'NITFSecurityTags0.DEVT:length-follows-DWNG-but-bytes-follow-the-value'
KEY_ZEROBANDS = 'ImageBands:zero-bands-encoded-as-NBANDS-0-without-XBANDS'
KEY_CTRL = '{cls}.{fld}:conditional-part-not-updated-when-the-controlling-field-is-reassigned-alone'


def controllers(descs):
    """{(description name, field name)} of the fields that decide the presence of a conditional part of the same record"""
    out = set()

    def cvars(c):
        if c[0] in ('strIn', 'pos'):
            return {c[1]}
        if c[0] == 'not':
            return cvars(c[1])
        if c[0] == 'and':
            return cvars(c[1]) | cvars(c[2])
        return set()
    for name, node in descs.items():
        if node[0] != 'rec':
            continue
        for f in node[1]:
            if f['node'][0] == 'cond':
                out |= {(name, v) for v in cvars(f['node'][1])}
    return out


def hx(b):
    return bytes(b).hex() or '-'


# --------------------------------------------------------------------------------------------- instance -> model value

class Unrepresentable(Exception):
    pass


def leaf_value(node, v):
    k = node[0]
    if k == 'int':
        if not isinstance(v, int):
            raise Unrepresentable(f'int field holds {v!r}')
        return f'i{v}'
    if k == 'str':
        if v is None:
            v = ''
        if isinstance(v, bytes):
            v = v.decode('utf-8')
        return 's' + hx(v.rstrip().encode('utf-8'))
    if k == 'raw':
        return 'r' + hx(v or b'')
    if k == 'bin':
        return f'n{int(v)}'
    raise Unrepresentable(f'leaf kind {k}')


def blob_value(node, obj):
    from sarpy.io.general.nitf_elements import base as B
    w = node[1]
    if obj is None:
        return 'N'
    if isinstance(obj, B.UserHeaderType):
        data = obj.data
        if data is None:
            return 'N'
        data = data.to_bytes() if isinstance(data, B.BaseNITFElement) else data
        return f'(i{obj.OFL}.r{hx(data)})'
    if isinstance(obj, B.Unstructured):
        data = obj.data
        if data is None:
            return 'N'
        data = data.to_bytes() if isinstance(data, B.BaseNITFElement) else data
        return 'N' if len(data) == 0 else f'(i0.r{hx(data)})'
    # a structured user-defined subheader (XMLDESSubheader) standing in the area: its own first field is the length
    data = obj.to_bytes()[w:]
    return 'N' if len(data) == 0 else f'(i0.r{hx(data)})'


def to_value(descs, node, obj):
    """model value (line-protocol syntax) of the python object `obj` described by `node`"""
    k = node[0]
    if k == 'ref':
        return to_value(descs, descs[node[1]], obj)
    if k == 'blob':
        return blob_value(node, obj)
    if k != 'rec':
        raise Unrepresentable(f'top-level node {k}')
    out = []
    for f in node[1]:
        name, sub, via = f['name'], f['node'], f['via']
        if via == 'attr':
            out.append(leaf_value(sub, getattr(obj, name)))
        elif via == 'cond_attr':
            # present = the encoder emits bytes for this field (`_get_attribute_bytes`), whatever the stored value is
            present = len(obj._get_attribute_bytes(name)) > 0
            out.append(leaf_value(sub[2], getattr(obj, name)) if present else 'N')
        elif via == 'element':
            out.append(to_value(descs, sub, getattr(obj, name)))
        elif via == 'loop_count':
            out.append(f'i{len(obj.values)}')
        elif via == 'loop_values':
            item = sub[2]
            out.append('[' + ';'.join(to_value(descs, item, e) for e in obj.values) + ']')
        elif via == 'bands_n':
            n = len(obj.values)
            out.append(f'i{n if 1 <= n <= 9 else 0}')
        elif via == 'bands_x':
            n = len(obj.values)
            out.append('N' if 1 <= n <= 9 else f'i{n}')
        elif via == 'itemarray_count':
            out.append(f'i{int(obj.subhead_sizes.size)}')
        elif via == 'itemarray_items':
            out.append('[' + ';'.join(f'[i{int(a)};i{int(b)}]' for a, b in zip(obj.subhead_sizes, obj.item_sizes)) + ']')
        elif via == 'lut_n':
            out.append(f'i{obj.NLUTS}')
        elif via == 'lut_ne':
            out.append('N' if obj.NLUTS == 0 else f'i{obj.NELUTS}')
        elif via == 'lut_data':
            out.append('N' if obj.NLUTS == 0 else 'r' + hx(obj.LUTD.astype('uint8').tobytes()))
        elif via == 'mask_tpxcd':
            out.append('r' + hx(obj.TPXCD or b''))
        elif via == 'mask_table':
            t = getattr(obj, name)
            out.append('N' if t is None else '[' + ';'.join(f'n{int(v)}' for v in t.reshape((-1,))) + ']')
        elif via == 'tre_tag':
            out.append('s' + hx(obj.TAG.rstrip().encode('utf-8')))
        elif via == 'tre_len':
            out.append(f'i{obj.EL}')
        elif via == 'tre_data':
            out.append('r' + hx(obj.DATA if isinstance(obj.DATA, bytes) else obj.DATA.to_bytes()))
        else:
            raise Unrepresentable(f'via {via}')
    return '[' + ';'.join(out) + ']'


# --------------------------------------------------------------------------------------------- instance generators

ALPHA = 'ABCDEFGHIJKLMNOPQRSTUVWXYZ0123456789 _-/.:abcxyz'


def rtext(rng, w):
    n = rng.choice([0, 1, w, w, max(0, w - 1), rng.randint(0, w)])
    return ''.join(rng.choice(ALPHA) for _ in range(n)).rstrip()


def rint(rng, w, nonneg=False):
    lo, hi = (0 if nonneg or w == 1 else -10 ** (w - 1) + 1), 10 ** w - 1
    return rng.choice([0, 1, hi, lo, rng.randint(lo, hi), rng.randint(0, hi)])


def rbytes(rng, n):
    return bytes(rng.randrange(256) for _ in range(n))


def rand_kwargs(rng, cls, skip=()):
    """random accepted values for the descriptor-backed fixed-width fields of cls"""
    from sarpy.io.general.nitf_elements import base as B
    kw = {}
    for fld in cls._ordering:
        if fld in skip or fld not in cls._lengths or rng.random() < 0.3:
            continue
        d = cls.__dict__.get(fld)
        w = cls._lengths[fld]
        if isinstance(d, B._IntegerDescriptor):
            kw[fld] = rint(rng, w)
        elif isinstance(d, B._StringEnumDescriptor):
            kw[fld] = rng.choice(sorted(d.values))
        elif isinstance(d, B._StringDescriptor):
            kw[fld] = rtext(rng, w)
        elif isinstance(d, B._RawDescriptor):
            kw[fld] = rbytes(rng, w)
    return kw


def unknown_tres(rng, nmax=3, payload=40):
    from sarpy.io.general.nitf_elements import base as B
    tres = []
    for _ in range(rng.randint(0, nmax)):
        tag = ''.join(rng.choice('ABCDEFXYZ') for _ in range(rng.choice([6, 6, 5, 3])))
        tres.append(B.UnknownTRE(TAG=tag, data=rbytes(rng, rng.choice([0, 1, rng.randint(0, payload)]))))
    return tres


def user_header(rng, allow_none=True):
    """UserHeaderType: absent / empty TRE list / unknown TREs, overflow field 0 or set"""
    from sarpy.io.general.nitf_elements import base as B
    mode = rng.choice(['none', 'empty', 'tres', 'tres', 'tres']) if allow_none else 'tres'
    if mode == 'none':
        return B.UserHeaderType()
    tres = [] if mode == 'empty' else unknown_tres(rng)
    return B.UserHeaderType(OFL=rng.choice([0, 0, 1, 999, rng.randint(0, 999)]), data=B.TREList(tres=tres))


def security(rng, ver):
    from sarpy.io.general.nitf_elements.security import NITFSecurityTags, NITFSecurityTags0
    if ver == 1:
        return NITFSecurityTags(**rand_kwargs(rng, NITFSecurityTags))
    kw = rand_kwargs(rng, NITFSecurityTags0, skip=('DEVT', 'DWNG'))
    if rng.random() < 0.4:
        kw['DWNG'] = '999998'
        kw['DEVT'] = rtext(rng, 40) or 'EVENT'
    else:
        kw['DWNG'] = rng.choice(['', '999999', '0512Z', rtext(rng, 6)])
        if kw['DWNG'] == '999998':
            kw['DWNG'] = ''
    return NITFSecurityTags0(**kw)


def image_band(rng, nluts=None):
    import numpy
    from sarpy.io.general.nitf_elements.image import ImageBand
    nl = rng.choice([0, 0, 1, 2, 3]) if nluts is None else nluts
    kw = dict(ISUBCAT=rng.choice(['I', 'Q', 'M', 'P', '', rtext(rng, 6)]), IREPBAND=rng.choice(['', 'LU', 'R', 'G', 'B', 'M']), IMFLT=rtext(rng, 3))
    if nl:
        ne = rng.choice([1, 2, 4, 256])
        kw['LUTD'] = numpy.array([rng.randrange(256) for _ in range(nl * ne)], dtype='uint8').reshape((nl, ne))
    return ImageBand(**kw)


def image_header(rng, ver, nbands=None, icords=None, ic=None, ncom=None, hdrs=None):
    from sarpy.io.general.nitf_elements.image import ImageSegmentHeader, ImageSegmentHeader0, ImageBands, ImageComments, ImageComment
    cls = ImageSegmentHeader if ver == 1 else ImageSegmentHeader0
    nb = rng.choice([1, 1, 2, 3, 9, 10, 12]) if nbands is None else nbands
    ncom = rng.choice([0, 0, 1, 3, 9]) if ncom is None else ncom
    ic = rng.choice(['NC', 'NC', 'NM', 'C3', 'M3', 'C8']) if ic is None else ic
    if icords is None:
        icords = rng.choice(['', 'G', 'D', 'N', 'S', 'U']) if ver == 1 else rng.choice(['G', 'U', 'C'])
    kw = dict(PVTYPE=rng.choice(['INT', 'SI', 'R', 'C', 'B']), IREP=rng.choice(['MONO', 'NODISPLY', 'RGB', 'RGB/LUT', 'MULTI']),
              ICAT=rng.choice(['SAR', 'VIS', rtext(rng, 8) or 'SAR']), ABPP=rng.choice([1, 8, 16, 32, 64]), NBPP=rng.choice([1, 8, 16, 32, 64]),
              PJUST=rng.choice(['L', 'R']), IC=ic, ICORDS=icords, Bands=ImageBands(values=[image_band(rng) for _ in range(nb)]),
              Comments=ImageComments(values=[ImageComment(COMMENT=rtext(rng, 80)) for _ in range(ncom)]),
              IMODE=rng.choice(['B', 'P', 'R', 'S']), NBPR=rint(rng, 4, True), NBPC=rint(rng, 4, True), NPPBH=rint(rng, 4, True),
              NPPBV=rint(rng, 4, True), IDLVL=rint(rng, 3, True), IALVL=rint(rng, 3, True), ILOC=rtext(rng, 10), IMAG=rng.choice(['1.0', '/2', '0.5']),
              NROWS=rint(rng, 8, True), NCOLS=rint(rng, 8, True), ISORCE=rtext(rng, 42), TGTID=rtext(rng, 17), IDATIM=rtext(rng, 14),
              ISYNC=rng.choice([0, 0, 5]), Security=security(rng, ver))
    kw['IID1' if ver == 1 else 'IID'] = rtext(rng, 10)
    kw['IID2' if ver == 1 else 'ITITLE'] = rtext(rng, 80)
    if ic not in ('NC', 'NM') and rng.random() < 0.8:
        kw['COMRAT'] = rng.choice(['00.1', '75.0', 'N045', rtext(rng, 4) or '1'])
    if (icords.strip() != '') and rng.random() < 0.8:
        kw['IGEOLO'] = ''.join(rng.choice('0123456789NSEW') for _ in range(60))
    if hdrs is None or hdrs:
        kw['UserHeader'] = user_header(rng)
        kw['ExtendedHeader'] = user_header(rng)
    return cls(**kw)


def des_header(rng, ver, overflow=None, code=None, userhdr=None, lead_blank=False):
    from sarpy.io.general.nitf_elements.des import DataExtensionHeader, DataExtensionHeader0, DESUserHeader, XMLDESSubheader
    cls = DataExtensionHeader if ver == 1 else DataExtensionHeader0
    idf = 'DESID' if ver == 1 else 'DESTAG'
    overflow = (rng.random() < 0.5) if overflow is None else overflow
    kw = dict(DESVER=rng.randint(1, 99), Security=security(rng, ver))
    if overflow:
        tag = 'TRE_OVERFLOW' if ver == 1 else rng.choice(['TRE_OVERFLOW', 'Registered Extensions', 'Controlled Extensions'])
        kw[idf] = (' ' if lead_blank else '') + tag
        kw['DESOFLW'] = code or rng.choice(['XHD', 'IXSHD', 'SXSHD', 'TXSHD', 'UDHD', 'UDID'])
        kw['DESITEM'] = rng.choice([0, 1, 999, rng.randint(0, 999)])
    else:
        kw[idf] = rng.choice(['XML_DATA_CONTENT', 'CSATTA DES', rtext(rng, 25) or 'X', 'TRE_OVERFLOW2', 'XTRE_OVERFLOW'])
        if kw[idf].strip() in ('TRE_OVERFLOW', 'Registered Extensions', 'Controlled Extensions'):
            kw[idf] = 'X'
    userhdr = rng.choice(['none', 'empty', 'bytes', 'bytes', 'xml']) if userhdr is None else userhdr
    if userhdr == 'empty':
        kw['UserHeader'] = DESUserHeader(data=b'')
    elif userhdr == 'bytes':
        kw['UserHeader'] = DESUserHeader(data=rbytes(rng, rng.choice([1, 2, 60, rng.randint(1, 300)])))
    elif userhdr == 'xml' and not overflow:
        kw[idf] = 'XML_DATA_CONTENT'
        kw['UserHeader'] = XMLDESSubheader(**rand_kwargs(rng, XMLDESSubheader))
    return cls(**kw)


def mask_subheader(rng, bmr=None, tmr=None, tpx=None):
    import numpy
    from sarpy.io.general.nitf_elements.image import MaskSubheader
    depth, blocks = rng.choice([1, 1, 2, 3]), rng.randint(1, 12)
    bmr = (rng.random() < 0.6) if bmr is None else bmr
    tmr = (rng.random() < 0.4) if tmr is None else tmr
    tpx = rng.choice([0, 0, 8, 12, 16, 1, 32]) if tpx is None else tpx

    def table():
        return numpy.array([rng.choice([0xFFFFFFFF, 0, rng.randint(0, 2 ** 32 - 1), rng.randint(0, 10 ** 6)]) for _ in range(depth * blocks)],
                           dtype='uint32').reshape((depth, blocks))
    kw = dict(IMDATOFF=rng.choice([0, 10, rng.randint(0, 2 ** 32 - 1)]), BMRLNTH=4 if bmr else 0, TMRLNTH=4 if tmr else 0, TPXCDLNTH=tpx)
    if tpx:
        kw['TPXCD'] = rbytes(rng, -(-tpx // 8))
    if bmr:
        kw['BMR'] = table()
    if tmr:
        kw['TMR'] = table()
    return MaskSubheader(band_depth=depth, blocks=blocks, **kw), {'band_depth': depth, 'blocks': blocks}


def file_header(rng, ver):
    import numpy
    from sarpy.io.general.nitf_elements import nitf_head as H

    def arr(cls, wsub, wit):
        n = rng.choice([0, 0, 1, 2, 4])
        return cls(subhead_sizes=numpy.array([rng.randint(1, 10 ** wsub - 1) for _ in range(n)], dtype='int64'),
                   item_sizes=numpy.array([rng.randint(0, 10 ** wit - 1) for _ in range(n)], dtype='int64'))
    if ver == 1:
        kw = rand_kwargs(rng, H.NITFHeader)
        kw.update(ImageSegments=arr(H.ImageSegmentsType, 6, 10), GraphicsSegments=arr(H.GraphicsSegmentsType, 4, 6),
                  TextSegments=arr(H.TextSegmentsType, 4, 5), DataExtensions=arr(H.DataExtensionsType, 4, 9),
                  ReservedExtensions=arr(H.ReservedExtensionsType, 4, 7), Security=security(rng, 1),
                  UserHeader=user_header(rng), ExtendedHeader=user_header(rng))
        return H.NITFHeader(**kw)
    kw = rand_kwargs(rng, H.NITFHeader0)
    kw.update(FVER=rng.choice(['02.00', '02.00', '01.10']), ImageSegments=arr(H.ImageSegmentsType, 6, 10), SymbolSegments=arr(H.SymbolSegmentsType, 4, 6),
              LabelSegments=arr(H.LabelSegmentsType, 4, 3), TextSegments=arr(H.TextSegmentsType, 4, 5),
              DataExtensions=arr(H.DataExtensionsType, 4, 9), ReservedExtensions=arr(H.ReservedExtensionsType, 4, 7),
              Security=security(rng, 0), UserHeader=user_header(rng), ExtendedHeader=user_header(rng))
    return H.NITFHeader0(**kw)


def build_instances(rng, tier):
    """(label, description name, instance or Exception, parameters) - conditional parts present AND absent, by construction"""
    from sarpy.io.general.nitf_elements import base as B
    from sarpy.io.general.nitf_elements.image import ImageBands, ImageComments, ImageComment, ImageSegmentHeader, ImageSegmentHeader0
    from sarpy.io.general.nitf_elements.text import TextSegmentHeader, TextSegmentHeader0
    from sarpy.io.general.nitf_elements.graphics import GraphicsSegmentHeader
    from sarpy.io.general.nitf_elements.res import ReservedExtensionHeader, ReservedExtensionHeader0, RESUserHeader
    from sarpy.io.general.nitf_elements.des import XMLDESSubheader, DESUserHeader
    out = []
    n = 3 if tier == 'quick' else 40

    def put(label, desc, make, *a, **k):
        try:
            r = make(*a, **k)
        except Exception as e:      # constructing an instance the standard allows must not fail: reported by the oracle
            out.append((label, desc, e, {}))
            return
        if isinstance(r, tuple):
            out.append((label, desc, r[0], r[1]))
        else:
            out.append((label, desc, r, {}))

    for _ in range(n):
        # DES: every overflow code, with / without a user-defined subheader; non-overflow identifiers; NITF 2.0 tags
        for code in ['XHD', 'IXSHD', 'SXSHD', 'TXSHD', 'UDHD', 'UDID']:
            put(f'DataExtensionHeader:overflow:{code}', 'DataExtensionHeader', des_header, rng, 1, True, code, rng.choice(['none', 'bytes']))
        for code in ['XHD', 'IXSHD', 'UDHD', 'UDID']:
            put(f'DataExtensionHeader0:overflow:{code}', 'DataExtensionHeader0', des_header, rng, 0, True, code, rng.choice(['none', 'bytes']))
        for uh in ['none', 'empty', 'bytes', 'xml']:
            put(f'DataExtensionHeader:plain:{uh}', 'DataExtensionHeader', des_header, rng, 1, False, None, uh)
            put(f'DataExtensionHeader0:plain:{uh}', 'DataExtensionHeader0', des_header, rng, 0, False, None, uh)
        put('DataExtensionHeader0:overflow:leading-blank', 'DataExtensionHeader0', des_header, rng, 0, True, None, None, True)
        # image subheaders: ICORDS blank / set, IC NC / NM / compressed with COMRAT, LUTs 0..3, > 9 bands, comments 0..9, user headers
        for icords in ['', 'G']:
            for ic in ['NC', 'NM', 'C3']:
                put(f'ImageSegmentHeader:ICORDS={icords!r}:IC={ic}', 'ImageSegmentHeader', image_header, rng, 1, None, icords, ic)
        for nb in [1, 9, 10, 12]:
            put(f'ImageSegmentHeader:NBANDS={nb}', 'ImageSegmentHeader', image_header, rng, 1, nb)
        for ncom in [0, 1, 9]:
            put(f'ImageSegmentHeader:NICOM={ncom}', 'ImageSegmentHeader', image_header, rng, 1, None, None, None, ncom)
        for ic in ['NC', 'C3']:
            put(f'ImageSegmentHeader0:IC={ic}', 'ImageSegmentHeader0', image_header, rng, 0, None, None, ic)
        put('ImageSegmentHeader0:NBANDS=11', 'ImageSegmentHeader0', image_header, rng, 0, 11)
        for nl in [0, 1, 2, 3]:
            put(f'ImageBand:NLUTS={nl}', 'ImageBand', image_band, rng, nl)
        for nb in [1, 3, 9, 10, 15]:
            put(f'ImageBands:{nb}', 'ImageBands', lambda k=nb: ImageBands(values=[image_band(rng) for _ in range(k)]))
        for nc in [0, 1, 9]:
            put(f'ImageComments:{nc}', 'ImageComments', lambda k=nc: ImageComments(values=[ImageComment(COMMENT=rtext(rng, 80)) for _ in range(k)]))
        # mask subheaders: with / without BMR and TMR, TPXCDLNTH 0 / 8 / 12
        for bmr in [False, True]:
            for tmr in [False, True]:
                put(f'MaskSubheader:BMR={bmr}:TMR={tmr}', 'MaskSubheader', mask_subheader, rng, bmr, tmr)
        for tpx in [0, 8, 12]:
            put(f'MaskSubheader:TPXCDLNTH={tpx}', 'MaskSubheader', mask_subheader, rng, None, None, tpx)
        # file headers with all segment kinds; other subheaders with their extended-header areas; NITF 2.0 variants
        put('NITFHeader', 'NITFHeader', file_header, rng, 1)
        put('NITFHeader0', 'NITFHeader0', file_header, rng, 0)
        put('TextSegmentHeader', 'TextSegmentHeader', lambda: TextSegmentHeader(Security=security(rng, 1), UserHeader=user_header(rng),
                                                                               **rand_kwargs(rng, TextSegmentHeader)))
        put('TextSegmentHeader0', 'TextSegmentHeader0', lambda: TextSegmentHeader0(Security=security(rng, 0), UserHeader=user_header(rng),
                                                                                  **rand_kwargs(rng, TextSegmentHeader0)))
        put('GraphicsSegmentHeader', 'GraphicsSegmentHeader', lambda: GraphicsSegmentHeader(Security=security(rng, 1), UserHeader=user_header(rng),
                                                                                           **rand_kwargs(rng, GraphicsSegmentHeader)))
        for k in ['none', 'empty', 'bytes']:
            uh = {'none': None, 'empty': RESUserHeader(data=b''), 'bytes': RESUserHeader(data=rbytes(rng, rng.randint(1, 80)))}[k]
            put(f'ReservedExtensionHeader:{k}', 'ReservedExtensionHeader', lambda u=uh: ReservedExtensionHeader(
                Security=security(rng, 1), UserHeader=u, **rand_kwargs(rng, ReservedExtensionHeader)))
            put(f'ReservedExtensionHeader0:{k}', 'ReservedExtensionHeader0', lambda u=uh: ReservedExtensionHeader0(
                Security=security(rng, 0), UserHeader=u, **rand_kwargs(rng, ReservedExtensionHeader0)))
        put('NITFSecurityTags', 'NITFSecurityTags', security, rng, 1)
        put('NITFSecurityTags0', 'NITFSecurityTags0', security, rng, 0)
        put('NITFSecurityTags0', 'NITFSecurityTags0', security, rng, 0)
        put('UserHeaderType', 'UserHeaderType', user_header, rng)
        put('UserHeaderType:tres', 'UserHeaderType', user_header, rng, False)
        put('DESUserHeader', 'DESUserHeader', lambda: DESUserHeader(data=rbytes(rng, rng.randint(0, 40))))
        put('XMLDESSubheader', 'XMLDESSubheader', lambda: XMLDESSubheader(**rand_kwargs(rng, XMLDESSubheader)))
        put('UnknownTRE', 'UnknownTRE', lambda: (unknown_tres(rng, 1) or [B.UnknownTRE('ABCDEF', b'')])[0])
    # the four states that the unchanged tree gets wrong (notes/NOTES_C13X.md) - one probe each; reported under their keys
    put('DataExtensionHeader:overflow:leading-blank', 'DataExtensionHeader', des_header, rng, 1, True, 'UDHD', 'none', True)
    put("ImageSegmentHeader0:ICORDS='N'", 'ImageSegmentHeader0', image_header, rng, 0, 1, 'N', 'NC', 0, False)
    from sarpy.io.general.nitf_elements.security import NITFSecurityTags0
    put('NITFSecurityTags0:DWNG=999998:DEVT=None', 'NITFSecurityTags0', lambda: NITFSecurityTags0(DWNG='999998'))
    put('NITFSecurityTags0:DWNG=blank:DEVT=set', 'NITFSecurityTags0', lambda: NITFSecurityTags0(DWNG='', DEVT='EVENT'))
    put('ImageBands:0', 'ImageBands', lambda: ImageBands(values=[]))
    return out


def classify(desc, inst):
    """stable key of a known genuine defect, only if this instance contains its specific trigger"""
    from sarpy.io.general.nitf_elements.security import NITFSecurityTags0
    from sarpy.io.general.nitf_elements.image import ImageBands
    try:
        if desc == 'DataExtensionHeader' and inst.DESID != inst.DESID.strip() and inst.DESID.strip() == 'TRE_OVERFLOW':
            return KEY_DESID
        if desc == 'ImageSegmentHeader0' and inst.ICORDS == 'N':
            return KEY_ICORDS0
        if isinstance(inst, ImageBands) and len(inst.values) == 0:
            return KEY_ZEROBANDS
        if desc in ('ImageSegmentHeader', 'ImageSegmentHeader0') and len(inst.Bands.values) == 0:
            return KEY_ZEROBANDS
        sec = inst if isinstance(inst, NITFSecurityTags0) else getattr(inst, 'Security', None)
        if isinstance(sec, NITFSecurityTags0) and ((sec.DWNG == '999998') != (sec.DEVT is not None)):
            return KEY_DEVT
    except Exception:
        pass
    return None


# --------------------------------------------------------------------------------------------- out-of-band standard walk

class StdError(Exception):
    pass


def _num(b, what):
    if not b.isdigit():
        raise StdError(f'{what}: {b!r} is not a number')
    return int(b)


def std_user_area(b, p, wl, wo, what):
    n = _num(b[p:p + wl], what)
    p += wl
    if n == 0:
        return p
    if n < wo:
        raise StdError(f'{what} = {n} is shorter than its overflow field')
    return p + n


def std_security(b, p, ver):
    if ver == 1:
        return p + 167
    p += 1 + 40 + 40 + 40 + 20 + 20
    dwng = b[p:p + 6]
    p += 6
    return p + 40 if dwng == b'999998' else p       # MIL-STD-2500A: FSDEVT present iff FSDWNG is 999998


def std_image(b, ver):
    """walk an image subheader by the standard's rules (MIL-STD-2500C table A-3 / MIL-STD-2500A); returns facts and the end offset"""
    p = 2 + 10 + 14 + 17 + 80
    p = std_security(b, p, ver)
    p += 1 + 42 + 8 + 8 + 3 + 8 + 8 + 2 + 1
    icords = b[p:p + 1]
    p += 1
    has_geo = (icords != b' ') if ver == 1 else (icords != b'N')
    if has_geo:
        p += 60
    nicom = _num(b[p:p + 1], 'NICOM')
    p += 1 + 80 * nicom
    ic = b[p:p + 2]
    p += 2
    if ic not in (b'NC', b'NM'):
        p += 4
    nb = _num(b[p:p + 1], 'NBANDS')
    p += 1
    if nb == 0:
        nb = _num(b[p:p + 5], 'XBANDS')
        p += 5
        if ver == 1 and nb < 10:
            raise StdError(f'NBANDS = 0 with XBANDS = {nb}')
    luts = []
    for _ in range(nb):
        p += 2 + 6 + 1 + 3
        nl = _num(b[p:p + 1], 'NLUTS')
        p += 1
        if nl:
            ne = _num(b[p:p + 5], 'NELUT')
            p += 5 + nl * ne
        luts.append(nl)
    p += 1 + 1 + 4 + 4 + 4 + 4 + 2 + 3 + 3 + 10 + 4
    p = std_user_area(b, p, 5, 3, 'UDIDL')
    p = std_user_area(b, p, 5, 3, 'IXSHDL')
    return {'geo': has_geo, 'nicom': nicom, 'ic': ic.decode(), 'nbands': nb, 'luts': luts}, p


def std_des(b, ver):
    p = 2
    ident = b[p:p + 25].decode('utf-8').strip()
    p += 25 + 2
    p = std_security(b, p, ver)
    over = ident == 'TRE_OVERFLOW' if ver == 1 else ident in ('TRE_OVERFLOW', 'Registered Extensions', 'Controlled Extensions')
    facts = {'overflow': over}
    if over:
        facts['DESOFLW'] = b[p:p + 6].decode().strip()
        facts['DESITEM'] = _num(b[p + 6:p + 9], 'DESITEM')
        p += 9
    p = std_user_area(b, p, 4, 0, 'DESSHL')
    return facts, p


def std_mask(b, depth, blocks):
    import struct
    off, bl, tl, tp = struct.unpack('>IHHH', b[:10])
    p = 10 + -(-tp // 8)
    if bl:
        p += 4 * depth * blocks
    if tl:
        p += 4 * depth * blocks
    return {'bmr': bool(bl), 'tmr': bool(tl)}, p


def std_file_header(b, ver):
    p = 4 + 5 + 2 + 4 + 10 + 14 + 80
    p = std_security(b, p, ver)
    p += (5 + 5 + 1 + 3 + 24 + 18) if ver == 1 else (5 + 5 + 1 + 27 + 18)
    p += 12
    hl = _num(b[p:p + 6], 'HL')
    p += 6
    counts = []
    groups = [(6, 10), (4, 6), None, (4, 5), (4, 9), (4, 7)] if ver == 1 else [(6, 10), (4, 6), (4, 3), (4, 5), (4, 9), (4, 7)]
    for g in groups:
        n = _num(b[p:p + 3], 'segment count')
        p += 3
        if g is None:
            continue       # NUMX: reserved, no entries
        p += n * (g[0] + g[1])
        counts.append(n)
    p = std_user_area(b, p, 5, 3, 'UDHDL')
    p = std_user_area(b, p, 5, 3, 'XHDL')
    return {'HL': hl, 'counts': counts}, p


def std_check(desc, inst, params, b):
    """messages: the standard-side walk of to_bytes() must end exactly at its end and see the assigned structure"""
    msgs = []
    try:
        if desc in ('ImageSegmentHeader', 'ImageSegmentHeader0'):
            facts, end = std_image(b, 1 if desc == 'ImageSegmentHeader' else 0)
            if facts['nbands'] != len(inst.Bands.values):
                msgs.append(f'standard walk sees {facts["nbands"]} bands, the object has {len(inst.Bands.values)}')
            if facts['luts'] != [bd.NLUTS for bd in inst.Bands.values]:
                msgs.append('standard walk sees different LUT counts than the object holds')
            if facts['nicom'] != len(inst.Comments.values):
                msgs.append(f'standard walk sees {facts["nicom"]} comments, the object has {len(inst.Comments.values)}')
            if facts['ic'] != inst.IC:
                msgs.append(f'standard walk sees IC {facts["ic"]!r}, the object has {inst.IC!r}')
        elif desc in ('DataExtensionHeader', 'DataExtensionHeader0'):
            facts, end = std_des(b, 1 if desc == 'DataExtensionHeader' else 0)
            if facts['overflow'] != (inst.DESOFLW is not None):
                msgs.append(f'standard walk expects DESOFLW/DESITEM {"present" if facts["overflow"] else "absent"}, the object has DESOFLW = {inst.DESOFLW!r}')
            elif facts['overflow'] and (facts['DESOFLW'] != inst.DESOFLW or facts['DESITEM'] != inst.DESITEM):
                msgs.append('standard walk reads different DESOFLW / DESITEM than assigned')
        elif desc == 'MaskSubheader':
            facts, end = std_mask(b, params['band_depth'], params['blocks'])
            if facts['bmr'] != (inst.BMR is not None) or facts['tmr'] != (inst.TMR is not None):
                msgs.append('standard walk and object disagree on the presence of BMR / TMR')
        elif desc in ('NITFHeader', 'NITFHeader0'):
            facts, end = std_file_header(b, 1 if desc == 'NITFHeader' else 0)
            if facts['HL'] != len(b):
                msgs.append(f'HL field says {facts["HL"]}, the header has {len(b)} bytes')
        else:
            return msgs
        if end != len(b):
            msgs.append(f'standard walk of the encoded bytes ends at {end}, the encoding has {len(b)} bytes')
    except (StdError, ValueError, IndexError, UnicodeDecodeError) as e:
        msgs.append(f'standard walk of the encoded bytes fails: {e}')
    return msgs


# --------------------------------------------------------------------------------------------- byte-level oracle

def canon_json(o):
    if isinstance(o, dict):
        return {k: canon_json(v) for k, v in o.items()}
    if isinstance(o, (list, tuple)):
        return [canon_json(v) for v in o]
    if o is None or o == '' or o == b'':
        return ''
    if isinstance(o, bytes):
        return o.hex()
    if isinstance(o, str):
        return o.rstrip()
    return o


def from_bytes(cls, b, params):
    if params:
        return cls.from_bytes(b, 0, **params)
    return cls.from_bytes(b, 0)


def oracle(label, desc, inst, params):
    """the property on the implementation alone; returns (messages, encoded bytes or None, decoded object or None)"""
    msgs = []
    try:
        b = inst.to_bytes()
        ln = inst.get_bytes_length()
    except Exception as e:
        return [f'{label}: to_bytes / get_bytes_length raised {type(e).__name__}: {e}'], None, None
    if len(b) != ln:
        msgs.append(f'{label}: len(to_bytes()) = {len(b)} but get_bytes_length() = {ln}')
    msgs += [f'{label}: {m}' for m in std_check(desc, inst, params, b)]
    back = None
    try:
        back = from_bytes(inst.__class__, b + TRAILER, params)
        b2 = back.to_bytes()
        if b2 != b:
            i = next((k for k in range(min(len(b), len(b2))) if b[k] != b2[k]), min(len(b), len(b2)))
            msgs.append(f'{label}: decode then re-encode differs at byte {i} (lengths {len(b)} -> {len(b2)})')
        if back.get_bytes_length() != ln:
            msgs.append(f'{label}: decoded object reports length {back.get_bytes_length()}, the encoded one {ln}')
        j1_, j2_ = canon_json(inst.to_json()), canon_json(back.to_json())
        if json.dumps(j1_, default=repr, sort_keys=True) != json.dumps(j2_, default=repr, sort_keys=True):
            # a user header may be held in structured form (e.g. the XML data content subheader) or as the raw bytes of the same field - which
            # one the decoder produces depends on the tag the header carries by then; the two are compared by their bytes
            for j_, o_ in ((j1_, inst), (j2_, back)):
                for fld_ in ('UserHeader', 'ExtendedHeader'):
                    if isinstance(j_, dict) and fld_ in j_ and getattr(o_, fld_, None) is not None and hasattr(getattr(o_, fld_), 'to_bytes'):
                        j_[fld_] = getattr(o_, fld_).to_bytes().hex()
            if json.dumps(j1_, default=repr, sort_keys=True) != json.dumps(j2_, default=repr, sort_keys=True):
                dk_ = [k_ for k_ in sorted(set(j1_) | set(j2_)) if json.dumps(j1_.get(k_), default=repr, sort_keys=True) != json.dumps(j2_.get(k_), default=repr, sort_keys=True)] \
                    if isinstance(j1_, dict) and isinstance(j2_, dict) else []
                msgs.append(f'{label}: decoded object differs from the encoded one (field values{": " + ", ".join(dk_[:4]) if dk_ else ""})')
    except Exception as e:
        msgs.append(f'{label}: from_bytes(to_bytes(x) + trailer) raised {type(e).__name__}: {e}')
        back = None
    return msgs, b, back


# --------------------------------------------------------------------------------------------- a freshly constructed element with the same field values

def fresh(obj, params=None):
    """build a NEW element through the public constructors from the field values `obj` shows (recursively); nothing but those values
    can enter it"""
    import numpy
    from sarpy.io.general.nitf_elements import base as B
    from sarpy.io.general.nitf_elements import nitf_head as H
    from sarpy.io.general.nitf_elements.image import MaskSubheader
    if obj is None or isinstance(obj, (str, int, bytes, float)):
        return obj
    if isinstance(obj, numpy.ndarray):
        return obj.copy()
    cls = obj.__class__
    if isinstance(obj, B.UnknownTRE):
        return B.UnknownTRE(obj.TAG, bytes(obj.DATA))
    if isinstance(obj, B.TRE):
        return B.TRE.from_bytes(obj.to_bytes(), 0)          # registered TREs are read-only objects built from bytes
    if isinstance(obj, B.TREList):
        return cls(tres=[fresh(t) for t in obj.tres])
    if isinstance(obj, B.UserHeaderType):
        return cls(OFL=obj.OFL, data=fresh(obj.data))
    if isinstance(obj, B.Unstructured):
        return cls(data=fresh(obj.data))
    if isinstance(obj, B.NITFLoop):
        return cls(values=[fresh(v) for v in obj.values])
    if isinstance(obj, H._ItemArrayHeaders):
        return cls(subhead_sizes=obj.subhead_sizes.copy(), item_sizes=obj.item_sizes.copy())
    if isinstance(obj, B.NITFElement):
        kw = {}
        for fld in cls._ordering:
            try:
                kw[fld] = fresh(getattr(obj, fld))
            except AttributeError:
                kw[fld] = None
        if isinstance(obj, MaskSubheader):
            return cls(band_depth=obj.band_depth, blocks=obj.blocks, **kw)
        return cls(**kw)
    raise TypeError(f'cannot rebuild {cls.__name__}')


# --------------------------------------------------------------------------------------------- the session used by c13.py

class Session:
    def __init__(self, chk, tier, rng=None):
        import tables_nitf2
        self.chk = chk
        self.tier = tier
        self.rng = rng or chk.rng
        self.gen = tables_nitf2.generate(os.path.join(VERIF, 'lean', 'SarpyModel', 'Gen', 'NitfTables2.lean'))
        self.descs = self.gen['descs']
        self.jobs = []
        self.fails = []
        self.disagreements = []
        self.stats = {}
        self.insts = None

    # ---- proof side
    def prove(self):
        """lake build + axiom audit of Props.C13x and of the generated well-formedness theorems; translator findings.
        Returns broken obligations (strings) and adds the counts to chk.coverage."""
        chk = self.chk
        broken = []
        ok, failed, errors, log = lake_build(TARGETS + ['SarpyModel.Drivers'])
        need_gen = list(self.gen['wf_theorems'])
        if not ok:
            broken += [f'{m} (lake build failed)' for m in failed] or ['lake build failed (C13x)']
            chk.coverage.setdefault('build_errors', [])
            chk.coverage['build_errors'] += [f'{f}:{l}:{c}: {m}' for f, l, c, m in errors[:20]]
            chk.coverage['obligations'] = chk.coverage.get('obligations', 0) + len(REQUIRED) + len(need_gen)
        else:
            t1 = audit('SarpyModel.Props.C13x', 'Sarpy.Props.C13x')
            t2 = audit('SarpyModel.Gen.NitfTables2', 'Sarpy.Gen.Nitf2')
            allt = dict(t1)
            allt.update(t2)
            bad = {n: a for n, a in allt.items() if set(a) - ALLOWED_AXIOMS}
            missing = [f'Sarpy.Props.C13x.{r}' for r in REQUIRED if f'Sarpy.Props.C13x.{r}' not in t1]
            missing += [f'Sarpy.Gen.Nitf2.{r}' for r in need_gen if f'Sarpy.Gen.Nitf2.{r}' not in t2]
            for n, a in bad.items():
                broken.append(f'{n} depends on non-standard axioms {sorted(set(a) - ALLOWED_AXIOMS)}')
            for r in missing:
                broken.append(f'{r} (required theorem missing)')
            chk.coverage['obligations'] = chk.coverage.get('obligations', 0) + len(allt) + len(missing)
            chk.coverage['discharged'] = chk.coverage.get('discharged', 0) + len(allt) - len(bad)
            chk.coverage['theorems'] = sorted(set(chk.coverage.get('theorems', [])) | {'C13x.' + n[len('Sarpy.Props.C13x.'):] for n in t1}
                                              | {'Nitf2.' + n[len('Sarpy.Gen.Nitf2.'):] for n in t2})
            chk.coverage['axioms_used'] = sorted(set(chk.coverage.get('axioms_used', [])) | {a for v in allt.values() for a in v})
        chk.coverage['checker_cmd_c13x'] = 'cd lean && lake build ' + ' '.join(TARGETS) + ' && lake env lean .lake/audit/Audit_Sarpy_Props_C13x.lean'
        # translator findings: a class without a description, or encoder / decoder conditions that differ
        for n, e in self.gen['errors'].items():
            broken.append(f'tables_nitf2: no description for {n}: {e}')
        for m in self.gen['mismatches']:
            key = m['key']
            if not chk.known(key):
                broken.append(f"tables_nitf2: {m['class']}.{m['field']} is present for the decoder iff [{m['decoder']}] but for the encoder iff "
                              f"[{m['encoder']}] (witness {m.get('witness')!r})")
        chk.coverage.setdefault('translator', {})
        if isinstance(chk.coverage['translator'], dict):
            chk.coverage['translator']['tables_nitf2'] = {
                'described': sorted(self.descs), 'provenance': self.gen['provenance'], 'mismatches': self.gen['mismatches'],
                'errors': self.gen['errors'], 'not_covered': self.gen['not_covered'], 'changed': self.gen['changed']}
        return broken

    # ---- correspondence
    def env_of(self, desc, params):
        names = self.gen['params'].get(desc, [])
        return ','.join(f'{i + 1}=n{params[p]}' for i, p in enumerate(names)) or '-'

    def enqueue(self, drv):
        self.insts = build_instances(self.rng, self.tier)
        st = self.stats
        self.jobs.append(('tables', None, None, None, drv.ask('fmt2 tables'), None, None))
        for label, desc, inst, params in self.insts:
            if isinstance(inst, Exception):
                self.fails.append({'kind': 'construct', 'msg': f'{label}: constructing a valid element raised {type(inst).__name__}: {inst}', 'case': label})
                continue
            st['x_instances'] = st.get('x_instances', 0) + 1
            self.check_instance(drv, label, desc, inst, params, classify(desc, inst))
            # the TRE envelopes inside a user header area: decodeAll must give the same items as the TRE list
            self._tre_jobs(drv, label, inst)
        self.histories(drv)

    def check_instance(self, drv, label, desc, inst, params, key=None, history=None):
        """byte-level oracle + model correspondence for the CURRENT state of `inst` (everything is evaluated now, only the driver's
        answers are read later, so the instance may be mutated afterwards)"""
        msgs, b, back = oracle(label, desc, inst, params)
        for m in msgs:
            f = {'kind': 'element-x', 'msg': m, 'case': label, 'bytes': (b.hex()[:2000] if b is not None else None)}
            if history is not None:
                f['history'] = history
                f['class'] = desc
                f['bytes'] = b.hex() if b is not None else None
            if key:
                f['key'] = key
            self.fails.append(f)
        if desc not in self.descs or b is None:
            return b
        try:
            v = to_value(self.descs, self.descs[desc], inst)
            vb = to_value(self.descs, self.descs[desc], back) if back is not None else None
        except Unrepresentable as e:
            self.disagreements.append({'case': label, 'msg': f'instance cannot be expressed as a model value: {e}'})
            return b
        except Exception as e:
            self.disagreements.append({'case': label, 'msg': f'reading the instance by its description raised {type(e).__name__}: {e}', 'key': key})
            return b
        env = self.env_of(desc, params)
        i_enc = drv.ask(f'fmt2 enc {desc} {env} {v}')
        i_dec = drv.ask(f'fmt2 dec {desc} {env} {hx(b + TRAILER)}')
        self.jobs.append((label, desc, inst, (b, v, vb, key, inst.get_bytes_length()), i_enc, i_dec, params))
        return b

    # ---- mutation histories: construct or decode, then re-assign through the public setters, crossing the conditional thresholds
    def histories(self, drv):
        """After EVERY step: the byte-level oracle (length, round trip, re-encode identity, standard walk), the model correspondence, and
        equality with the bytes of a FRESHLY constructed element holding the same field values (no state may leak into the encoding)."""
        import numpy
        from sarpy.io.general.nitf_elements.image import ImageBands, ImageComments, ImageComment
        from sarpy.io.general.nitf_elements.des import DESUserHeader
        rng = self.rng
        st = self.stats
        n_hist = 2 if self.tier == 'quick' else 25
        n_steps = 6 if self.tier == 'quick' else 10

        def bands(k):
            return [image_band(rng) for _ in range(k)]

        def geo():
            return ''.join(rng.choice('0123456789NSEW') for _ in range(60))

        def img_steps(ver):
            blank = '' if ver == 1 else 'N'
            out = [('Bands.values=%d' % k, lambda h, k=k: setattr(h.Bands, 'values', bands(k))) for k in (1, 3, 9, 10, 12, 2, 11)]
            out += [('Bands=ImageBands(%d)' % k, lambda h, k=k: setattr(h, 'Bands', ImageBands(values=bands(k)))) for k in (1, 10, 4)]
            out += [('band0.LUTD=set', lambda h: setattr(h.Bands.values[0], 'LUTD', numpy.arange(8, dtype='uint8').reshape((2, 4)))),
                    ('band0.LUTD=None', lambda h: setattr(h.Bands.values[0], 'LUTD', None)),
                    ('IC=C3;COMRAT', lambda h: (setattr(h, 'IC', 'C3'), setattr(h, 'COMRAT', '00.1'))),
                    ('IC=NC;COMRAT=None', lambda h: (setattr(h, 'IC', 'NC'), setattr(h, 'COMRAT', None))),
                    ('IC=M3;COMRAT', lambda h: (setattr(h, 'IC', 'M3'), setattr(h, 'COMRAT', '75.0'))),
                    ('IC=NM;COMRAT=None', lambda h: (setattr(h, 'IC', 'NM'), setattr(h, 'COMRAT', None))),
                    ('ICORDS=G;IGEOLO', lambda h: (setattr(h, 'ICORDS', 'G'), setattr(h, 'IGEOLO', geo()))),
                    ('ICORDS=blank;IGEOLO=None', lambda h: (setattr(h, 'ICORDS', blank), setattr(h, 'IGEOLO', None))),
                    ('Comments.values=0', lambda h: setattr(h.Comments, 'values', [])),
                    ('Comments.values=3', lambda h: setattr(h.Comments, 'values', [ImageComment(COMMENT=rtext(rng, 80)) for _ in range(3)])),
                    ('Comments=ImageComments(9)', lambda h: setattr(h, 'Comments', ImageComments(values=[ImageComment(COMMENT=rtext(rng, 80)) for _ in range(9)]))),
                    ('UserHeader=some', lambda h: setattr(h, 'UserHeader', user_header(rng, False))),
                    ('UserHeader=none', lambda h: setattr(h, 'UserHeader', None)),
                    ('ExtendedHeader=some', lambda h: setattr(h, 'ExtendedHeader', user_header(rng, False))),
                    ('ExtendedHeader=empty', lambda h: setattr(h, 'ExtendedHeader', user_header(rng))),
                    ('NROWS,IID', lambda h: (setattr(h, 'NROWS', rint(rng, 8, True)), setattr(h, 'IID1' if ver == 1 else 'IID', rtext(rng, 10))))]
            return out

        def des_steps(ver):
            idf = 'DESID' if ver == 1 else 'DESTAG'
            return [('overflow on', lambda h: (setattr(h, idf, 'TRE_OVERFLOW'), setattr(h, 'DESOFLW', rng.choice(['XHD', 'UDHD'])), setattr(h, 'DESITEM', rng.randint(0, 999)))),
                    ('overflow off', lambda h: (setattr(h, idf, 'XML_DATA_CONTENT'), setattr(h, 'DESOFLW', None), setattr(h, 'DESITEM', None))),
                    ('UserHeader=bytes', lambda h: setattr(h, 'UserHeader', DESUserHeader(data=rbytes(rng, rng.randint(1, 60))))),
                    ('UserHeader=empty', lambda h: setattr(h, 'UserHeader', DESUserHeader(data=b''))),
                    ('DESVER', lambda h: setattr(h, 'DESVER', rng.randint(1, 99)))]

        def sec0_steps():
            return [('DWNG=999998;DEVT', lambda h: (setattr(h, 'DWNG', '999998'), setattr(h, 'DEVT', rtext(rng, 40) or 'EVENT'))),
                    ('DWNG=other;DEVT=None', lambda h: (setattr(h, 'DWNG', '0512Z'), setattr(h, 'DEVT', None))),
                    ('CLAS', lambda h: setattr(h, 'CLAS', rng.choice(['U', 'S', 'C'])))]

        def loop_steps(cls, make, counts):
            return [('values=%d' % k, lambda h, k=k: setattr(h, 'values', [make() for _ in range(k)])) for k in counts]

        def hdr_steps(ver):
            def arrs(h):
                other = file_header(rng, ver)
                h.ImageSegments = other.ImageSegments
                h.DataExtensions = other.DataExtensions
                h.TextSegments = other.TextSegments
            return [('segment arrays', arrs),
                    ('UserHeader=some', lambda h: setattr(h, 'UserHeader', user_header(rng, False))),
                    ('UserHeader=none', lambda h: setattr(h, 'UserHeader', None)),
                    ('ExtendedHeader=some', lambda h: setattr(h, 'ExtendedHeader', user_header(rng, False))),
                    ('FTITLE', lambda h: setattr(h, 'FTITLE', rtext(rng, 80)))]

        def uh_steps():
            return [('UserHeader=some', lambda h: setattr(h, 'UserHeader', user_header(rng, False))),
                    ('UserHeader=none', lambda h: setattr(h, 'UserHeader', None)),
                    ('UserHeader=empty', lambda h: setattr(h, 'UserHeader', user_header(rng)))]

        from sarpy.io.general.nitf_elements.text import TextSegmentHeader
        from sarpy.io.general.nitf_elements.graphics import GraphicsSegmentHeader
        families = [
            ('ImageSegmentHeader', lambda: image_header(rng, 1), img_steps(1)),
            ('ImageSegmentHeader0', lambda: image_header(rng, 0), img_steps(0)),
            ('ImageBands', lambda: ImageBands(values=bands(rng.choice([1, 10]))), loop_steps(ImageBands, lambda: image_band(rng), (1, 9, 10, 3, 15, 2))),
            ('ImageComments', lambda: ImageComments(values=[]), loop_steps(ImageComments, lambda: ImageComment(COMMENT=rtext(rng, 80)), (0, 1, 9, 3))),
            ('DataExtensionHeader', lambda: des_header(rng, 1), des_steps(1)),
            ('DataExtensionHeader0', lambda: des_header(rng, 0), des_steps(0)),
            ('NITFSecurityTags0', lambda: security(rng, 0), sec0_steps()),
            ('NITFHeader', lambda: file_header(rng, 1), hdr_steps(1)),
            ('NITFHeader0', lambda: file_header(rng, 0), hdr_steps(0)),
            ('TextSegmentHeader', lambda: TextSegmentHeader(Security=security(rng, 1), UserHeader=user_header(rng), **rand_kwargs(rng, TextSegmentHeader)), uh_steps()),
            ('GraphicsSegmentHeader', lambda: GraphicsSegmentHeader(Security=security(rng, 1), UserHeader=user_header(rng), **rand_kwargs(rng, GraphicsSegmentHeader)), uh_steps()),
        ]
        for desc, make, steps in families:
            for hno in range(n_hist):
                try:
                    inst = make()
                    start = 'constructed'
                    if hno % 2 == 1:      # every other history starts from a DECODED element
                        inst = inst.__class__.from_bytes(inst.to_bytes() + TRAILER, 0)
                        start = 'decoded'
                except Exception as e:
                    self.fails.append({'kind': 'construct', 'msg': f'{desc}: history start raised {type(e).__name__}: {e}', 'case': desc})
                    continue
                if classify(desc, inst):
                    continue
                trail = [start]
                for k in range(n_steps):
                    name, fn = rng.choice(steps)
                    trail.append(name)
                    label = f'{desc}:history[{hno}]:' + ' -> '.join(trail)
                    try:
                        fn(inst)
                    except Exception as e:
                        # a refused re-assignment is fine; the element must still be what it was (checked by the next step)
                        st['h_refused_steps'] = st.get('h_refused_steps', 0) + 1
                        trail[-1] = name + ' (refused: ' + type(e).__name__ + ')'
                        continue
                    st['h_steps'] = st.get('h_steps', 0) + 1
                    st.setdefault('h_step_kinds', {})
                    st['h_step_kinds'][desc + ':' + name] = st['h_step_kinds'].get(desc + ':' + name, 0) + 1
                    key = classify(desc, inst)
                    b = self.check_instance(drv, label, desc, inst, {}, key, history=list(trail))
                    if b is None:
                        break
                    try:
                        fb = fresh(inst).to_bytes()
                    except Exception as e:
                        st['h_fresh_unavailable'] = st.get('h_fresh_unavailable', 0) + 1
                        continue
                    st['h_fresh_compared'] = st.get('h_fresh_compared', 0) + 1
                    if fb != b:
                        i = next((j for j in range(min(len(b), len(fb))) if b[j] != fb[j]), min(len(b), len(fb)))
                        f = {'kind': 'history', 'msg': f'{label}: to_bytes() ({len(b)} bytes) differs at byte {i} from the bytes of a freshly constructed '
                             f'element with the same field values ({len(fb)} bytes): state from the history leaks into the encoding',
                             'case': label, 'history': list(trail), 'bytes': b.hex(), 'class': desc}
                        if key:
                            f['key'] = key
                        self.fails.append(f)
                        break
            st['h_histories'] = st.get('h_histories', 0) + n_hist
        self.bare_controller_probes(drv)

    def bare_controller_probes(self, drv):
        """a controlling field re-assigned ALONE (the dependent field is not touched): one step on a fresh element per direction"""
        rng = self.rng
        st = self.stats

        def geo():
            return ''.join(rng.choice('0123456789NSEW') for _ in range(60))
        probes = []
        for ver, desc in ((1, 'ImageSegmentHeader'), (0, 'ImageSegmentHeader0')):
            blank = '' if ver == 1 else 'N'
            probes += [(desc, 'ICORDS', lambda v=ver: image_header(rng, v, 1, 'G', 'NC', 0, False), lambda h, b=blank: setattr(h, 'ICORDS', b), 'ICORDS: G -> blank'),
                       (desc, 'ICORDS', lambda v=ver, b=blank: image_header(rng, v, 1, b, 'NC', 0, False), lambda h: setattr(h, 'ICORDS', 'G'), 'ICORDS: blank -> G'),
                       (desc, 'IC', lambda v=ver: image_header(rng, v, 1, 'G', 'NC', 0, False), lambda h: setattr(h, 'IC', 'C3'), 'IC: NC -> C3'),
                       (desc, 'IC', lambda v=ver: image_header(rng, v, 1, 'G', 'C3', 0, False), lambda h: setattr(h, 'IC', 'NC'), 'IC: C3 -> NC'),
                       (desc, 'IC', lambda v=ver: image_header(rng, v, 1, 'G', 'C3', 0, False), lambda h: setattr(h, 'IC', 'C5'), 'IC: C3 -> C5')]
        for ver, desc, idf in ((1, 'DataExtensionHeader', 'DESID'), (0, 'DataExtensionHeader0', 'DESTAG')):
            probes += [(desc, idf, lambda v=ver: des_header(rng, v, True, 'UDHD', 'none'), lambda h, f=idf: setattr(h, f, 'XML_DATA_CONTENT'), idf + ': TRE_OVERFLOW -> other'),
                       (desc, idf, lambda v=ver: des_header(rng, v, False, None, 'none'), lambda h, f=idf: setattr(h, f, 'TRE_OVERFLOW'), idf + ': other -> TRE_OVERFLOW')]
        probes += [('NITFSecurityTags0', 'DWNG', lambda: security(rng, 0), lambda h: setattr(h, 'DWNG', '999998'), 'DWNG: -> 999998'),
                   ('NITFSecurityTags0', 'DWNG', lambda: security(rng, 0), lambda h: setattr(h, 'DWNG', '0512Z'), 'DWNG: -> other')]
        for desc, fld, make, fn, what in probes:
            try:
                inst = make()
            except Exception:
                continue
            if classify(desc, inst):
                continue
            try:
                fn(inst)
            except Exception:
                st['h_refused_steps'] = st.get('h_refused_steps', 0) + 1
                continue
            st['h_bare_probes'] = st.get('h_bare_probes', 0) + 1
            st['h_steps'] = st.get('h_steps', 0) + 1
            key = KEY_CTRL.format(cls=desc, fld=fld)
            self.check_instance(drv, f'{desc}:bare re-assignment {what}', desc, inst, {}, key, history=['constructed', what])

    def _tre_jobs(self, drv, label, inst):
        from sarpy.io.general.nitf_elements import base as B
        for fld in ('UserHeader', 'ExtendedHeader'):
            uh = inst if (fld == 'UserHeader' and isinstance(inst, B.UserHeaderType)) else getattr(inst, fld, None)
            if isinstance(uh, B.UserHeaderType) and isinstance(uh.data, B.TREList) and all(isinstance(t, B.UnknownTRE) for t in uh.data.tres):
                want = '[' + ';'.join(to_value(self.descs, self.descs['UnknownTRE'], t) for t in uh.data.tres) + ']'
                self.jobs.append((f'{label}.{fld}:TRE-list', 'UnknownTRE', None, want, drv.ask(f'fmt2 all UnknownTRE - {hx(uh.data.to_bytes())}'), None, None))
            if uh is inst:
                break

    def collect(self, ans):
        st = self.stats
        dis = self.disagreements
        classes = set()
        if ans is None:     # the driver did not run: the oracle's findings still count
            return self.fails, [], st
        for label, desc, inst, info, i_enc, i_dec, params in self.jobs:
            if label == 'tables':
                have = set(ans[i_enc].split(','))
                missing = sorted(set(self.descs) - have)
                if missing:
                    dis.append({'case': 'tables', 'msg': f'the driver does not know the descriptions {missing} (stale Gen/NitfTables2 build?)'})
                continue
            if inst is None:
                st['x_tre_lists'] = st.get('x_tre_lists', 0) + 1
                if ans[i_enc] != 'ok ' + info:
                    dis.append({'case': label, 'msg': 'model decodeAll of the TRE area differs from the TRE list', 'model': ans[i_enc][:200], 'python': info[:200]})
                continue
            b, v, vb, key, ln_py = info
            st['x_model_records'] = st.get('x_model_records', 0) + 1
            classes.add(desc)
            d = []
            a = ans[i_enc].split()
            if len(a) != 4:
                d.append({'msg': 'model cannot read the value: ' + ans[i_enc][:80], 'value': v[:300]})
            else:
                acc, hexs, ln, conf = a
                if acc != 'true':
                    d.append({'msg': 'the model does not accept the state the implementation holds (conditional parts inconsistent with their conditions, or a value out of range)', 'value': v[:300]})
                elif hexs != hx(b):
                    i = next((k for k in range(min(len(hexs), len(b.hex()))) if hexs[k] != b.hex()[k]), 0) // 2
                    d.append({'msg': f'model encoding differs from to_bytes() at byte {i}', 'model': hexs[max(0, 2 * i - 20):2 * i + 40], 'python': b.hex()[max(0, 2 * i - 20):2 * i + 40]})
                elif int(ln) != ln_py:
                    d.append({'msg': f'model length {ln} != get_bytes_length() {ln_py}'})
                elif conf != 'true':
                    d.append({'msg': 'the encoding of an accepted value is not conformant for the strict decoder'})
            r = ans[i_dec].split()
            if r[:1] != ['ok'] or len(r) != 4:
                d.append({'msg': 'model decode of to_bytes() + trailer fails: ' + ans[i_dec][:80], 'python_decodes': vb is not None})
            else:
                _, mv, rest, conf = r
                if rest != hx(TRAILER):
                    d.append({'msg': f'model decode leaves {rest[:40]} instead of the trailer'})
                if vb is None:
                    d.append({'msg': 'model decodes to_bytes() + trailer, from_bytes does not', 'model': mv[:300]})
                elif mv != vb:
                    d.append({'msg': 'model decode and from_bytes give different values', 'model': mv[:300], 'python': vb[:300]})
            for x in d:
                x['case'] = label
                if key:
                    x['key'] = key
                dis.append(x)
        st['x_classes'] = sorted(classes)
        # disagreements explained by a listed finding are not disagreements of the tie
        kept = [x for x in dis if not (x.get('key') and self.chk.known(x['key']))]
        st['x_disagreements_under_known_findings'] = len(dis) - len(kept)
        return self.fails, kept, st


def replay_case(case):
    """a history case: the bytes the mutated element wrote are decoded and re-encoded by the implementation alone"""
    import logging
    logging.disable(logging.CRITICAL)
    import tables_nitf
    cls = tables_nitf.classes().get(case.get('class'))
    print('history:', ' -> '.join(case.get('history', [])))
    if cls is None or not case.get('bytes'):
        return 1
    b = bytes.fromhex(case['bytes'])
    print(f'{cls.__name__}: the element wrote {len(b)} bytes')
    try:
        back = cls.from_bytes(b + TRAILER, 0)
        b2 = back.to_bytes()
        print(f'from_bytes(..).to_bytes(): {len(b2)} bytes, identical: {b2 == b}; get_bytes_length() = {back.get_bytes_length()}')
        fb = fresh(back).to_bytes()
        print(f'freshly constructed element with the decoded field values: {len(fb)} bytes, identical to what was written: {fb == b}')
        return 0 if (b2 == b and fb == b) else 1
    except Exception as e:
        print(f'FAIL from_bytes of the written bytes raised {type(e).__name__}: {e}')
        return 1
