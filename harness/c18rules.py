"""C18 extension: the arithmetic / structural content rules of the consistency checkers.

proof side : lean/SarpyModel/Props/C18Rules.lean (writer_satisfies_* / mutation_*_falsifies_* / *_iff over Spec.CheckerRules) and
             lean/SarpyModel/Bridge/CheckerRules.lean (Gen = Spec for every translated rule; Gen is regenerated from
             /repo/sarpy/consistency/*.py by translate/gen_checker.py on every run)
tie        : three-way comparison, per recorded need / want of the real checker: the value the real code recorded, the
             regenerated comparison (driver `chkgen`) and the reference rule (driver `chkspec`), on numbers extracted from the
             bytes / the XML by independent parsers (cphdgen.parse_header, ElementTree, nitfparse)
search     : (a) 64 consecutive lengths of the free text of the metadata, so that the XML block of a sarpy-written file ends on
             every residue mod 64 (pad 0 … 63 in front of the next block), with and without support arrays; (b) header patches at
             the boundary of every block-order rule (just holds / just fails); (c) XML documents edited around every rule
             (counts, identifiers, references, polygons, polynomials, optional parameters, boxes).  The oracle is an independent
             Python statement of each documented rule (ORACLE / list oracles below), never the model.
"""
import copy
import os
import random
import re
import xml.etree.ElementTree as ET
from fractions import Fraction
from math import lcm

import cphdgen
import nitfparse
from common import VERIF, LEAN, lake_build, audit, ALLOWED_AXIOMS, REPO

GEN_PATH = os.path.join(VERIF, 'lean', 'SarpyModel', 'Gen', 'CheckerRules.lean')
BRIDGE_FILE = os.path.join(LEAN, 'SarpyModel', 'Bridge', 'CheckerRules.lean')

RULES_REQUIRED = [
    'padAfterXml_iff', 'padAfterSupport_iff', 'padAfterPvp_iff', 'signalAtEof_iff',
    'writer_satisfies_padAfterXml', 'writer_satisfies_padAfterSupport', 'writer_satisfies_padAfterPvp', 'writer_satisfies_signalAtEof',
    'padAfterXml_pad_zero', 'writer_pad_zero', 'residues_cover', 'padAfterSupport_pad_zero', 'padAfterPvp_pad_zero',
    'mutation_nextoff_falsifies_padAfterXml', 'mutation_pvpoff_falsifies_padAfterSupport', 'mutation_sigoff_falsifies_padAfterPvp',
    'mutation_filelen_falsifies_signalAtEof', 'writer_satisfies_xmlEarly', 'mutation_xmloff_falsifies_xmlEarly',
    'packFrom_packed', 'packFrom_bounds', 'packFrom_disjoint', 'writer_packed_arrays_fit', 'writer_pvp_fields_tile', 'writer_satisfies_allSignalFit', 'writer_channels_disjoint', 'mutation_numvectors_falsifies_signalFits',
    'mutation_blocksize_falsifies_signalFits',
    'writer_satisfies_countMatches', 'countMatches_iff', 'mutation_count_falsifies_countMatches', 'writer_satisfies_fourCorners',
    'mutation_corner_falsifies_fourCorners', 'optionalFx_iff', 'mutation_one_missing_falsifies_optionalFx',
    'mutation_domain_falsifies_optionalFx', 'together_iff', 'mutation_one_missing_falsifies_together', 'together3_iff',
    'boxOrdered_iff', 'writer_satisfies_boxOrdered', 'mutation_swap_falsifies_boxOrdered', 'mutation_degenerate_falsifies_boxOrdered',
    'writer_satisfies_sameCode', 'sameCode_iff', 'mutation_version_falsifies_sameCode', 'writer_satisfies_matchesPresent',
    'mutation_value_falsifies_matchesPresent',
    'unique_iff_nodup', 'mem_repeated', 'writer_satisfies_unique', 'mutation_duplicate_falsifies_unique',
    'refsExist_iff', 'writer_satisfies_refsExist', 'mutation_dangling_falsifies_refsExist',
    'requiredPresent_iff', 'writer_satisfies_requiredPresent', 'mutation_key_removed_falsifies_requiredPresent',
    'writer_satisfies_indicesPresent', 'indicesPresent_iff_perm', 'mutation_duplicate_index_falsifies_indicesPresent',
    'polyOk_iff', 'writer_satisfies_polyOk_1d', 'writer_satisfies_polyOk_2d', 'mutation_exponent_falsifies_polyOk',
    'mutation_duplicate_coef_falsifies_polyOk',
    'writer_satisfies_sicdSegOk', 'writer_satisfies_sicdImagesOk', 'mutation_pixeltype_falsifies_sicdSegOk',
    'mutation_nbpp_falsifies_sicdSegOk', 'mutation_icat_falsifies_sicdSegOk', 'mutation_pvtype_falsifies_sicdSegOk',
    'sicd_band_rule_accepts_one_wrong_code', 'mutation_both_bands_falsify_sicdSegOk',
    'writer_satisfies_sizeRule', 'mutation_numrows_falsifies_sizeRule', 'writer_satisfies_siddSegOk', 'mutation_pixeltype_falsifies_siddSegOk',
    'writer_satisfies_sicdScan', 'mutation_no_sicd_des_falsifies_sicdScan', 'mutation_second_sicd_des_falsifies_sicdScan',
    'mutation_sidd_des_falsifies_sicdScan', 'writer_satisfies_siddFound',
    'lookup_checkCall', 'check_independent_of_history', 'stale_entry_survives', 'history_then_check_eq_fresh', 'verdict_independent_of_history',
    'history_keys', 'full_check_after_history_eq_fresh', 'resolve_defined',
    'lookupParam_eq_some_iff', 'lookupParam_perm', 'perChannel_perm_params', 'perChannel_perm_data', 'allChannelsPass_perm',
    'mutation_identifiers_swapped', 'position_pairing_differs',
]

# bridge theorem -> the translated rule / table it ties
BRIDGE_REQUIRED = {
    'gen_xml_early': 'xml_early', 'gen_pad_after_xml': 'pad_after_xml', 'gen_pad_after_support': 'pad_after_support',
    'gen_pad_after_pvp': 'pad_after_pvp', 'gen_signal_at_eof': 'signal_at_eof', 'gen_signal_fits': 'signal_fits',
    'gen_num_acfs': 'num_acfs', 'gen_num_apcs': 'num_apcs', 'gen_num_antpats': 'num_antpats', 'gen_corner_points': 'corner_points',
    'gen_polygon_size': 'polygon_size', 'gen_optional_fx': 'optional_fx', 'gen_optional_toa': 'optional_toa',
    'gen_toa_ext_together': 'toa_ext_together', 'gen_image_area_box': 'image_area_box', 'gen_channel_area_box': 'channel_area_box',
    'gen_extended_area_box': 'extended_area_box', 'gen_version_match': 'version_match',
    'gen_severities': 'severities', 'gen_guards': 'guards',
    'gen_sicd_checker_pixels': 'sicd_pixels', 'gen_sicd_writer_pixels': 'sicd_pixels', 'gen_sicd_checker_bands': 'sicd_pixels',
    'gen_sidd_checker_pixels': 'sidd_pixels', 'gen_sidd_writer_pixels': 'sidd_pixels',
    'gen_sicd_urns_des': 'sicd_urns', 'gen_sidd_urns_des': 'sidd_urns',
}


def regen():
    import gen_checker
    r = gen_checker.generate(GEN_PATH)
    return {'hashes': r['hashes'], 'unsupported': r['unsupported'], 'changed': r['changed'], 'rules': r['rules']}


def audit2(modules, namespaces):
    """one Lean run for several modules / namespaces (common.audit starts Lean once per module)"""
    import common
    d = os.path.join(LEAN, '.lake', 'audit')
    os.makedirs(d, exist_ok=True)
    path = os.path.join(d, 'Audit_C18Rules.lean')
    src = common.AUDIT_TMPL.format(module=modules[0], ns=namespaces[0])
    src = ''.join(f'import {m}\n' for m in modules[1:]) + src
    src = src.replace('if pre.isPrefixOf n && !n.isInternalDetail then',
                      'if (pre.isPrefixOf n' + ''.join(f' || (`{ns} : Name).isPrefixOf n' for ns in namespaces[1:]) + ') && !n.isInternalDetail then')
    with open(path, 'w') as f:
        f.write(src)
    rc, out, err = common.sh(['lake', 'env', 'lean', path], cwd=LEAN, timeout=900)
    if rc != 0:
        raise common.Infra('audit failed: ' + (out + err)[-2000:])
    res = {}
    for line in out.splitlines():
        if line.startswith('AUDIT '):
            name, _, ax = line[6:].partition(' :: ')
            res[name.strip()] = ax.split()
    return res


def prove(chk, gen_info):
    """build + audit of the two extension modules.  The bridge module depends on regenerated code: when it does not build, the
    broken theorems are located by the line numbers of the errors.  -> (broken obligations, names of broken rules)"""
    broken, broken_rules = [], set()
    thms = {}
    ok_rules, failed, errors, log = lake_build(['SarpyModel.Props.C18Rules'])
    ok_bridge = lake_build(['SarpyModel.Bridge.CheckerRules'])[0]
    both = None
    if ok_rules and ok_bridge:
        both = audit2(['SarpyModel.Props.C18Rules', 'SarpyModel.Bridge.CheckerRules'], ['Sarpy.Props.C18Rules', 'Sarpy.Bridge.Chk'])
    if not ok_rules:
        broken.append('SarpyModel.Props.C18Rules (lake build failed): ' + '; '.join(f'{f}:{l}: {m}' for f, l, c, m in errors[:3]))
    else:
        t = {k: v for k, v in both.items() if k.startswith('Sarpy.Props.C18Rules.')} if both is not None else audit('SarpyModel.Props.C18Rules', 'Sarpy.Props.C18Rules')
        thms.update(t)
        broken += [f'Sarpy.Props.C18Rules.{r} (required theorem missing)' for r in RULES_REQUIRED if f'Sarpy.Props.C18Rules.{r}' not in t]
    for name, why in gen_info['unsupported']:
        broken.append(f'translator could not express rule {name}: {why}')
        broken_rules.add(name if name not in ('pixel_tables',) else 'sicd_pixels')
    ok, failed, errors, log = lake_build(['SarpyModel.Bridge.CheckerRules'])
    if not ok:
        src = open(BRIDGE_FILE).read().split('\n')
        starts, doc = [], None        # a declaration starts with its doc comment: Lean reports `:= rfl` failures at that line
        for i, ln in enumerate(src):
            if ln.startswith('/--') and doc is None:
                doc = i + 1
            m = re.match(r'theorem\s+(\w+)', ln)
            if m:
                starts.append((doc or i + 1, m.group(1)))
                doc = None
            elif not ln.strip():
                doc = None
        hit = set()
        for f, l, c, m in errors:
            if f.endswith('Bridge/CheckerRules.lean'):
                cur = [n for s, n in starts if s <= int(l)]
                if cur:
                    hit.add(cur[-1])
        if not hit:
            hit = set(BRIDGE_REQUIRED)
            broken.append('SarpyModel.Bridge.CheckerRules (lake build failed): ' + log[-300:])
        for n in sorted(hit):
            broken.append(f'Sarpy.Bridge.Chk.{n} (bridge Gen = Spec no longer proves: the regenerated rule `{BRIDGE_REQUIRED.get(n, n)}` differs from the reference rule)')
            broken_rules.add(BRIDGE_REQUIRED.get(n, n))
        chk.coverage.setdefault('build_errors', [])
        chk.coverage['build_errors'] += [f'{f}:{l}:{c}: {m}' for f, l, c, m in errors[:10]]
        nb = len(BRIDGE_REQUIRED)
    else:
        t = {k: v for k, v in both.items() if k.startswith('Sarpy.Bridge.Chk.')} if both is not None else audit('SarpyModel.Bridge.CheckerRules', 'Sarpy.Bridge.Chk')
        thms.update(t)
        for r, rule in BRIDGE_REQUIRED.items():
            if f'Sarpy.Bridge.Chk.{r}' not in t:
                broken.append(f'Sarpy.Bridge.Chk.{r} (required theorem missing)')
                broken_rules.add(rule)
        nb = 0
    if chk.tier == 'thorough' and not broken:
        from common import sh
        mods = ['SarpyModel.Props.C18Rules', 'SarpyModel.Bridge.CheckerRules']
        rc, out, err = sh(['lake', 'env', 'leanchecker'] + mods, cwd=LEAN, timeout=3000)
        chk.coverage['leanchecker_rules'] = {'modules': mods, 'ok': rc == 0}
        if rc != 0:
            broken.append('leanchecker rejects ' + ' '.join(mods) + ': ' + (out + err)[-400:])
    bad = {n: a for n, a in thms.items() if set(a) - ALLOWED_AXIOMS}
    for n, a in bad.items():
        broken.append(f'{n} depends on non-standard axioms {sorted(set(a) - ALLOWED_AXIOMS)}')
    chk.coverage['obligations'] = chk.coverage.get('obligations', 0) + len(thms) + nb
    chk.coverage['discharged'] = chk.coverage.get('discharged', 0) + len(thms) - len(bad)
    chk.coverage['theorems'] = chk.coverage.get('theorems', []) + sorted(n.replace('Sarpy.Props.', '').replace('Sarpy.Bridge.', 'Bridge.') for n in thms)
    chk.coverage['axioms_used'] = sorted(set(chk.coverage.get('axioms_used', [])) | {a for v in thms.values() for a in v})
    chk.coverage['checker_cmd'] = chk.coverage.get('checker_cmd', '') + ' && lake build SarpyModel.Props.C18Rules SarpyModel.Bridge.CheckerRules'
    return broken, broken_rules


# ======================================================================================================================
# independent statements of the documented rules (the oracle; never derived from the model or the checker)
# ======================================================================================================================
ORACLE = {
    'xml_early': lambda i, b: i[0] < 268435456,
    'pad_after_xml': lambda i, b: (i[2] if b[0] else i[3]) >= i[0] + i[1] + 2,
    'pad_after_support': lambda i, b: i[2] >= i[0] + i[1],
    'pad_after_pvp': lambda i, b: i[2] >= i[0] + i[1],
    'signal_at_eof': lambda i, b: i[0] == i[1] + i[2],
    'signal_fits': lambda i, b: i[0] + i[1] * i[2] * i[3] <= i[4],
    'num_acfs': lambda i, b: i[0] == i[1], 'num_apcs': lambda i, b: i[0] == i[1], 'num_antpats': lambda i, b: i[0] == i[1],
    'polygon_size': lambda i, b: i[0] == i[1],
    'corner_points': lambda i, b: i[0] == 4,
    'optional_fx': lambda i, b: (not b[1] and not b[2]) or (b[0] and b[1] and b[2]),
    'optional_toa': lambda i, b: b[0] == b[1],
    'toa_ext_together': lambda i, b: b[0] == b[1] == b[2],
    'image_area_box': lambda i, b: i[0] < i[2] and i[1] < i[3],
    'channel_area_box': lambda i, b: i[0] < i[2] and i[1] < i[3],
    'extended_area_box': lambda i, b: i[0] < i[2] and i[1] < i[3],
    'version_match': lambda i, b: i[0] == i[1],
}
SEVERITY = {'xml_early': 'Warning', 'toa_ext_together': 'Warning'}

REQUIRED_KEYS = ['XML_BLOCK_SIZE', 'XML_BLOCK_BYTE_OFFSET', 'PVP_BLOCK_SIZE', 'PVP_BLOCK_BYTE_OFFSET', 'SIGNAL_BLOCK_SIZE',
                 'SIGNAL_BLOCK_BYTE_OFFSET', 'CLASSIFICATION', 'RELEASE_INFO']
ID_SETS = [['./Antenna/AntCoordFrame/Identifier'], ['./Antenna/AntPattern/Identifier'], ['./Antenna/AntPhaseCenter/Identifier'],
           ['./Channel/Parameters/Identifier'], ['./Data/Channel/Identifier'], ['./Data/SupportArray/Identifier'],
           ['./Dwell/CODTime/Identifier'], ['./Dwell/DwellTime/Identifier'], ['./SceneCoordinates/ImageGrid/SegmentList/Segment/Identifier'],
           ['./TxRcv/RcvParameters/Identifier'], ['./TxRcv/TxWFParameters/Identifier'],
           ['./SupportArray/IAZArray/Identifier', './SupportArray/AntGainPhase/Identifier', './SupportArray/AddedSupportArray/Identifier']]
POLY_PATHS = [f'./Antenna/AntPattern/{j}/{k}Poly' for j in ('Array', 'Element') for k in ('Gain', 'Phase')] + \
             [f'./Antenna/AntCoordFrame/{a}AxisPoly/{c}' for a in 'XY' for c in 'XYZ'] + ['./Antenna/AntPattern/GainBSPoly'] + \
             [f'./Antenna/AntPattern/EB/DC{a}Poly' for a in 'XY'] + [f'./Dwell/{x}Time/{x}TimePoly' for x in ('COD', 'Dwell')]


def _strip_ns(root):
    for el in root.iter():
        if isinstance(el.tag, str) and '}' in el.tag:
            el.tag = el.tag.split('}', 1)[1]
    return root


def _chan_suffix(cid):
    return re.sub(r'\W', '_', cid)


def _scaled(values):
    """finite doubles (given as text) -> integers in the same order (common power-of-two scale)"""
    fr = [Fraction(float(v)) for v in values]
    m = 1
    for f in fr:
        m = lcm(m, f.denominator)
    return [int(f * m) for f in fr]


class Tokens:
    """injective coding of arbitrary strings as driver tokens"""

    def __init__(self):
        self.map = {}

    def __call__(self, s):
        if s is None:
            s = '\0none'
        if s not in self.map:
            self.map[s] = f's{len(self.map)}'
        return self.map[s]

    def many(self, l):
        return ','.join(self(x) for x in l) or '-'


def xml_observations(xml_bytes):
    """everything the modelled XML rules look at, read with ElementTree.  -> (scalar observations, list observations)
    scalar: dict(rule, ints, bools, check, text); list: dict(kind, line, oracle, check, text[, seq])"""
    root = _strip_ns(ET.fromstring(xml_bytes))
    tx = lambda el, p: (el.findtext(p) if el is not None else None)
    obs, lobs = [], []
    tok = Tokens()
    ant = root.find('./Antenna')
    if ant is not None:
        for rule, cnt, path, text in (('num_acfs', 'NumACFs', './AntCoordFrame', 'The NumACFs must be equal'),
                                      ('num_apcs', 'NumAPCs', './AntPhaseCenter', 'The NumAPCs must be equal'),
                                      ('num_antpats', 'NumAntPats', './AntPattern', 'The NumAntPats must be equal')):
            try:
                obs.append(dict(rule=rule, ints=[int(tx(ant, './' + cnt)), len(ant.findall(path))], bools=[], check='check_antenna', text=text))
            except (TypeError, ValueError):
                pass
        refs = [e.text for e in ant.findall('./AntPhaseCenter/ACFId')]
        defs = [e.text for e in ant.findall('./AntCoordFrame/Identifier')]
        lobs.append(dict(kind='refs', line=f'chkspec refs {tok.many(refs)} {tok.many(defs)}', oracle=set(refs) <= set(defs),
                         check='check_antenna', text='./AntPhaseCenter/ACFId references an identifier'))
    icp = root.find('./SceneCoordinates/ImageAreaCornerPoints')
    if icp is not None:
        obs.append(dict(rule='corner_points', ints=[len(list(icp))], bools=[], check='check_image_area_corner_points', text='4 corner points'))
        _polygon_obs(icp, 'check_image_area_corner_points', obs, lobs, size=False)
    poly = root.find('./SceneCoordinates/ImageArea/Polygon')
    if poly is not None:
        _polygon_obs(poly, 'check_global_imagearea_polygon', obs, lobs, size=True)
    is_fx = tx(root, './Global/DomainType') == 'FX'
    has = lambda p: root.findtext(p) is not None
    f1, f2, t1, t2 = has('./PVP/FXN1'), has('./PVP/FXN2'), has('./PVP/TOAE1'), has('./PVP/TOAE2')
    obs.append(dict(rule='optional_fx', ints=[], bools=[is_fx, f1, f2], check='check_optional_pvps_fx', text='FXN1/FXN2 only allowed'))
    obs.append(dict(rule='optional_toa', ints=[], bools=[t1, t2], check='check_optional_pvps_toa', text='TOAE1/TOAE2 must be included together'))

    def box(el, rule, check, text):
        try:
            a, b = el.find('./X1Y1'), el.find('./X2Y2')
            vals = _scaled([a.findtext('X'), a.findtext('Y'), b.findtext('X'), b.findtext('Y')])
            obs.append(dict(rule=rule, ints=vals, bools=[], check=check, text=text))
        except (AttributeError, TypeError, ValueError):
            pass
    ia = root.find('./SceneCoordinates/ImageArea')
    if ia is not None:
        box(ia, 'image_area_box', 'check_imagearea_x1y1_x2y2', 'SceneCoordinates/ImageArea/X1Y1 < SceneCoordinates/ImageArea/X2Y2')
    ea = root.find('./SceneCoordinates/ExtendedArea')
    if ea is not None:
        box(ea, 'extended_area_box', 'check_extended_imagearea_x1y1_x2y2', 'SceneCoordinates/ExtendedArea/X1Y1 < SceneCoordinates/ExtendedArea/X2Y2')
    # identifier sets
    for paths in ID_SETS:
        ids = [e.text for p in paths for e in root.findall(p)]
        lobs.append(dict(kind='unique', line=f'chkspec repeated {tok.many(ids)}', oracle=len(set(ids)) == len(ids),
                         check='check_identifier_uniqueness', text="'" + paths[0] + "'", repeated=sorted({x for x in ids if ids.count(x) > 1}, key=str)))
    cod_ids = [e.text for e in root.findall('./Dwell/CODTime/Identifier')]
    dwell_ids = [e.text for e in root.findall('./Dwell/DwellTime/Identifier')]
    apc_ids = [e.text for e in root.findall('./Antenna/AntPhaseCenter/Identifier')]
    apat_ids = [e.text for e in root.findall('./Antenna/AntPattern/Identifier')]
    txwf_ids = [e.text for e in root.findall('./TxRcv/TxWFParameters/Identifier')]
    rcv_ids = [e.text for e in root.findall('./TxRcv/RcvParameters/Identifier')]
    chan_ids = [e.text for e in root.findall('./Data/Channel/Identifier')]
    for cid in chan_ids:
        node = None
        for p in root.findall('./Channel/Parameters'):
            if p.findtext('Identifier') == cid:
                node = p
                break
        if node is None:
            continue
        sfx = _chan_suffix(cid)

        def ref(check, refs, defs, text):
            lobs.append(dict(kind='refs', line=f'chkspec refs {tok.many(refs)} {tok.many(defs)}', oracle=all(r in defs for r in refs),
                             check=f'{check}_{sfx}', text=text))
        ref('check_channel_dwell_exist', [tx(node, './DwellTimes/CODId')], cod_ids, '/Dwell/CODTime with Identifier=')
        ref('check_channel_dwell_exist', [tx(node, './DwellTimes/DwellId')], dwell_ids, '/Dwell/DwellTime with Identifier=')
        if node.find('./Antenna') is not None:
            for side in ('Tx', 'Rcv'):
                ref('check_channel_antenna_exist', [tx(node, f'./Antenna/{side}APCId')], apc_ids, f'AntPhaseCenter node exists with name {tx(node, f"./Antenna/{side}APCId")} (for {side})')
                ref('check_channel_antenna_exist', [tx(node, f'./Antenna/{side}APATId')], apat_ids, f'AntPattern node exists with name {tx(node, f"./Antenna/{side}APATId")} (for {side})')
        if node.find('./TxRcv') is not None:
            tw = [e.text for e in node.findall('./TxRcv/TxWFId')]
            rc = [e.text for e in node.findall('./TxRcv/RcvId')]
            lobs.append(dict(kind='refs-seq', lines=[f'chkspec refs {tok(x)} {tok.many(txwf_ids)}' for x in tw] + [f'chkspec refs {tok(x)} {tok.many(rcv_ids)}' for x in rc],
                             oracle=[x in txwf_ids for x in tw] + [x in rcv_ids for x in rc], check=f'check_channel_txrcv_exist_{sfx}', text='node exists with id'))
            for ids, path in ((tw, './TxRcv/TxWFId'), (rc, './TxRcv/RcvId')):
                lobs.append(dict(kind='unique', line=f'chkspec repeated {tok.many(ids)}', oracle=len(set(ids)) == len(ids), sev='Warning',
                                 check=f'check_channel_identifier_uniqueness_{sfx}', text="'" + path + "'", repeated=sorted({x for x in ids if ids.count(x) > 1}, key=str)))
        saved = tx(node, './TOAExtended/TOAExtSaved') is not None
        obs.append(dict(rule='toa_ext_together', ints=[], bools=[saved, t1, t2], check=f'check_channel_toaextsaved_{sfx}', text='TOA extended swath parameters are specified together'))
        cia = node.find('./ImageArea')
        if cia is not None:
            box(cia, 'channel_area_box', f'check_channel_imagearea_x1y1_{sfx}', 'Channel/Parameters/ImageArea/X1Y1 < Channel/Parameters/ImageArea/X2Y2')
    # polynomials, in the order the standard lists them
    lines, orc = [], []
    for p in POLY_PATHS:
        for el in root.findall(p):
            try:
                dims = [d for d in (1, 2) if el.get(f'order{d}') is not None]
                orders = [int(el.get(f'order{d}')) for d in dims]
                coefs = [[int(c.get(f'exponent{d}')) for d in dims] for c in el.findall('./Coef')]
            except (TypeError, ValueError):
                lines.append(None)
                orc.append(None)
                continue
            good = all(e <= o for c in coefs for e, o in zip(c, orders)) and len({tuple(c) for c in coefs}) == len(coefs)
            lines.append('chkspec poly ' + (','.join(map(str, orders)) or '-') + ' ' + (';'.join(':'.join(map(str, c)) for c in coefs) or '-'))
            orc.append(good)
    lobs.append(dict(kind='poly-seq', lines=lines, oracle=orc, check='check_polynomials', text='is correctly specified'))
    return obs, lobs, chan_ids


def _polygon_obs(node, check, obs, lobs, size):
    verts = list(node)
    try:
        idx = [int(v.get('index')) for v in verts]
    except (TypeError, ValueError):
        return
    lobs.append(dict(kind='indices', line='chkspec indices ' + (','.join(map(str, idx)) or '-'), oracle=sorted(idx) == list(range(1, len(idx) + 1)),
                     check=check, text='Polygon indices are all present'))
    if size and node.get('size') is not None:
        try:
            obs.append(dict(rule='polygon_size', ints=[int(node.get('size')), len(verts)], bools=[], check=check, text='Polygon size attribute matches'))
        except ValueError:
            pass


def header_observations(buf):
    """the header rules on the bytes of a CPHD file, read with the independent header parser"""
    obs, lobs = [], []
    try:
        kind, ver, kv, hend = cphdgen.parse_header(buf)
        g = lambda k: int(kv[k])
        xo, xs, po, ps, go, gs = (g(k) for k in ('XML_BLOCK_BYTE_OFFSET', 'XML_BLOCK_SIZE', 'PVP_BLOCK_BYTE_OFFSET', 'PVP_BLOCK_SIZE',
                                                    'SIGNAL_BLOCK_BYTE_OFFSET', 'SIGNAL_BLOCK_SIZE'))
    except Exception:
        return obs, lobs, None
    hs = 'SUPPORT_BLOCK_BYTE_OFFSET' in kv
    so = g('SUPPORT_BLOCK_BYTE_OFFSET') if hs else 0
    obs.append(dict(rule='xml_early', ints=[xo], bools=[], check='check_pad_header_xml', text='XML appears early in the file'))
    obs.append(dict(rule='pad_after_xml', ints=[xo, xs, so, po], bools=[hs], check='check_pad_after_xml', text='comes after XML'))
    if hs and 'SUPPORT_BLOCK_SIZE' in kv:
        obs.append(dict(rule='pad_after_support', ints=[so, g('SUPPORT_BLOCK_SIZE'), po], bools=[], check='check_pad_after_support', text='PVP comes after Support'))
    obs.append(dict(rule='pad_after_pvp', ints=[po, ps, go], bools=[], check='check_pad_after_pvp', text='Signal comes after PVP'))
    obs.append(dict(rule='signal_at_eof', ints=[len(buf), go, gs], bools=[], check='check_signal_at_end_of_file', text='Signal is at the end of the file'))
    tok = Tokens()
    keys = list(kv)
    lobs.append(dict(kind='required', line=f'chkspec required {tok.many(REQUIRED_KEYS)} {tok.many(keys)}', oracle=all(k in kv for k in REQUIRED_KEYS),
                     check='check_header_keys', text='Required header field', all_items=True))
    a, b = 'SUPPORT_BLOCK_SIZE' in kv, hs
    if a or b:
        lobs.append(dict(kind='together', line='chkspec rule optional_toa - ' + ('1' if a else '0') + ('1' if b else '0'), oracle=(a == b),
                         check='check_header_keys', text='SUPPORT_BLOCK fields go together', all_items=True))
    return obs, lobs, dict(kv=kv, ver=ver, xo=xo, xs=xs, gs=gs)


def cphd_file_observations(buf):
    """header rules + XML rules + the rules that relate the two, for one CPHD file"""
    obs, lobs, hd = header_observations(buf)
    if hd is None:
        return obs, lobs
    xml = buf[hd['xo']:hd['xo'] + hd['xs']]
    try:
        o2, l2, chan_ids = xml_observations(xml)
        root = _strip_ns(ET.fromstring(xml))
    except ET.ParseError:
        return obs, lobs
    obs += o2
    lobs += l2
    try:
        item = cphdgen.BPS[root.findtext('./Data/SignalArrayFormat')]
        if root.find('./Data/SignalCompressionID') is None:
            for c in root.findall('./Data/Channel'):
                obs.append(dict(rule='signal_fits', ints=[int(c.findtext('SignalArrayByteOffset')), int(c.findtext('NumVectors')), int(c.findtext('NumSamples')), item, hd['gs']],
                                bools=[], check='check_channel_signal_data_' + _chan_suffix(c.findtext('Identifier')), text='Channel signal fits in signal block'))
    except (KeyError, TypeError, ValueError):
        pass
    m = re.match(rb'<(?:\w+:)?CPHD[^>]*?xmlns(?::\w+)?="([^"]*)"', xml.lstrip()[:400].split(b'?>')[-1].lstrip()) or re.search(rb'xmlns="([^"]*)"', xml[:600])
    if m:
        ns_ver = m.group(1).decode().rstrip('/').split('/')[-1]
        codes = {s: k for k, s in enumerate(sorted({ns_ver, hd['ver']}))}
        obs.append(dict(rule='version_match', ints=[codes[ns_ver], codes[hd['ver']]], bools=[], check='check_file_type_header', text='version in File Type Header matches'))
    tok = Tokens()
    for key, path, text in (('CLASSIFICATION', './CollectionID/Classification', 'Header CLASSIFICATION matches XML Classification'),
                            ('RELEASE_INFO', './CollectionID/ReleaseInfo', 'Header RELEASE_INFO matches XML ReleaseInfo')):
        if key in hd['kv']:
            x = root.findtext(path)
            lobs.append(dict(kind='present', line=f'chkspec present {tok(hd["kv"][key])} ' + ('N' if x is None else tok(x)), oracle=(x is not None and x == hd['kv'][key]),
                             check='check_classification_and_release_info', text=text))
    return obs, lobs


def channel_assoc(xml_bytes, truth):
    """which /Channel/Parameters node belongs to which /Data/Channel entry.  `truth` = {channel identifier: its FxC} from the generator.
    -> (driver line, [expected passed of the FxC rule per Data channel, by Identifier lookup], [channel identifiers])"""
    root = _strip_ns(ET.fromstring(xml_bytes))
    tok = Tokens()
    data = [e.text for e in root.findall('./Data/Channel/Identifier')]
    params = [(p.findtext('Identifier'), float(p.findtext('FxC'))) for p in root.findall('./Channel/Parameters')]
    if set(data) - set(truth):
        return None
    line = 'chkspec perchan ' + tok.many(data) + ' ' + (','.join(f'{tok(i)}:{tok(repr(v))}' for i, v in params) or '-') + ' ' + \
        (','.join(f'{tok(i)}:{tok(repr(float(v)))}' for i, v in truth.items()) or '-')
    want = []
    for cid in data:
        node = [v for i, v in params if i == cid]
        want.append(None if not node else node[0] == float(truth[cid]))
    return line, want, data


def recorded(allr, check, text, sev=None):
    """the result the checker recorded for one need / want (None when it was not evaluated)"""
    r = allr.get(check)
    if r is None:
        return None
    for d in r['details']:
        if text in d['details'] and d['severity'] != 'No-Op' and (sev is None or d['severity'] == sev):
            return bool(d['passed'])
    return None


def recorded_seq(allr, check, text):
    r = allr.get(check)
    if r is None:
        return None
    return [bool(d['passed']) for d in r['details'] if text in d['details'] and d['severity'] != 'No-Op']


def rule_line(word, o):
    return f'{word} rule {o["rule"]} ' + (','.join(str(v) for v in o['ints']) or '-') + ' ' + (''.join('1' if v else '0' for v in o['bools']) or '-')


class RuleBook:
    """collects the per-rule observations of many inputs, asks both drivers, and compares real / regenerated / reference / oracle"""

    def __init__(self, spec_drv, gen_drv):
        self.spec, self.gen = spec_drv, gen_drv
        self.jobs = []
        self.fails, self.disagreements = [], []
        self.counts = {}        # rule -> {(oracle value): n}
        self.n = 0

    def add(self, obs, lobs, allr, case):
        for o in obs:
            want = ORACLE[o['rule']](o['ints'], o['bools'])
            real = recorded(allr, o['check'], o['text'], SEVERITY.get(o['rule'], 'Error'))
            self._count(o['rule'], want, real)
            if real is not None and real != want:
                self._fail(o['rule'], want, real, {**case, 'rule': o['rule'], 'inputs': {'ints': o['ints'], 'bools': o['bools']}, 'recorded_in': o['check']})
            self.jobs.append(('rule', o, want, real, self.spec.ask(rule_line('chkspec', o)), self.gen.ask(rule_line('chkgen', o)), case))
        for o in lobs:
            if o['kind'] in ('refs-seq', 'poly-seq'):
                real = recorded_seq(allr, o['check'], o['text'])
                idx = [self.spec.ask(l) if l else None for l in o['lines']]
                self.jobs.append(('seq', o, o['oracle'], real, idx, None, case))
                if real is not None:
                    for k, (w, r) in enumerate(zip(o['oracle'], real)):
                        if w is not None:
                            self._count(o['kind'], w, r)
                            if w != r:
                                self._fail(o['kind'] + ':' + o['check'].split('_')[1], w, r, {**case, 'rule': o['kind'], 'item': k, 'line': o['lines'][k], 'recorded_in': o['check']})
                continue
            if o.get('all_items'):
                seq = recorded_seq(allr, o['check'], o['text'])
                real = None if not seq else all(seq)
            else:
                real = recorded(allr, o['check'], o['text'], o.get('sev', 'Error'))
            self._count(o['kind'], o['oracle'], real)
            if real is not None and real != o['oracle']:
                self._fail(o['kind'] + ':' + o['text'].strip("'./"), o['oracle'], real, {**case, 'rule': o['kind'], 'line': o['line'], 'recorded_in': o['check']})
            self.jobs.append(('list', o, o['oracle'], real, self.spec.ask(o['line']), None, case))

    def _count(self, rule, want, real):
        self.n += 1
        c = self.counts.setdefault(rule, {'holds': 0, 'violated': 0, 'not_evaluated': 0})
        if real is None:
            c['not_evaluated'] += 1
        else:
            c['holds' if want else 'violated'] += 1

    def _fail(self, rule, want, real, case):
        what = 'rejects-valid' if want else 'accepts-invalid'
        self.fails.append({'kind': 'rule', 'key': f'rule:{rule}:{what}',
                           'msg': f'rule `{rule}`: the documented rule {"holds" if want else "is violated"} on this input but the checker recorded passed={real} '
                                  f'({case.get("recorded_in")}); inputs {case.get("inputs", case.get("line"))}', 'case': case})

    def compare(self, spec_ans, gen_ans):
        """model side: reference rule vs oracle (the reference is the documented rule) and regenerated rule vs real code"""
        for kind, o, want, real, si, gi, case in self.jobs:
            if kind == 'rule':
                if spec_ans is not None and (spec_ans[si] == '1') != want:
                    self.disagreements.append({'msg': f'reference rule {o["rule"]} gives {spec_ans[si]} on {o["ints"]} {o["bools"]}, the documented rule gives {want}', 'case': case, 'rule': o['rule']})
                if gen_ans is not None and real is not None:
                    g = gen_ans[gi]
                    if g == 'none':
                        continue
                    if g not in ('ok 1', 'ok 0') or (g == 'ok 1') != real:
                        self.disagreements.append({'msg': f'translator fidelity: regenerated rule {o["rule"]} gives `{g}` on {o["ints"]} {o["bools"]}, the checker recorded {real}', 'case': case, 'rule': o['rule']})
            elif kind == 'list' and spec_ans is not None:
                a = spec_ans[si].split()
                if (a[0] == '1') != want:
                    self.disagreements.append({'msg': f'reference rule `{o["line"]}` gives {a[0]}, the documented rule gives {want}', 'case': case, 'rule': o['kind']})
                if o['kind'] == 'unique' and len(a) > 1:
                    rep = [] if a[1] == '-' else a[1].split(',')
                    if len(rep) != len(o['repeated']):
                        self.disagreements.append({'msg': f'reference `repeated` gives {rep} for `{o["line"]}`, expected {len(o["repeated"])} repeated values', 'case': case, 'rule': 'unique'})
            elif kind == 'seq' and spec_ans is not None:
                for l, i, w in zip(o['lines'], si, want):
                    if i is not None and (spec_ans[i] == '1') != w:
                        self.disagreements.append({'msg': f'reference rule `{l}` gives {spec_ans[i]}, the documented rule gives {w}', 'case': case, 'rule': o['kind']})


# ======================================================================================================================
# the real checker on selected checks
# ======================================================================================================================
HEADER_RULES = {'xml_early', 'pad_after_xml', 'pad_after_support', 'pad_after_pvp', 'signal_at_eof', 'signal_fits', 'version_match', 'required',
                'together', 'present', 'severities', 'guards'}
HEADER_CHECKS = ['check_pad_header_xml', 'check_pad_after_xml', 'check_pad_after_support', 'check_pad_after_pvp', 'check_signal_at_end_of_file',
                 'check_channel_signal_data', 'check_header_keys', 'check_classification_and_release_info', 'check_file_type_header']
XML_CHECKS = ['check_antenna', 'check_identifier_uniqueness', 'check_channel_identifier_uniqueness', 'check_channel_dwell_exist',
              'check_channel_antenna_exist', 'check_channel_txrcv_exist', 'check_polynomials', 'check_optional_pvps_fx', 'check_optional_pvps_toa',
              'check_channel_toaextsaved', 'check_image_area_corner_points', 'check_global_imagearea_polygon', 'check_imagearea_x1y1_x2y2',
              'check_channel_imagearea_x1y1', 'check_extended_imagearea_x1y1_x2y2']


def run_selected(path, names):
    """CphdConsistency.from_file(path).check(names, allow_prefix=True) -> (all(), crash)"""
    import warnings
    import numpy
    from sarpy.consistency.cphd_consistency import CphdConsistency
    try:
        with warnings.catch_warnings():
            warnings.simplefilter('ignore')
            with numpy.errstate(all='ignore'):
                cc = CphdConsistency.from_file(path, check_signal_data=False)
                have = {f.__name__ for f in cc.funcs}
                use = [n for n in names if any(h.startswith(n) for h in have)]
                cc.check(use, allow_prefix=True)
        return cc.all(), None
    except Exception as e:
        return {}, f'{type(e).__name__}: {str(e)[:200]}'


# ======================================================================================================================
# (b) header patches at the boundary of every block-order rule
# ======================================================================================================================
def boundary_patches(buf):
    kind, ver, kv, hend = cphdgen.parse_header(buf)
    g = lambda k: int(kv[k])
    xo, xs, po, ps, go, gs = (g(k) for k in ('XML_BLOCK_BYTE_OFFSET', 'XML_BLOCK_SIZE', 'PVP_BLOCK_BYTE_OFFSET', 'PVP_BLOCK_SIZE',
                                                'SIGNAL_BLOCK_BYTE_OFFSET', 'SIGNAL_BLOCK_SIZE'))
    hs = 'SUPPORT_BLOCK_BYTE_OFFSET' in kv
    out = []
    nxt = 'SUPPORT_BLOCK_BYTE_OFFSET' if hs else 'PVP_BLOCK_BYTE_OFFSET'
    for d in (-3, -2, -1, 0, 1, 2):
        out.append(('pad_after_xml', {nxt: xo + xs + 2 + d}))
    if hs:
        se = g('SUPPORT_BLOCK_BYTE_OFFSET') + g('SUPPORT_BLOCK_SIZE')
        for d in (-2, -1, 0, 1):
            out.append(('pad_after_support', {'PVP_BLOCK_BYTE_OFFSET': se + d}))
    for d in (-2, -1, 0, 1):
        out.append(('pad_after_pvp', {'SIGNAL_BLOCK_BYTE_OFFSET': po + ps + d}))
    for d in (-1, 0, 1):
        out.append(('signal_at_eof', {'SIGNAL_BLOCK_SIZE': gs + d}))
    for d in (-2, -1):
        out.append(('signal_fits', {'SIGNAL_BLOCK_SIZE': gs + d}))
    if hs:
        out.append(('support_together', {'-': 'SUPPORT_BLOCK_SIZE'}))
    out.append(('required', {'-': 'RELEASE_INFO'}))
    return out


# ======================================================================================================================
# (c) XML documents edited around every rule
# ======================================================================================================================
TEMPLATES = ['syntax-only-cphd-1.1.0-monostatic.xml', 'syntax-only-cphd-1.0.1-bistatic.xml', 'syntax-only-cphd-1.1.0-bistatic.xml',
             'syntax-only-cphd-1.0.1-monostatic.xml']
_TEMPLATE_CACHE = {}


def template_bytes(name):
    if name not in _TEMPLATE_CACHE:
        _TEMPLATE_CACHE[name] = open(os.path.join(REPO, 'tests', 'data', name), 'rb').read()
    return _TEMPLATE_CACHE[name]


RULE_EDITS = {'num_acfs': ['count', 'node_count'], 'num_apcs': ['count', 'node_count'], 'num_antpats': ['count', 'node_count'],
              'polygon_size': ['polygon_size', 'icp'], 'corner_points': ['icp'], 'optional_fx': ['pvp_optional', 'domain'],
              'optional_toa': ['pvp_optional'], 'toa_ext_together': ['toa_ext', 'pvp_optional'], 'image_area_box': ['box'],
              'channel_area_box': ['box'], 'extended_area_box': ['box'], 'unique': ['dup_id', 'chan_dup_ref'], 'refs': ['dangling', 'apc_acf'],
              'refs-seq': ['dangling'], 'poly-seq': ['poly_exp', 'poly_dup', 'poly_order'], 'indices': ['polygon_index', 'icp']}
EDITS = ['count', 'count', 'node_count', 'box', 'box', 'dup_id', 'dangling', 'polygon_size', 'polygon_index', 'icp', 'pvp_optional', 'domain', 'toa_ext', 'box', 'poly_exp', 'poly_dup',
         'poly_order', 'chan_dup_ref', 'apc_acf']


def apply_edit(root, q, op, r):
    """one edit of a parsed (lxml) CPHD document; `r` is a random.Random; returns a short description or None when not applicable"""
    from lxml import etree
    f = lambda p: root.find(q(p))
    fa = lambda p: root.findall(q(p))
    if op == 'count':
        el = f('Antenna/' + r.choice(['NumACFs', 'NumAPCs', 'NumAntPats']))
        if el is None:
            return None
        el.text = str(max(0, int(el.text) + r.choice([-1, 1, 1, 2])))
        return f'{el.tag.split("}")[-1]}={el.text}'
    if op == 'node_count':
        kind, cnt = r.choice([('AntCoordFrame', 'NumACFs'), ('AntPhaseCenter', 'NumAPCs'), ('AntPattern', 'NumAntPats')])
        nodes = fa('Antenna/' + kind)
        el = f('Antenna/' + cnt)
        if not nodes or el is None:
            return None
        if r.random() < 0.6 or len(nodes) < 2:
            new = copy.deepcopy(nodes[-1])
            new.find(q('Identifier')).text += '_copy'
            nodes[-1].addnext(new)
            delta = 1
        else:
            nodes[-1].getparent().remove(nodes[-1])
            delta = -1
        fixed = r.random() < 0.5
        if fixed:
            el.text = str(int(el.text) + delta)
        return f'{kind} {"+" if delta > 0 else "-"}1 node, {cnt} {"updated" if fixed else "left"}'
    if op == 'dup_id':
        paths = r.choice(ID_SETS)
        # renaming a channel makes the constructor of the checker fail (it looks every Data channel up in Channel/Parameters):
        # the two channel identifier sets are exercised by the catalogue on real files instead
        if paths[0] in ('./Channel/Parameters/Identifier', './Data/Channel/Identifier'):
            return None
        els = [e for p in paths for e in fa(p[2:])]
        if len(els) < 2:
            return None
        a, b = r.sample(els, 2)
        b.text = a.text
        return f'dup {paths[0]} := {a.text}'
    if op == 'dangling':
        cands = fa('Channel/Parameters/DwellTimes/CODId') + fa('Channel/Parameters/DwellTimes/DwellId') + fa('Channel/Parameters/Antenna/TxAPCId') + \
            fa('Channel/Parameters/Antenna/RcvAPATId') + fa('Channel/Parameters/TxRcv/TxWFId') + fa('Channel/Parameters/TxRcv/RcvId')
        if not cands:
            return None
        el = r.choice(cands)
        el.text = r.choice(['nosuch', el.text + 'x', ''.join(reversed(el.text))])
        return f'ref {el.tag.split("}")[-1]} := {el.text}'
    if op == 'apc_acf':
        cands = fa('Antenna/AntPhaseCenter/ACFId')
        if not cands:
            return None
        el = r.choice(cands)
        el.text = r.choice(['nosuch', el.text + '_'])
        return f'ACFId := {el.text}'
    if op == 'polygon_size':
        el = f('SceneCoordinates/ImageArea/Polygon')
        if el is None or el.get('size') is None:
            return None
        el.set('size', str(int(el.get('size')) + r.choice([-1, 1])))
        return 'polygon size ' + el.get('size')
    if op == 'polygon_index':
        el = r.choice([x for x in (f('SceneCoordinates/ImageArea/Polygon'), f('SceneCoordinates/ImageAreaCornerPoints')) if x is not None] or [None])
        if el is None or len(el) < 2:
            return None
        a, b = r.sample(list(el), 2)
        how = r.choice(['dup', 'swap', 'shift'])
        if how == 'dup':
            b.set('index', a.get('index'))
        elif how == 'swap':
            ia, ib = a.get('index'), b.get('index')
            a.set('index', ib)
            b.set('index', ia)
        else:
            for v in el:
                v.set('index', str(int(v.get('index')) + 1))
        return f'polygon index {how}'
    if op == 'icp':
        el = f('SceneCoordinates/ImageAreaCornerPoints')
        if el is None or len(el) < 2:
            return None
        if r.random() < 0.5:
            el.remove(list(el)[-1])
            return 'icp removed'
        new = copy.deepcopy(list(el)[-1])
        new.set('index', str(len(el) + 1))
        el.append(new)
        return 'icp added'
    if op == 'pvp_optional':
        pvp = f('PVP')
        name = r.choice(['FXN1', 'FXN2', 'TOAE1', 'TOAE2'])
        el = f('PVP/' + name)
        if el is not None:
            pvp.remove(el)
            return f'-{name}'
        src = f('PVP/FX1')
        new = copy.deepcopy(src)
        new.tag = q(name)
        pvp.append(new)
        return f'+{name}'
    if op == 'domain':
        el = f('Global/DomainType')
        el.text = 'TOA' if el.text == 'FX' else 'FX'
        return 'domain ' + el.text
    if op == 'toa_ext':
        chans = fa('Channel/Parameters')
        c = r.choice(chans)
        ext = c.find(q('TOAExtended'))
        if ext is not None:
            c.remove(ext)
            return '-TOAExtended'
        ts = c.find(q('TOASaved'))
        new = etree.Element(q('TOAExtended'))
        sv = etree.SubElement(new, q('TOAExtSaved'))
        sv.text = ts.text
        ts.addnext(new)
        return '+TOAExtended'
    if op == 'box':
        areas = [x for x in (f('SceneCoordinates/ImageArea'), f('SceneCoordinates/ExtendedArea')) if x is not None] + \
                [c.find(q('ImageArea')) for c in fa('Channel/Parameters') if c.find(q('ImageArea')) is not None]
        a = areas[r.randrange(len(areas))] if r.random() < 0.5 else areas[min(1, len(areas) - 1)]
        p1, p2 = a.find(q('X1Y1')), a.find(q('X2Y2'))
        ax = r.choice(['X', 'Y'])
        e1, e2 = p1.find(q(ax)), p2.find(q(ax))
        how = r.choice(['swap', 'equal', 'shift'])
        if how == 'swap':
            e1.text, e2.text = e2.text, e1.text
        elif how == 'equal':
            e1.text = e2.text
        else:
            e1.text = repr(float(e2.text) + r.choice([-0.5, 0.0, 0.5, 1e-9]))
        return f'box {a.getparent().tag.split("}")[-1]} {ax} {how}'
    if op in ('poly_exp', 'poly_dup', 'poly_order'):
        polys = [e for p in POLY_PATHS for e in fa(p[2:])]
        polys = [p for p in polys if p.findall(q('Coef'))]
        if not polys:
            return None
        p = r.choice(polys)
        coefs = p.findall(q('Coef'))
        dims = [d for d in (1, 2) if p.get(f'order{d}') is not None]
        d = r.choice(dims)
        if op == 'poly_exp':
            c = r.choice(coefs)
            c.set(f'exponent{d}', str(int(p.get(f'order{d}')) + r.choice([0, 1, 2])))
            return f'exponent{d} := {c.get(f"exponent{d}")}'
        if op == 'poly_dup':
            c = r.choice(coefs)
            p.append(copy.deepcopy(c))
            return 'coef duplicated'
        p.set(f'order{d}', str(max(0, int(p.get(f'order{d}')) - 1)))
        return f'order{d} := {p.get(f"order{d}")}'
    if op == 'chan_dup_ref':
        ids = fa('Channel/Parameters/TxRcv/TxWFId') + fa('Channel/Parameters/TxRcv/RcvId')
        if not ids:
            return None
        el = r.choice(ids)
        el.addnext(copy.deepcopy(el))
        return f'{el.tag.split("}")[-1]} listed twice'
    return None


def edited_xml(template, edits, seed):
    """the template with the listed edits applied (deterministic in `seed`) -> (bytes, descriptions)"""
    from lxml import etree
    root = etree.fromstring(template_bytes(template))
    ns = root.nsmap.get(None)
    q = lambda path: '/'.join('{%s}%s' % (ns, t) for t in path.split('/'))
    r = random.Random(seed)
    done = []
    for op in edits:
        try:
            d = apply_edit(root, q, op, r)
        except (AttributeError, TypeError, ValueError, IndexError):
            d = None
        if d:
            done.append(f'{op}: {d}')
    return etree.tostring(root), done


# ======================================================================================================================
# SICD / SIDD image-segment rules on the bytes of a NITF, read with the independent parser
# ======================================================================================================================
def nitf_des_kinds(buf):
    """the data extension segments of a NITF as the DES scan of the checkers classifies them (independent parser + root tag by regex)"""
    try:
        problems, summ = nitfparse.check_structure(buf)
        if summ is None:
            return None
        out = []
        for k, i, off, sub, dat in summ['layout']:
            if k != 'des':
                continue
            desid = nitfparse.parse_des_subheader(buf, off, sub)['DESID'].strip()
            body = buf[off + sub:off + sub + min(dat, 600)]
            m = re.match(rb'\s*(?:<\?xml[^>]*\?>\s*)?(?:<!--.*?-->\s*)*<(?:\w+:)?(\w+)', body, re.S)
            root = m.group(1) if m else b''
            ns = re.search(rb'xmlns(?::\w+)?="([^"]*)"', body)
            root += b' ' + (ns.group(1) if ns else b'')        # the checkers look for the family name in the namespace-qualified root tag
            if desid == b'XML_DATA_CONTENT':
                out.append('sicd' if b'SICD' in root else 'sidd' if b'SIDD' in root else 'oxml')
            elif desid == b'SICD_XML':
                out.append('oldsicd' if b'SICD' in root else 'other')
            elif desid == b'SIDD_XML':
                out.append('oldsidd')
            else:
                out.append('other')
        return out
    except Exception:
        return None


def nitf_image_lines(kind, buf):
    """-> dict(lines=[driver lines per SAR segment], oracle=[bool], size_line, size_oracle) or None"""
    try:
        problems, summ = nitfparse.check_structure(buf)
        if summ is None:
            return None
        segs = [(off, sub) for k, i, off, sub, dat in summ['layout'] if k == 'image']
        hdrs = [nitfparse.parse_image_subheader(buf, off, sub) for off, sub in segs]
        des = [(off + sub, dat) for k, i, off, sub, dat in summ['layout'] if k == 'des']
    except Exception:
        return None
    s = lambda b: (b.decode('latin1').strip() or '_')
    if kind == 'sicd':
        xml = None
        for do, dl in des:
            if re.search(rb'<SICD[\s>]', buf[do:do + min(dl, 400)]):
                xml = buf[do:do + dl]
        if xml is None:
            return None
        m = re.search(rb'<PixelType>(\w+)</PixelType>', xml)
        mr, mc = re.search(rb'<NumRows>(\d+)</NumRows>', xml), re.search(rb'<NumCols>(\d+)</NumCols>', xml)
        if not (m and mr and mc):
            return None
        pt = m.group(1).decode()
        table = {'RE32F_IM32F': (32, 'R', 'I', 'Q'), 'RE16I_IM16I': (16, 'SI', 'I', 'Q'), 'AMP8I_PHS8I': (8, 'INT', 'M', 'P')}
        if pt not in table:
            return None
        nb, pv, b0, b1 = table[pt]
        lines, orc = [], []
        for h in hdrs:
            subs = [s(h[f'ISUBCAT{i}']) for i in range(h['bands'])]
            lines.append(f'chkspec sicdseg {pt} {s(h["ICAT"])} {s(h["PVTYPE"])} {h["NBPP"]} ' + (','.join(subs) or '-'))
            # the documented rule: ICAT SAR, PVTYPE / NBPP of the pixel type, two bands; band codes as the checker words it
            orc.append(s(h['ICAT']) == 'SAR' and s(h['PVTYPE']) == pv and h['NBPP'] == nb and len(subs) == 2 and not (subs[0] != b0 and subs[1] != b1))
        heads = [(int(h['ILOC'][:5]), h['NROWS']) for h in hdrs]
        cols = [h['NCOLS'] for h in hdrs]
        rows_total, base = 0, 0
        for iloc, n in heads:
            base += iloc
            rows_total = base + n
        nr, nc = int(mr.group(1)), int(mc.group(1))
        return dict(lines=lines, oracle=orc, size_line=f'chkspec sizerule {nr} {nc} ' + (','.join(f'{a}:{b}' for a, b in heads) or '-') + ' ' + (','.join(map(str, cols)) or '-'),
                    size_oracle=(rows_total == nr and all(c == nc for c in cols)), pixel_type=pt)
    pts = []
    for do, dl in des:
        if re.search(rb'<SIDD[\s>]', buf[do:do + min(dl, 400)]):
            m = re.search(rb'<PixelType>(\w+)</PixelType>', buf[do:do + dl])
            pts.append(m.group(1).decode() if m else None)
    table = {'MONO8I': 8, 'MONO8LU': 8, 'RGB8LU': 8, 'MONO16I': 16, 'RGB24I': 8}
    lines, orc = [], []
    for h in hdrs:
        iid = s(h['IID1'])
        if s(h['ICAT']) != 'SAR' or not re.match(r'^SIDD\d{6}', iid):
            continue
        k = int(iid[4:7])
        if not (0 < k <= len(pts)) or pts[k - 1] not in table:
            continue
        lines.append(f'chkspec siddseg {pts[k - 1]} {s(h["ICAT"])} {s(h["PVTYPE"])} {h["NBPP"]}')
        orc.append(s(h['PVTYPE']) == 'INT' and h['NBPP'] == table[pts[k - 1]])
    return dict(lines=lines, oracle=orc, size_line=None, size_oracle=None, pixel_type=pts)
