"""C18 — consistency checkers accept what sarpy writes and flag seeded violations.

proof side : lean/SarpyModel/Props/C18.lean (rule runner as a state machine: verdict <-> no executed need failed / no raise,
             totality, precondition skipping, warnings; writer layouts satisfy the file-level rules; arithmetic mutations
             falsify them)
tie        : (1) toy ConsistencyChecker subclasses generated from random op lists, real runner vs Lean model through the
             driver; (2) the CPHD header rules, the DES rule and the FL rule of the model evaluated on the independently
             parsed bytes of every product / mutant and compared with what the real checker recorded
search     : direct oracle on the implementation: (a) valid products must be accepted by sicd_consistency.check_file,
             sidd_consistency.check_file, CphdConsistency.from_file(...).check(); (b) a catalogue of single-rule mutations
             of the real bytes / XML must each be flagged, and the checker must return (not raise)
"""
import json
import logging
import math
import os
import random
import re
import shutil
import tempfile
import warnings

import numpy

from common import Check, Driver, Infra, sarpy_guard
import c18rules
import cphdgen
import nitfparse
import sargen

REQUIRED = ['passes_iff_no_need_failed', 'runner_total', 'precondition_skips', 'warnings_do_not_fail', 'mem_emitted',
            'strictPasses_iff', 'raise_recorded', 'checks_independent', 'precondition_resumes', 'want_failure_clears_flag',
            'flag_eq_all_details', 'partition',
            'writer_layout_satisfies_nextAfterXml', 'writer_layout_satisfies_pvpAfterSupport',
            'writer_layout_satisfies_signalAfterPvp', 'writer_layout_satisfies_signalAtEof',
            'writer_layout_satisfies_hdrBeforeXml', 'writer_layout_satisfies_all', 'writer_layout_satisfies_signalFits',
            'writer_layout_satisfies_desRule', 'writer_layout_satisfies_flRule',
            'mutation_sigsize_falsifies_signalAtEof', 'mutation_filelen_falsifies_signalAtEof',
            'mutation_truncate_falsifies_signalAtEof', 'mutation_sigoff_falsifies_signalAtEof',
            'mutation_sigoff_falsifies_signalAfterPvp', 'mutation_pvpsize_falsifies_signalAfterPvp',
            'mutation_pvpoff_falsifies_order', 'mutation_xmlsize_falsifies_nextAfterXml',
            'mutation_xmloff_falsifies_hdrBeforeXml', 'mutation_numvectors_falsifies_signalFits',
            'mutation_desshtn_falsifies_desRule', 'mutation_xmlns_falsifies_desRule', 'mutation_desshsv_falsifies_desRule',
            'mutation_truncate_falsifies_flRule', 'mutation_fl_falsifies_flRule']

# ======================================================================================================================
# part A: the rule runner — toy checkers from random op lists
# ======================================================================================================================
SEV = {'Error': 'E', 'Warning': 'W', 'No-Op': 'N'}


def rand_ops(rng):
    n = rng.choice([0, 1, 1, 2, 3, 4, 6, 9, 14])
    style = rng.choice(['mixed', 'mixed', 'nested', 'flat', 'raisy'])
    ops = []
    for _ in range(n):
        r = rng.random()
        if style == 'flat':
            ops.append(rng.choice(['n1', 'n1', 'n0', 'w1', 'w0', 'p1', 'p0', 'r' if r < 0.1 else 'n1']))
        elif style == 'nested':
            ops.append(rng.choice(['p1', 'p1', 'p0', 'c', 'n1', 'n0', 'w0', 'c', 'p0' if r < 0.3 else 'w1']))
        elif style == 'raisy':
            ops.append(rng.choice(['r', 'n1', 'p1', 'p0', 'c', 'w0', 'n0']))
        else:
            ops.append(rng.choice(['n1', 'n0', 'w1', 'w0', 'p1', 'p0', 'c', 'c', 'r' if r < 0.25 else 'n1']))
    return ops


def ops_to_source(name, ops, rng):
    """one `check_*` method: `p?` opens `with self.precondition():` + assert, `c` dedents (no-op at depth 0)"""
    lines = [f'    def {name}(self):', f'        """{name}"""', '        pass']
    depth = 0
    for op in ops:
        ind = '        ' + '    ' * depth
        k, c = op[0], op[1:] == '1'
        if k in 'nw':
            cm = 'need' if k == 'n' else 'want'
            det = rng.choice(['', "'some text'", 'details=None'])
            lines.append(f'{ind}with self.{cm}({det}):')
            v = rng.randrange(3)
            if v == 0 or not c and v == 1:
                lines.append(f'{ind}    assert {c}')
            elif v == 1:
                lines += [f'{ind}    assert 1 + 1 == 2', f'{ind}    assert {c}, "message"']
            else:
                lines += [f'{ind}    x = [1, 2, 3]', f'{ind}    assert (len(x) == 3) == {c}']
        elif k == 'p':
            det = rng.choice(['', "'pre'"])
            lines += [f'{ind}with self.precondition({det}):', f'{ind}    assert {c}']
            depth += 1
        elif k == 'c':
            if depth > 0:
                depth -= 1
            else:
                lines.append(f'{ind}pass')
        elif k == 'r':
            v = rng.randrange(5)
            if v == 0:
                lines.append(f'{ind}raise ValueError("boom")')
            elif v == 1:
                lines += [f'{ind}with self.need():', f'{ind}    raise KeyError("inside need")']
            elif v == 2:
                lines += [f'{ind}with self.want("w"):', f'{ind}    [][1]']
            elif v == 3 and depth == 0:
                lines.append(f'{ind}assert False, "bare assertion outside any context manager"')
            else:
                lines.append(f'{ind}int("not a number")')
    return lines


def build_checker(checks, rng):
    import sarpy.consistency.consistency as con
    src = ['class Toy(con.ConsistencyChecker):']
    for i, ops in enumerate(checks):
        src += ops_to_source(f'check_{i:03d}', ops, rng)
    src.append('    def helper_not_a_check(self):')
    src.append('        raise RuntimeError("never called")')
    ns = {'con': con}
    exec(compile('\n'.join(src) + '\n', '<c18 toy checker>', 'exec'), ns)
    return ns['Toy'](), '\n'.join(src)


def canon_real(checks, rng):
    """runs the real runner; returns (per-check canonical strings, failures/passes/skips counts)"""
    toy, src = build_checker(checks, rng)
    toy.check()
    allr, fl, ps, sk = toy.all(), toy.failures(), toy.passes(), toy.skips()
    out = []
    for i in range(len(checks)):
        name = f'check_{i:03d}'
        r = allr[name]
        items = '.'.join(SEV[d['severity']] + ('1' if d['passed'] else '0') for d in r['details']) or '-'
        cls = ''.join(c for c, dct in (('F', fl), ('P', ps), ('S', sk)) if name in dct) or '?'
        out.append(f'{items}:{1 if r["passed"] else 0}:{cls}')
    if list(allr) != [f'check_{i:03d}' for i in range(len(checks))]:
        out.append('order:' + ','.join(allr))
    om = toy.failures(omit_passed_sub=True)
    for k, v in om.items():
        if any(d['passed'] for d in v['details']):
            out.append(f'omit_passed_sub kept a passed item in {k}')
    return out, (len(fl), len(ps), len(sk)), src


def oracle_runner(ops):
    """independent statement of consistency.py for one method: parse the op list into nested blocks, interpret the tree"""
    pos = 0

    def block(top):
        nonlocal pos
        body = []
        while pos < len(ops):
            op = ops[pos]
            pos += 1
            if op == 'c':
                if top:
                    continue
                return body
            if op[0] == 'p':
                body.append(('p', op[1] == '1', block(False)))
            else:
                body.append((op,))
        return body
    tree = block(True)
    items = []

    class Abort(Exception):
        pass

    def go(body):
        for node in body:
            if node[0] == 'p':
                if node[1]:
                    go(node[2])
                else:
                    items.append('N1')
            elif node[0] == 'r':
                items.append('E0')
                raise Abort()
            else:
                items.append(('E' if node[0][0] == 'n' else 'W') + node[0][1])
    try:
        go(tree)
    except Abort:
        pass
    flag = all(i[1] == '1' for i in items)
    cls = 'F' if not flag else ('P' if any(i[0] != 'N' for i in items) else 'S')
    err_free = all(i != 'E0' for i in items)
    return f'{".".join(items) or "-"}:{1 if flag else 0}:{cls}', err_free, flag


def build_versioned_checker(versions, rng):
    """a toy checker whose check methods depend on the state `self.v` of the checked object: `check_i` does what version v says"""
    import sarpy.consistency.consistency as con
    n = len(versions[0])
    src = ['class Toy(con.ConsistencyChecker):', '    v = 0']
    for v, checks in enumerate(versions):
        for i, ops in enumerate(checks):
            body = ops_to_source(f'_v{v}_check_{i:03d}', ops, rng)
            src += body
    for i in range(n):
        src += [f'    def check_{i:03d}(self):', f'        """check_{i:03d}"""', f'        return getattr(self, "_v%d_check_{i:03d}" % self.v)()']
    ns = {'con': con}
    exec(compile('\n'.join(src) + '\n', '<c18 toy history checker>', 'exec'), ns)
    return ns['Toy'], '\n'.join(src)


def canon_store(allr):
    return {k: ('.'.join(SEV[d['severity']] + ('1' if d['passed'] else '0') for d in r['details']) or '-') + ':' + ('1' if r['passed'] else '0') for k, r in allr.items()}


def rand_history(rng, n, nv):
    evs = []
    for _ in range(rng.randint(2, 7)):
        r = rng.random()
        if r < 0.35:
            evs.append('m%d' % rng.randrange(nv))
            continue
        k = rng.random()
        if k < 0.4:
            ev = 'c*'
        elif k < 0.7:
            ev = 'ce:' + '.'.join(f'check_{i:03d}' for i in rng.sample(range(n + (1 if rng.random() < 0.1 else 0)), rng.randint(1, min(3, n))))
        else:
            ev = 'cp:' + '.'.join(rng.sample(['check_', 'check_0', 'check_00', 'check_000', 'check_001', 'check_002', 'check_01'], rng.randint(1, 2)))
        if rng.random() < 0.3:
            ev += '~' + '.'.join(rng.sample(['check_000', 'check_001', 'check_00', 'check_003'], rng.randint(1, 2)))
        evs.append(ev)
    if not any(e.startswith('c') for e in evs):
        evs.append('c*')
    return evs


def call_check(obj, ev):
    """one `c…` event on a checker object -> 'refused' or None"""
    body, _, ign = ev[1:].partition('~')
    kw = {'ignore_patterns': ign.split('.')} if ign else {}
    try:
        if body == '*':
            obj.check(**kw)
        elif body.startswith('e:'):
            obj.check(body[2:].split('.'), **kw)
        else:
            obj.check(body[2:].split('.'), allow_prefix=True, **kw)
    except ValueError:
        return 'refused'
    return None


def run_toy_history(versions, events, rng):
    """the real runner through a history; after every check() the store, and the store of a NEW checker on the same state with the
    same call (the direct oracle: a call must not depend on earlier ones).  -> (stores, fresh stores, source)"""
    Toy, src = build_versioned_checker(versions, rng)
    toy = Toy()
    out, fresh_out = [], []
    for ev in events:
        if ev[0] == 'm':
            toy.v = int(ev[1:])
            continue
        refused = call_check(toy, ev)
        fresh = Toy()
        fresh.v = toy.v
        fr = call_check(fresh, ev)
        out.append('refused' if refused else canon_store(toy.all()))
        fresh_out.append('refused' if fr else canon_store(fresh.all()))
    return out, fresh_out, src


def spec_of(checks):
    return ';'.join(','.join(ops) or '-' for ops in checks)


# ======================================================================================================================
# part B: products.  A physically self-consistent monostatic spotlight CPHD (geometry written from the definitions of
# CPHD 1.0.1 section 6.5, not from the checker), sarpy-made SICD / SIDD products
# ======================================================================================================================
C_LIGHT = 299792458.0
WGS_A, WGS_F = 6378137.0, 1 / 298.257223563
WGS_E2 = WGS_F * (2 - WGS_F)
MINIMAL = 'syntax-only-cphd-1.1.0-monostatic-minimal.xml'


def geodetic_to_ecf(lat, lon, h):
    la, lo = math.radians(lat), math.radians(lon)
    n = WGS_A / math.sqrt(1 - WGS_E2 * math.sin(la) ** 2)
    return numpy.array([(n + h) * math.cos(la) * math.cos(lo), (n + h) * math.cos(la) * math.sin(lo), (n * (1 - WGS_E2) + h) * math.sin(la)])


def ecf_to_latlon(p):
    x, y, z = p
    lon = math.atan2(y, x)
    r = math.hypot(x, y)
    lat = math.atan2(z, r * (1 - WGS_E2))
    for _ in range(8):
        n = WGS_A / math.sqrt(1 - WGS_E2 * math.sin(lat) ** 2)
        h = r / math.cos(lat) - n
        lat = math.atan2(z, r * (1 - WGS_E2 * n / (n + h)))
    return math.degrees(lat), math.degrees(lon)


def enu(lat, lon):
    la, lo = math.radians(lat), math.radians(lon)
    e = numpy.array([-math.sin(lo), math.cos(lo), 0.0])
    n = numpy.array([-math.sin(la) * math.cos(lo), -math.sin(la) * math.sin(lo), math.cos(la)])
    u = numpy.array([math.cos(la) * math.cos(lo), math.cos(la) * math.sin(lo), math.sin(la)])
    return e, n, u


def unit(v):
    return v / numpy.linalg.norm(v)


def mono_refgeom(arp, varp, srp):
    """reference geometry of a monostatic collection (angles in degrees), from the geometric definitions"""
    lat, lon = ecf_to_latlon(srp)
    e, n, up = enu(lat, lon)
    los = arp - srp
    rng_ = float(numpy.linalg.norm(los))
    u = los / rng_
    rdot = float(numpy.dot(u, varp))
    vm = float(numpy.linalg.norm(varp))
    ea = math.acos(max(-1.0, min(1.0, float(numpy.dot(unit(arp), unit(srp))))))
    left = numpy.cross(unit(arp), varp / vm)
    look = 1 if float(numpy.dot(left, u)) < 0 else -1
    graze = math.asin(float(numpy.dot(u, up)))
    az = math.atan2(float(numpy.dot(u, e)), float(numpy.dot(u, n)))
    gpy = unit(numpy.cross(up, u))
    spn = unit(look * numpy.cross(u, varp / vm))
    return {
        'ARPPos': arp, 'ARPVel': varp, 'SideOfTrack': 'L' if look == 1 else 'R', 'SlantRange': rng_,
        'GroundRange': float(numpy.linalg.norm(srp)) * ea,
        'DopplerConeAngle': math.degrees(math.acos(-rdot / vm)),
        'GrazeAngle': math.degrees(graze), 'IncidenceAngle': 90 - math.degrees(graze),
        'AzimuthAngle': math.degrees(az) % 360,
        'TwistAngle': -math.degrees(math.asin(float(numpy.dot(spn, gpy)))),
        'SlopeAngle': math.degrees(math.acos(float(numpy.dot(up, spn)))),
        'LayoverAngle': math.degrees(math.atan2(-float(numpy.dot(spn, e)), -float(numpy.dot(spn, n)))) % 360,
    }


def consistent_cphd(rng, meta, distinct=False):
    """fills `meta` (from cphdgen.build_meta, minimal 1.1.0 template) and returns the PVP arrays of a physically
    self-consistent monostatic spotlight collection: straight flight, fixed SRP, fixed FX / TOA bands"""
    from sarpy.io.complex.sicd_elements.blocks import Poly2DType
    lat, lon = rng.uniform(-65, 65), rng.uniform(-175, 175)
    sc = meta.SceneCoordinates
    sc.IARP.LLH = [lat, lon, 0.0]
    sc.IARP.ECF = geodetic_to_ecf(lat, lon, 0.0)
    iarp = sc.IARP.ECF.get_array()
    e, n, up = enu(lat, lon)
    th = rng.uniform(0, 2 * math.pi)
    iax = math.cos(th) * e + math.sin(th) * n
    iay = -math.sin(th) * e + math.cos(th) * n
    sa, sb = (0.0, 0.0) if rng.random() < 0.5 else (rng.uniform(-100, 100), rng.uniform(-100, 100))
    srp = iarp + sa * iax + sb * iay
    half = rng.choice([100.0, 250.0, 1000.0])
    rngm = rng.uniform(3e4, 9e5)
    gr = math.radians(rng.uniform(20, 60))
    az = rng.uniform(0, 2 * math.pi)
    gdir = math.cos(az) * n + math.sin(az) * e
    arp0 = srp + rngm * (math.cos(gr) * gdir + math.sin(gr) * up)
    perp = numpy.cross(up, gdir) * rng.choice([-1, 1])
    sq = math.radians(rng.uniform(-25, 25))
    vmag = rng.uniform(80, 7500)
    vel = vmag * (math.cos(sq) * perp - math.sin(sq) * gdir) + rng.uniform(-0.02, 0.02) * vmag * up
    t0 = rng.choice([0.0, rng.uniform(0, 5)])
    span = rng.uniform(0.3, 2.5)
    chans = meta.Data.Channels
    same_band = rng.random() < 0.6 or len(chans) == 1
    if distinct:        # every checked per-channel parameter differs between the channels (FX band, bandwidth, TOA swath)
        same_band = False
    fc0, bw0 = rng.uniform(1e9, 1.6e10), rng.uniform(2e7, 4e8)
    toa0 = rng.uniform(4e-7, 4e-6)
    toas = []
    dt = meta.PVP.get_vector_dtype()
    pvps = {}
    for k, ch in enumerate(chans):
        nv = ch.NumVectors
        fc = fc0 if same_band else fc0 * (1 + 0.01 * k)
        bw = bw0 if same_band else bw0 * (1 + 0.1 * k)
        toa = toa0 * (1 + 0.25 * k) if distinct else toa0
        toas.append(toa)
        arr = numpy.zeros((nv,), dtype=dt)
        tx = t0 + span * numpy.arange(nv) / max(nv - 1, 1)
        mid = t0 + span / 2
        txpos = arp0[None, :] + vel[None, :] * (tx - mid)[:, None]
        rcv = tx + 2 * numpy.linalg.norm(txpos - srp[None, :], axis=1) / C_LIGHT
        rcvpos = arp0[None, :] + vel[None, :] * (rcv - mid)[:, None]
        arr['TxTime'], arr['TxPos'], arr['TxVel'] = tx, txpos, vel[None, :]
        arr['RcvTime'], arr['RcvPos'], arr['RcvVel'] = rcv, rcvpos, vel[None, :]
        arr['SRPPos'] = srp[None, :]
        arr['FX1'], arr['FX2'] = fc - bw / 2, fc + bw / 2
        arr['TOA1'], arr['TOA2'] = -toa, toa
        arr['SC0'] = fc - bw / 2
        arr['SCSS'] = 1.0 / (rng.choice([1.25, 1.5, 2.0]) * 2 * toa)
        ux, ur = txpos - srp[None, :], rcvpos - srp[None, :]
        rd = 0.5 * ((vel[None, :] * ux).sum(1) / numpy.linalg.norm(ux, axis=1) + (vel[None, :] * ur).sum(1) / numpy.linalg.norm(ur, axis=1))
        arr['aFDOP'] = -2 * rd / C_LIGHT
        arr['aFRR2'] = 2 / (C_LIGHT * 1e12)
        arr['aFRR1'] = fc * arr['aFRR2']
        arr['TDTropoSRP'] = rng.uniform(0, 1e-8)
        if 'AmpSF' in dt.names:
            arr['AmpSF'] = [2.0 ** (-rng.randint(0, 4)) for _ in range(nv)]
        pvps[ch.Identifier] = arr
        p = meta.Channel.Parameters[k]
        p.FxC, p.FxBW, p.TOASaved = fc, bw, 2 * toa
        p.FXFixed = p.TOAFixed = p.SRPFixed = True
        p.RefVectorIndex = rng.randrange(nv)
    meta.Channel.FXFixedCPHD = same_band
    meta.Channel.TOAFixedCPHD = len(set(toas)) == 1
    meta.Channel.SRPFixedCPHD = True
    ref = rng.randrange(len(chans))
    meta.Channel.RefChId = chans[ref].Identifier
    g = meta.Global
    g.DomainType = 'FX'
    g.Timeline.TxTime1 = float(min(v['TxTime'].min() for v in pvps.values()))
    g.Timeline.TxTime2 = float(max(v['TxTime'].max() for v in pvps.values()))
    g.FxBand.FxMin = float(min(v['FX1'].min() for v in pvps.values()))
    g.FxBand.FxMax = float(max(v['FX2'].max() for v in pvps.values()))
    g.TOASwath.TOAMin, g.TOASwath.TOAMax = -max(toas), max(toas)
    sc.ReferenceSurface.Planar.uIAX = iax
    sc.ReferenceSurface.Planar.uIAY = iay
    sc.ImageArea.X1Y1 = [-half, -half]
    sc.ImageArea.X2Y2 = [half, half]
    la = math.radians(lat)
    rm = WGS_A * (1 - WGS_E2) / (1 - WGS_E2 * math.sin(la) ** 2) ** 1.5
    rn = WGS_A / math.sqrt(1 - WGS_E2 * math.sin(la) ** 2)
    corners = []
    for (x, y) in [(-half, -half), (-half, half), (half, half), (half, -half)]:
        d = x * iax + y * iay
        corners.append([lat + math.degrees(float(numpy.dot(d, n)) / rm), lon + math.degrees(float(numpy.dot(d, e)) / (rn * math.cos(la)))])
    area = sum(corners[i][1] * corners[(i + 1) % 4][0] - corners[(i + 1) % 4][1] * corners[i][0] for i in range(4))
    if area > 0:      # counter-clockwise in (lon, lat): reverse
        corners = [corners[0]] + corners[:0:-1]
    sc.ImageAreaCornerPoints = corners

    def tref(v):
        rx, rr = numpy.linalg.norm(v['TxPos'] - v['SRPPos']), numpy.linalg.norm(v['RcvPos'] - v['SRPPos'])
        return float(v['TxTime'] + rx / (rx + rr) * (v['RcvTime'] - v['TxTime']))
    t1 = max(tref(v[0]) for v in pvps.values())
    t2 = min(tref(v[-1]) for v in pvps.values())
    cod, dwell = 0.5 * (t1 + t2), rng.uniform(0.2, 0.95) * (t2 - t1)
    meta.Dwell.CODTimes[0].CODTimePoly = Poly2DType(Coefs=[[cod]])
    meta.Dwell.DwellTimes[0].DwellTimePoly = Poly2DType(Coefs=[[dwell]])
    rv = pvps[chans[ref].Identifier][meta.Channel.Parameters[ref].RefVectorIndex]
    rgm = meta.ReferenceGeometry
    rgm.SRP.ECF = srp
    # the defining formula evaluated in doubles on the stored values (the checker allows 1e-10 m on a zero component)
    rgm.SRP.IAC = numpy.dot(numpy.array([iax, iay, unit(numpy.cross(iax, iay))]), srp - iarp)
    rgm.ReferenceTime = tref(rv)
    rgm.SRPCODTime, rgm.SRPDwellTime = cod, dwell
    mono = mono_refgeom(0.5 * (rv['TxPos'] + rv['RcvPos']), 0.5 * (rv['TxVel'] + rv['RcvVel']), srp)
    for k, v in mono.items():
        setattr(rgm.Monostatic, k, v)
    return pvps


def make_cphd(seed, tmpdir, consistent=True, text_len=None, support=None, vectors=None, permute=False):
    """one CPHD product, fully determined by its arguments.  `text_len`: length of CollectionID/CollectorName (free text: moves
    the end of the XML block byte by byte); `support`: list of (rows, cols) replacing the drawn support arrays; `vectors`:
    NumVectors of every channel (8 makes the PVP block a multiple of 64 bytes: no pad in front of the signal block);
    `permute`: 2-3 channels that differ in every checked parameter, with the order of the /Data/Channel entries and of the
    /Channel/Parameters nodes permuted independently of each other and of the order of the arrays in the file (the branches refer
    to one another by Identifier)"""
    import c09
    rng = random.Random(seed)
    fmt = rng.choice(['CI2', 'CI4', 'CF8', 'CF8'])
    nch = rng.choice([1, 2, 3])
    if permute:
        nch = max(nch, 2)
    sizes = [(rng.randint(2, 9), rng.randint(1, 6)) for _ in range(nch)]
    amp = rng.random() < 0.5
    sup = [(rng.randint(1, 4), rng.randint(1, 5)) for _ in range(rng.choice([0, 0, 1, 2]))]
    if support is not None:
        sup = [tuple(x) for x in support]
    if vectors is not None:
        sizes = [(vectors, ns) for _, ns in sizes]
    meta = cphdgen.build_meta(fmt, sizes, amp, sup, None, MINIMAL)
    pvp = consistent_cphd(rng, meta, distinct=permute) if consistent else cphdgen.make_pvp(meta, rng)
    orders = None
    if permute:
        prng = random.Random(seed ^ 0x5eed)
        while True:
            pd, pp = prng.sample(range(nch), nch), prng.sample(range(nch), nch)
            if pd != pp:
                break
        meta.Data.Channels = [meta.Data.Channels[i] for i in pd]
        meta.Channel.Parameters = [meta.Channel.Parameters[i] for i in pp]
        orders = {'data': [c.Identifier for c in meta.Data.Channels], 'parameters': [p.Identifier for p in meta.Channel.Parameters]}
    if text_len is not None:
        meta.CollectionID.CollectorName = ('Collector' * (text_len // 9 + 1))[:text_len]
    raw, support_arrays = cphdgen.make_raw(meta, rng), cphdgen.make_support(meta, rng)
    plan = {'mode': rng.choice(['file', 'pieces']), 'formatted': False, 'chunks': rng.random() < 0.5, 'order': rng.sample(['pvp', 'support', 'signal'], 3)}
    buf = c09.write_case(rng, meta, pvp, raw, support_arrays, 'path', tmpdir, plan)
    case = {'kind': 'cphd', 'seed': seed, 'consistent': consistent, 'fmt': fmt, 'sizes': sizes, 'amp_sf': amp, 'support': sup, 'plan': plan['mode'],
            'text_len': text_len, 'support_override': support, 'vectors': vectors, 'permute': permute, 'orders': orders}
    return {'buf': buf, 'meta': meta, 'case': case, 'cls': ('cphd', fmt, nch, amp, min(len(sup), 2), consistent, permute)}


def remake_cphd(pc, tmpdir):
    """a product from the `case` dict of a replay file"""
    return make_cphd(pc['seed'], tmpdir, pc.get('consistent', True), pc.get('text_len'), pc.get('support_override'), pc.get('vectors'), pc.get('permute', False))


SICD_FAMILIES = ['full-pfa', 'full-rma', 'chip-pfa-novd', 'chip-pfa', 'chip-rma']


def sicd_meta(seed, family):
    """valid SICD metadata: the two example documents unchanged ('full-*'), or sub-images made by sarpy's own
    SICDType.create_subset_structure ('chip-*'; '-novd' = ValidData removed from the parent first)"""
    rng = random.Random(seed)
    base = sargen.base_sicd('pfa' if 'pfa' in family else 'rma')
    if family.startswith('chip'):
        if family.endswith('novd'):
            base.ImageData.ValidData = None
            base.GeoData.ValidData = None
        nr, nc = base.ImageData.NumRows, base.ImageData.NumCols
        r, c = rng.randint(2, 40), rng.randint(2, 40)
        r0, c0 = rng.randint(0, nr - r), rng.randint(0, nc - c)
        base = base.create_subset_structure((r0, r0 + r), (c0, c0 + c))[0]
    pt = rng.choice(['RE32F_IM32F', 'RE16I_IM16I', 'AMP8I_PHS8I'])
    base.ImageData.PixelType = pt
    base.ImageData.AmpTable = numpy.linspace(0.0, 255.0, 256) if pt == 'AMP8I_PHS8I' else None
    return base, rng


OTHER_XML = b'<?xml version="1.0"?><Notes xmlns="urn:example:notes:1.0"><Note>an XML document that is neither SICD nor SIDD</Note></Notes>'
NON_XML = bytes(range(7, 200)) * 3


def extra_des(kinds):
    """additional DES segments a user may put in front of the SICD / SIDD DES: 'user' = user-defined DES with a binary payload,
    'xml' = an XML_DATA_CONTENT DES that carries some other XML document"""
    from sarpy.io.general.nitf import DESSubheaderManager
    from sarpy.io.general.nitf_elements.des import DataExtensionHeader, XMLDESSubheader
    out = []
    for k in kinds or []:
        if k == 'user':
            out.append(DESSubheaderManager(DataExtensionHeader(DESID='MY_OWN_DES', DESVER=1), NON_XML))
        else:
            uh = XMLDESSubheader(DESSHSI='urn:example:notes', DESSHSV='1.0', DESSHSD='2020-01-01T00:00:00Z', DESSHTN='urn:example:notes:1.0',
                                 DESSHDT='2020-01-01T00:00:00Z')
            out.append(DESSubheaderManager(DataExtensionHeader(UserHeader=uh), OTHER_XML))
    return out or None


RADIOMETRIC_POLYS = ['RCSSFPoly', 'SigmaZeroSFPoly', 'BetaZeroSFPoly', 'GammaZeroSFPoly']
# optional parts of a SICD whose absence is unconditionally legal (schema minOccurs = 0, no conditional requirement): the
# validation rules branch on their presence.  NOT in the list, on purpose: RadarCollection.Area (required by the 1.x schemas),
# Grid.*.DeltaKCOAPoly and the ValidData pair (DeltaK1/2 are estimated from them: removing them from a document whose DeltaK values were
# computed with them is not a neutral change), the image formation choice blocks PFA / RMA / RgAzComp.
SICD_OPTIONAL = ['CollectionInfo.CollectType', 'ImageCreation', 'ImageCreation.Application', 'ImageCreation.DateTime', 'Timeline.IPP', 'Position.GRPPoly',
                 'Position.TxAPCPoly', 'Position.RcvAPC', 'RadarCollection.Waveform', 'RadarCollection.Area.Plane', 'ImageFormation.Processings',
                 'Radiometric', 'Radiometric.NoiseLevel', 'Antenna', 'Antenna.Tx', 'Antenna.Rcv', 'Antenna.TwoWay', 'Antenna.Tx.EB', 'Antenna.Tx.Elem',
                 'Antenna.Tx.GainBSPoly', 'Antenna.Rcv.EB', 'Antenna.Rcv.Elem', 'Antenna.TwoWay.EB', 'Antenna.TwoWay.GainBSPoly']


def set_radiometric(meta, subset, noise=True):
    """all four scale-factor polynomials derived by sarpy's own RadiometricType._derive_parameters, then only `subset` kept"""
    rad = meta.Radiometric
    rad._derive_parameters(meta.Grid, meta.SCPCOA)
    for name in RADIOMETRIC_POLYS:
        if name not in subset:
            setattr(rad, name, None)
    if not noise:
        rad.NoiseLevel = None


def drop_optional(meta, paths):
    done = []
    for path in paths:
        if path == 'ValidData':
            if meta.ImageData.ValidData is not None or meta.GeoData.ValidData is not None:
                meta.ImageData.ValidData = None
                meta.GeoData.ValidData = None
                done.append(path)
            continue
        o = meta
        parts = path.split('.')
        for q in parts[:-1]:
            o = getattr(o, q, None)
            if o is None:
                break
        if o is not None and getattr(o, parts[-1], None) is not None:
            setattr(o, parts[-1], None)
            done.append(path)
    return done


def sicd_variant(base, radiometric=None, noise=True, drops=()):
    """the example document `base` ('pfa' | 'rma') with a chosen set of optional parts"""
    meta = sargen.base_sicd(base)
    if radiometric is not None:
        set_radiometric(meta, radiometric, noise)
    done = drop_optional(meta, drops)
    return meta, done


def make_sicd(seed, family, tmpdir, extra=None, radiometric=None, drops=()):
    meta, rng = sicd_meta(seed, family)
    if radiometric is not None and meta.Radiometric is not None:
        set_radiometric(meta, radiometric)
    dropped = drop_optional(meta, drops)
    rows, cols = meta.ImageData.NumRows, meta.ImageData.NumCols
    nrng = numpy.random.default_rng(rng.getrandbits(63))
    scale = 100.0 if meta.ImageData.PixelType != 'AMP8I_PHS8I' else 1.0
    data = (nrng.integers(-100, 100, (rows, cols)) + 1j * nrng.integers(-100, 100, (rows, cols))).astype('complex64') * (scale / 100.0)
    nseg = rng.choice([1, 1, 2, 3])
    row_limit = None if nseg == 1 else max(1, -(-rows // nseg))
    chunks = sargen.row_chunks(rng, rows, 3)
    buf, det = sargen.write_sicd(meta, data, 'path', tmpdir, row_limit=row_limit, chunks=chunks, name='c18.nitf', additional_des=extra_des(extra))
    case = {'kind': 'sicd', 'seed': seed, 'family': family, 'rows': rows, 'cols': cols, 'pixel_type': meta.ImageData.PixelType, 'row_limit': row_limit,
            'extra_des': list(extra or []), 'radiometric': radiometric, 'drops': list(drops), 'dropped': dropped}
    return {'buf': buf, 'meta': meta, 'case': case, 'cls': ('sicd', family, meta.ImageData.PixelType, nseg, tuple(extra or []), radiometric is not None, bool(dropped))}


def make_sidd(seed, tmpdir, force_first=None, extra=None):
    rng = random.Random(seed)
    n = rng.choice([1, 1, 2])
    metas, datas = [], []
    for k in range(n):
        pt = rng.choice(['MONO8I', 'MONO16I', 'RGB24I'])
        if k == 0 and force_first:
            pt = force_first
        r, c = rng.randint(2, 30), rng.randint(2, 30)
        metas.append(sargen.small_sidd(r, c, pt))
        datas.append(sargen.sidd_pixels(rng, r, c, pt))
    with_sicd = rng.random() < 0.5
    sicd = sargen.base_sicd(rng.choice(['pfa', 'rma'])) if with_sicd else None
    row_limit = rng.choice([None, None, 11])
    if extra:
        from sarpy.io.product.sidd import SIDDWriter, SIDDWritingDetails
        det = SIDDWritingDetails([m.copy() for m in metas], sicd, row_limit=row_limit, additional_des=extra_des(extra))
        path = os.path.join(tmpdir, 'c18s.nitf')
        if os.path.exists(path):
            os.remove(path)
        w = SIDDWriter(path, sidd_writing_details=det, check_existence=False)
        for i, d in enumerate(datas):
            w.write(d, start_indices=(0, 0) if d.ndim == 2 else (0, 0, 0), index=i)
        w.close()
        buf = open(path, 'rb').read()
    else:
        buf, det = sargen.write_sidd(metas, datas, 'path', tmpdir, row_limit=row_limit, sicd_meta=sicd, name='c18s.nitf')
    pts = [m.Display.PixelType for m in metas]
    case = {'kind': 'sidd', 'seed': seed, 'pixel_types': pts, 'with_sicd': with_sicd, 'row_limit': row_limit, 'force_first': force_first, 'extra_des': list(extra or [])}
    return {'buf': buf, 'metas': metas, 'case': case, 'cls': ('sidd', tuple(pts), with_sicd, row_limit is not None, tuple(extra or []))}


# ======================================================================================================================
# part C: the real checkers, wrapped so that an exception becomes a recorded crash
# ======================================================================================================================
class _Collect(logging.Handler):
    def __init__(self):
        super().__init__(level=logging.WARNING)
        self.records = []

    def emit(self, record):
        try:
            self.records.append((record.levelname, record.getMessage().split('\n')[0][:160]))
        except Exception:
            pass


def run_nitf_checker(kind, path):
    """sicd_consistency.check_file / sidd_consistency.check_file -> dict(verdict, crash, errors)"""
    from sarpy.consistency import sicd_consistency, sidd_consistency
    fn = sicd_consistency.check_file if kind == 'sicd' else sidd_consistency.check_file
    lg = logging.getLogger('validation')
    h = _Collect()
    old = (lg.propagate, lg.level, logging.root.manager.disable)
    lg.addHandler(h)
    null = logging.NullHandler()
    logging.root.addHandler(null)      # other sarpy loggers: keep them off stderr
    lg.propagate = False
    lg.setLevel(logging.WARNING)
    logging.disable(logging.NOTSET)
    out = {'verdict': None, 'crash': None}
    try:
        with warnings.catch_warnings():
            warnings.simplefilter('ignore')
            out['verdict'] = bool(fn(path))
    except Exception as e:
        out['crash'] = f'{type(e).__name__}: {str(e)[:200]}'
    finally:
        lg.removeHandler(h)
        logging.root.removeHandler(null)
        lg.propagate = old[0]
        lg.setLevel(old[1])
        logging.disable(old[2])
    out['all_errors'] = [m for lv, m in h.records if lv in ('ERROR', 'CRITICAL')]
    out['errors'] = out['all_errors'][:6]
    return out


def run_cphd_checker(path, signal=True):
    """CphdConsistency.from_file(path).check() -> dict(crash, errors={check: [details]}, warnings={...}, all)"""
    from sarpy.consistency.cphd_consistency import CphdConsistency
    out = {'crash': None, 'errors': {}, 'warnings': {}, 'all': {}, 'n': 0}
    try:
        with warnings.catch_warnings():
            warnings.simplefilter('ignore')
            with numpy.errstate(all='ignore'):
                cc = CphdConsistency.from_file(path, check_signal_data=signal)
                cc.check()
        allr = cc.all()
    except Exception as e:
        out['crash'] = f'{type(e).__name__}: {str(e)[:200]}'
        return out
    out['all'] = allr
    out['n'] = len(allr)
    for name, r in allr.items():
        for d in r['details']:
            if not d['passed']:
                out['errors' if d['severity'] == 'Error' else 'warnings'].setdefault(name, []).append(d['details'][:100])
    out['verdict'] = not out['errors']
    out['strict'] = not cc.failures()
    return out


def canon_cphd_store(allr):
    return {k: (bool(r['passed']), tuple((d['severity'], bool(d['passed'])) for d in r['details'])) for k, r in allr.items()}


CPHD_HISTORY_STEPS = ['check', 'truncate', 'check', 'restore', 'fxc', 'check:ignore', 'check', 'fxc-restore', 'check:prefix', 'check']


def apply_cphd_step(step, cc, path, buf, state):
    """one change of the checked object: the file on disk (re-read by the file-level checks on every run) or the XML the checker holds"""
    if step == 'truncate':
        k = min(64, int(cphdgen.parse_header(buf)[2]['SIGNAL_BLOCK_SIZE']))
        with open(path, 'wb') as f:
            f.write(buf[:-k])
        state['file'] = 'truncated'
    elif step == 'restore':
        with open(path, 'wb') as f:
            f.write(buf)
        state['file'] = 'whole'
    elif step == 'fxc':
        state['fxc'] = 1.01
    elif step == 'fxc-restore':
        state['fxc'] = 1.0


def sync_xml(cc, state):
    el = cc.xml.find('./Channel/Parameters/FxC')
    if 'fxc0' not in state:
        state['fxc0'] = float(el.text)
    el.text = repr(state['fxc0'] * state.get('fxc', 1.0))


def cphd_check_call(cc, step):
    with warnings.catch_warnings():
        warnings.simplefilter('ignore')
        with numpy.errstate(all='ignore'):
            if step == 'check:ignore':
                cc.check(ignore_patterns=['check_channel_fx', 'check_refgeom'])
            elif step == 'check:prefix':
                cc.check(['check_pad', 'check_signal_at_end_of_file', 'check_channel_fxc'], allow_prefix=True)
            else:
                cc.check()


def cphd_history(prod, steps, tmpdir):
    """a CphdConsistency object driven through check / change / check …; after every check() call its results for the checks that
    call selected are compared with those of a NEW checker built on the same file with the same XML edit.
    -> list of (step index, check name, history result, fresh result) that differ"""
    from sarpy.consistency.cphd_consistency import CphdConsistency
    path = os.path.join(tmpdir, 'hist.cphd')
    with open(path, 'wb') as f:
        f.write(prod['buf'])
    state = {}
    cc = CphdConsistency.from_file(path, check_signal_data=True)
    sync_xml(cc, state)
    bad, calls = [], 0
    for i, step in enumerate(steps):
        if not step.startswith('check'):
            apply_cphd_step(step, cc, path, prod['buf'], state)
            sync_xml(cc, state)
            continue
        cphd_check_call(cc, step)
        fresh = CphdConsistency.from_file(path, check_signal_data=True)
        sync_xml(fresh, dict(state))
        cphd_check_call(fresh, step)
        calls += 1
        a, b = canon_cphd_store(cc.all()), canon_cphd_store(fresh.all())
        for name, val in b.items():
            if a.get(name) != val:
                bad.append((i, name, str(a.get(name))[:200], str(val)[:200]))
    return bad, calls


def detail_passed(allr, check, text):
    """the recorded result of one need/want of one check (None when it was not evaluated)"""
    r = allr.get(check)
    if r is None:
        return None
    for d in r['details']:
        if text in d['details'] and d['severity'] != 'No-Op':
            return bool(d['passed'])
    return None


# ---------------------------------------------------------------------------------------------------------------------
# CPHD bytes: independent split / re-assembly (header grammar of the standard: `KEY := VALUE\n` lines, `\f\n`)
# ---------------------------------------------------------------------------------------------------------------------
def cphd_parts(buf):
    kind, ver, kv, hend = cphdgen.parse_header(buf)
    g = lambda k: int(kv[k])
    p = {'ver': ver, 'kv': dict(kv), 'hend': hend, 'xo': g('XML_BLOCK_BYTE_OFFSET')}
    p['xml'] = buf[p['xo']:p['xo'] + g('XML_BLOCK_SIZE')]
    p['sup'] = buf[g('SUPPORT_BLOCK_BYTE_OFFSET'):g('SUPPORT_BLOCK_BYTE_OFFSET') + g('SUPPORT_BLOCK_SIZE')] if 'SUPPORT_BLOCK_SIZE' in kv else None
    p['pvp'] = buf[g('PVP_BLOCK_BYTE_OFFSET'):g('PVP_BLOCK_BYTE_OFFSET') + g('PVP_BLOCK_SIZE')]
    p['sig'] = buf[g('SIGNAL_BLOCK_BYTE_OFFSET'):g('SIGNAL_BLOCK_BYTE_OFFSET') + g('SIGNAL_BLOCK_SIZE')]
    return p


def cphd_header_bytes(ver, kv):
    return (f'CPHD/{ver}\n' + ''.join(f'{k} := {v}\n' for k, v in kv.items()) + '\f\n').encode('ascii')


def cphd_patch_header(buf, changes=None, remove=(), ver=None):
    """re-render the header text with altered fields; everything from the XML block on is left as it is"""
    p = cphd_parts(buf)
    kv = {k: v for k, v in p['kv'].items() if k not in remove}
    for k, v in (changes or {}).items():
        kv[k] = str(v(int(kv[k])) if callable(v) else v)
    hb = cphd_header_bytes(ver or p['ver'], kv)
    if len(hb) > p['xo']:
        raise ValueError('header does not fit')
    return hb + b'\0' * (p['xo'] - len(hb)) + buf[p['xo']:]


def align64(v):
    return (v + 63) // 64 * 64


def cphd_rebuild(buf, xml):
    """the same file with another XML block: every offset and size recomputed consistently"""
    p = cphd_parts(buf)
    kv = dict(p['kv'])
    xo = p['xo']
    kv['XML_BLOCK_SIZE'] = len(xml)
    out = bytearray()
    end = xo + len(xml) + 2
    if p['sup'] is not None:
        so = align64(end)
        kv['SUPPORT_BLOCK_BYTE_OFFSET'] = so
        end = so + len(p['sup'])
    po = align64(end)
    kv['PVP_BLOCK_BYTE_OFFSET'] = po
    go = align64(po + len(p['pvp']))
    kv['SIGNAL_BLOCK_BYTE_OFFSET'] = go
    hb = cphd_header_bytes(p['ver'], kv)
    assert len(hb) <= xo
    out += hb + b'\0' * (xo - len(hb)) + xml + b'\f\n'
    if p['sup'] is not None:
        out += b'\0' * (kv['SUPPORT_BLOCK_BYTE_OFFSET'] - len(out)) + p['sup']
    out += b'\0' * (po - len(out)) + p['pvp']
    out += b'\0' * (go - len(out)) + p['sig']
    return bytes(out)


def xml_edit(xml, fn):
    from lxml import etree
    root = etree.fromstring(xml)
    ns = root.nsmap.get(None)
    q = lambda path: '/'.join('{%s}%s' % (ns, t) if t not in ('.', '..') else t for t in path.split('/'))
    fn(root, q)
    return etree.tostring(root)


def cphd_xml_mut(buf, fn):
    return cphd_rebuild(buf, xml_edit(cphd_parts(buf)['xml'], fn))


def pvp_field_offset(prod, chan_index, vector, field):
    """absolute byte offset of a PVP field of one vector"""
    meta = prod['meta']
    kv = cphdgen.parse_header(prod['buf'])[2]
    ch = meta.Data.Channels[chan_index]
    return int(kv['PVP_BLOCK_BYTE_OFFSET']) + ch.PVPArrayByteOffset + vector * meta.Data.NumBytesPVP + getattr(meta.PVP, field).Offset * 8


def set_text(path, fn):
    def edit(root, q):
        el = root.find(q(path))
        el.text = fn(el.text)
    return edit


def remove_elem(path):
    def edit(root, q):
        el = root.find(q(path))
        el.getparent().remove(el)
    return edit


# ======================================================================================================================
# part D: the catalogue of single-rule mutations.  `expect`: names (prefixes) of the CphdConsistency checks one of which
# must record the failure; `level`: the severity the rule is documented with; `lean`: the mutation theorem that covers it
# ======================================================================================================================
def _last(prod):
    return len(prod['meta'].Data.Channels) - 1


def _bump_text(t):
    return str(int(t) + 1)


def m_signal_nan(prod, rng):
    buf = bytearray(prod['buf'])
    kv = cphdgen.parse_header(prod['buf'])[2]
    off = int(kv['SIGNAL_BLOCK_BYTE_OFFSET'])
    buf[off:off + 4] = numpy.array([numpy.nan], dtype='>f4').tobytes()
    return bytes(buf)


def m_swap_txtime(prod, rng):
    buf = bytearray(prod['buf'])
    a, b = pvp_field_offset(prod, 0, 0, 'TxTime'), pvp_field_offset(prod, 0, 1, 'TxTime')
    buf[a:a + 8], buf[b:b + 8] = buf[b:b + 8], buf[a:a + 8]
    return bytes(buf)


def m_move_srp(prod, rng):
    buf = bytearray(prod['buf'])
    a = pvp_field_offset(prod, 0, 1, 'SRPPos')
    # 1 km: the rule's effective tolerance is atol 1e-3 + rtol 1e-6 x |ECF coordinate| (several metres), see NOTES
    v = numpy.frombuffer(bytes(buf[a:a + 8]), dtype='>f8')[0] + 1000.0
    buf[a:a + 8] = numpy.array([v], dtype='>f8').tobytes()
    return bytes(buf)


def m_zero_terminator(prod, rng):
    buf = bytearray(prod['buf'])
    kv = cphdgen.parse_header(prod['buf'])[2]
    e = int(kv['XML_BLOCK_BYTE_OFFSET']) + int(kv['XML_BLOCK_SIZE'])
    buf[e:e + 2] = b'\0\0'
    return bytes(buf)


def m_pad_nonzero(prod, rng):
    buf = bytearray(prod['buf'])
    hend = cphdgen.parse_header(prod['buf'])[3]
    buf[hend + 5] = 0x41
    return bytes(buf)


def m_pvp_overlap(prod, rng):
    def edit(root, q):
        root.find(q('PVP/FX1/Offset')).text = root.find(q('PVP/FX2/Offset')).text
    return cphd_xml_mut(prod['buf'], edit)


def m_dup_second(path):
    """the second element at `path` gets the text of the first"""
    def edit(root, q):
        els = root.findall(q(path))
        els[1].text = els[0].text
    return edit


def last_in_block(root, q):
    """the /Data/Channel entry whose signal array ends the SIGNAL block (the entries may be listed in any order)"""
    return max(root.findall(q('Data/Channel')), key=lambda c: int(c.find(q('SignalArrayByteOffset')).text))


def m_swap_param_ids(root, q):
    els = root.findall(q('Channel/Parameters/Identifier'))
    els[0].text, els[1].text = els[1].text, els[0].text


def m_poly_exponent(root, q):
    p = root.find(q('Dwell/CODTime/CODTimePoly'))
    c = p.findall(q('Coef'))[-1]
    c.set('exponent1', str(int(p.get('order1')) + 1))


def m_poly_dup_coef(root, q):
    import copy
    p = root.find(q('Dwell/DwellTime/DwellTimePoly'))
    p.append(copy.deepcopy(p.findall(q('Coef'))[0]))


def m_swap_area(root, q):
    a = root.find(q('SceneCoordinates/ImageArea'))
    e1, e2 = a.find(q('X1Y1/X')), a.find(q('X2Y2/X'))
    e1.text, e2.text = e2.text, e1.text


def m_remove_corner(root, q):
    el = root.find(q('SceneCoordinates/ImageAreaCornerPoints'))
    el.remove(list(el)[-1])


CPHD_REQUIRED = ['CollectionID/CoreName', 'Global/SGN', 'SceneCoordinates/EarthModel', 'ReferenceGeometry/SRPCODTime',
                 'Channel/Parameters/Polarization', 'Data/NumBytesPVP', 'Dwell/NumCODTimes']

CPHD_MUTATIONS = [
    dict(name='cphd_sig_size_plus1', rule='SIGNAL_BLOCK_BYTE_OFFSET + SIGNAL_BLOCK_SIZE = file size', expect=['check_signal_at_end_of_file'],
         lean='mutation_sigsize_falsifies_signalAtEof',
         apply=lambda p, r: cphd_patch_header(p['buf'], {'SIGNAL_BLOCK_SIZE': lambda v: v + 1})),
    dict(name='cphd_truncated', rule='signal block ends at the end of the file (file truncated)', expect=['check_signal_at_end_of_file'],
         lean='mutation_truncate_falsifies_signalAtEof',
         # inside the signal block: cutting into the PVP block is another violation (probe cphd_truncated_into_pvp, NOTES_C18X section 8)
         apply=lambda p, r: p['buf'][:-r.randint(1, min(8, int(cphdgen.parse_header(p['buf'])[2]['SIGNAL_BLOCK_SIZE'])))]),
    dict(name='cphd_trailing_bytes', rule='signal block ends at the end of the file (bytes appended)', expect=['check_signal_at_end_of_file'],
         lean='mutation_filelen_falsifies_signalAtEof', apply=lambda p, r: p['buf'] + b'\0' * r.randint(1, 64)),
    dict(name='cphd_sig_offset_into_pvp', rule='SIGNAL block comes after the PVP block', expect=['check_pad_after_pvp'],
         lean='mutation_sigoff_falsifies_signalAfterPvp',
         apply=lambda p, r: cphd_patch_header(p['buf'], {'SIGNAL_BLOCK_BYTE_OFFSET': lambda v: v - 64})),
    dict(name='cphd_pvp_size_plus64', rule='SIGNAL block comes after the PVP block (PVP_BLOCK_SIZE too large)', expect=['check_pad_after_pvp'],
         lean='mutation_pvpsize_falsifies_signalAfterPvp',
         apply=lambda p, r: cphd_patch_header(p['buf'], {'PVP_BLOCK_SIZE': lambda v: v + 64})),
    dict(name='cphd_pvp_offset_overlap', rule='PVP block comes after the XML / SUPPORT block', expect=['check_pad_after_xml', 'check_pad_after_support'],
         lean='mutation_pvpoff_falsifies_order',
         apply=lambda p, r: cphd_patch_header(p['buf'], {'PVP_BLOCK_BYTE_OFFSET': lambda v: v - 64})),
    dict(name='cphd_support_size_plus64', rule='PVP block comes after the SUPPORT block', expect=['check_pad_after_support'],
         lean='mutation_pvpoff_falsifies_order', applies=lambda p: bool(p['case']['support']),
         apply=lambda p, r: cphd_patch_header(p['buf'], {'SUPPORT_BLOCK_SIZE': lambda v: v + 64})),
    dict(name='cphd_xml_size_plus64', rule='next block comes after the XML block (XML_BLOCK_SIZE too large)', expect=['check_pad_after_xml'],
         lean='mutation_xmlsize_falsifies_nextAfterXml',
         apply=lambda p, r: cphd_patch_header(p['buf'], {'XML_BLOCK_SIZE': lambda v: v + 64})),
    dict(name='cphd_xml_terminator_missing', rule='section terminator follows the XML block', expect=['check_pad_after_xml'], apply=m_zero_terminator),
    dict(name='cphd_header_version', rule='file type header version = XML namespace version', expect=['check_file_type_header'],
         apply=lambda p, r: cphd_patch_header(p['buf'], ver='1.0.1')),
    dict(name='cphd_classification_mismatch', rule='header CLASSIFICATION = XML Classification', expect=['check_classification_and_release_info'],
         apply=lambda p, r: cphd_patch_header(p['buf'], {'CLASSIFICATION': 'SECRET'})),
    dict(name='cphd_header_key_removed', rule='required header field RELEASE_INFO present', expect=['check_header_keys'],
         apply=lambda p, r: cphd_patch_header(p['buf'], remove=('RELEASE_INFO',))),
    dict(name='cphd_required_element_removed', rule='XML validates against the schema (required element removed)', expect=['check_against_schema'],
         variants=CPHD_REQUIRED, apply=lambda p, r, v: cphd_xml_mut(p['buf'], remove_elem(v))),
    dict(name='cphd_numvectors_plus1', rule='channel signal array (NumVectors x NumSamples) fits the SIGNAL block', expect=['check_channel_signal_data'],
         lean='mutation_numvectors_falsifies_signalFits',
         apply=lambda p, r: cphd_xml_mut(p['buf'], lambda root, q: set_text('NumVectors', _bump_text)(last_in_block(root, q), q))),
    dict(name='cphd_numsamples_plus1', rule='channel signal array (NumVectors x NumSamples) fits the SIGNAL block', expect=['check_channel_signal_data'],
         lean='mutation_numvectors_falsifies_signalFits',
         apply=lambda p, r: cphd_xml_mut(p['buf'], lambda root, q: set_text('NumSamples', _bump_text)(last_in_block(root, q), q))),
    dict(name='cphd_pvp_offset_field_overlap', rule='PVP parameters do not overlap (FX1 declared at the offset of FX2); no dedicated rule, detected through FxC / FxBW',
         expect=['check_channel_fxc', 'check_channel_fxbw'], apply=m_pvp_overlap),
    dict(name='cphd_signal_nan', rule='signal samples are finite', expect=['check_channel_signal_data'], applies=lambda p: p['case']['fmt'] == 'CF8', apply=m_signal_nan),
    dict(name='cphd_txtime_not_monotonic', rule='TxTime increases', expect=['check_time_monotonic'], apply=m_swap_txtime),
    dict(name='cphd_srp_moves', rule='SRPFixed: SRPPos constant', expect=['check_channel_srpfixed'], apply=m_move_srp),
    dict(name='cphd_fxc_wrong', rule='Channel FxC = (max FX2 + min FX1) / 2', expect=['check_channel_fxc'],
         apply=lambda p, r: cphd_xml_mut(p['buf'], set_text('Channel/Parameters/FxC', lambda t: repr(float(t) * 1.01)))),
    dict(name='cphd_txtime2_wrong', rule='Global Timeline TxTime2 = last TxTime', expect=['check_global_txtime_limits'],
         apply=lambda p, r: cphd_xml_mut(p['buf'], set_text('Global/Timeline/TxTime2', lambda t: repr(float(t) + 1.0)))),
    dict(name='cphd_refgeom_slantrange', rule='ReferenceGeometry SlantRange = |ARP - SRP|', expect=['check_refgeom_monostatic'],
         apply=lambda p, r: cphd_xml_mut(p['buf'], set_text('ReferenceGeometry/Monostatic/SlantRange', lambda t: repr(float(t) * 1.01)))),
    dict(name='cphd_dwell_ref_dangling', rule='/Dwell/CODTime with the Identifier a channel names exists', expect=['check_channel_dwell_exist'],
         lean='mutation_dangling_falsifies_refsExist',
         apply=lambda p, r: cphd_xml_mut(p['buf'], set_text('Channel/Parameters/DwellTimes/CODId', lambda t: t + 'x'))),
    dict(name='cphd_support_id_duplicate', rule='Identifiers of Data/SupportArray are unique', expect=['check_identifier_uniqueness'],
         lean='mutation_duplicate_falsifies_unique', applies=lambda p: len(p['case']['support']) >= 2,
         apply=lambda p, r: cphd_xml_mut(p['buf'], m_dup_second('Data/SupportArray/Identifier'))),
    dict(name='cphd_dwell_id_duplicate', rule='Identifiers of Dwell/CODTime are unique (a second CODTime with the same Identifier)', expect=['check_identifier_uniqueness'],
         lean='mutation_duplicate_falsifies_unique',
         apply=lambda p, r: cphd_xml_mut(p['buf'], lambda root, q: root.find(q('Dwell/CODTime')).addnext(__import__('copy').deepcopy(root.find(q('Dwell/CODTime')))))),
    dict(name='cphd_poly_exponent_above_order', rule='polynomial coefficient exponents do not exceed the order', expect=['check_polynomials'],
         lean='mutation_exponent_falsifies_polyOk', apply=lambda p, r: cphd_xml_mut(p['buf'], m_poly_exponent)),
    dict(name='cphd_poly_duplicate_coef', rule='polynomial coefficient exponents are not repeated', expect=['check_polynomials'],
         lean='mutation_duplicate_coef_falsifies_polyOk', apply=lambda p, r: cphd_xml_mut(p['buf'], m_poly_dup_coef)),
    dict(name='cphd_corner_point_removed', rule='4 image area corner points', expect=['check_image_area_corner_points'],
         lean='mutation_corner_falsifies_fourCorners', apply=lambda p, r: cphd_xml_mut(p['buf'], m_remove_corner)),
    dict(name='cphd_image_area_swapped', rule='SceneCoordinates/ImageArea X1Y1 < X2Y2', expect=['check_imagearea_x1y1_x2y2'],
         lean='mutation_swap_falsifies_boxOrdered', apply=lambda p, r: cphd_xml_mut(p['buf'], m_swap_area)),
    dict(name='cphd_channel_params_ids_swapped', rule='each channel is described by the /Channel/Parameters node with its own Identifier (two nodes carry each other\'s Identifier)',
         expect=['check_channel_fxc', 'check_channel_fxbw'], lean='mutation_identifiers_swapped',
         applies=lambda p: len(p['case']['sizes']) >= 2 and not p['meta'].Channel.FXFixedCPHD,
         apply=lambda p, r: cphd_xml_mut(p['buf'], m_swap_param_ids)),
    dict(name='cphd_pad_nonzero', rule='pad between header and XML is zero (documented as a warning)', expect=['check_pad_header_xml'], level='Warning', apply=m_pad_nonzero),
]


# ---------------------------------------------------------------------------------------------------------------------
# NITF (SICD / SIDD) mutations: same-length byte edits located with the independent parser
# ---------------------------------------------------------------------------------------------------------------------
def nitf_layout(buf):
    problems, summ = nitfparse.check_structure(buf)
    if summ is None:
        raise ValueError('independent parser refuses the product: ' + '; '.join(problems))
    return problems, summ


def seg_ranges(buf, key):
    """[(subheader offset, subheader length, data offset, data length)] of the segments of one kind"""
    return [(off, sub, off + sub, dat) for k, i, off, sub, dat in nitf_layout(buf)[1]['layout'] if k == key]


def replace_in(buf, lo, hi, old, new, count=1):
    assert len(old) == len(new)
    seg = buf[lo:hi]
    if old not in seg:
        raise ValueError(f'{old!r} not found')
    return buf[:lo] + seg.replace(old, new, count) + buf[hi:]


def des_of(buf, root_tag):
    for so, sl, do, dl in seg_ranges(buf, 'des'):
        if re.search(rb'<' + root_tag + rb'[\s>]', buf[do:do + min(dl, 400)]):
            return so, sl, do, dl
    raise ValueError('no DES with root ' + root_tag.decode())


def blank_element(buf, lo, hi, tag):
    m = re.search(rb'<' + tag + rb'(\s[^>]*)?>.*?</' + tag + rb'>|<' + tag + rb'(\s[^>]*)?/>', buf[lo:hi], re.S)
    if not m:
        raise ValueError(f'element {tag!r} not found')
    return buf[:lo + m.start()] + b' ' * (m.end() - m.start()) + buf[lo + m.end():]


def m_des_field(root_tag, old, new, where):
    def f(p, r):
        so, sl, do, dl = des_of(p['buf'], root_tag)
        lo, hi = (so, so + sl) if where == 'sub' else (do, do + dl)
        return replace_in(p['buf'], lo, hi, old, new)
    return f


def m_desshsv(p, r):
    so, sl, do, dl = des_of(p['buf'], b'SICD')
    h = nitfparse.parse_des_subheader(p['buf'], so, sl)
    start = so + sl - h['DESSHL'] + 5 + 8 + 20 + 40 + 60       # DESCRC DESSHFT DESSHDT DESSHRP DESSHSI | DESSHSV(10)
    field = p['buf'][start:start + 10]
    assert re.fullmatch(rb'\d\.\d\.\d\s*', field), field
    return p['buf'][:start] + b'0.9.9'.ljust(10) + p['buf'][start + 10:]


def m_blank(root_tag):
    def f(p, r, v):
        so, sl, do, dl = des_of(p['buf'], root_tag)
        return blank_element(p['buf'], do, do + dl, v.encode())
    return f


def m_image_field(old, new):
    def f(p, r):
        so, sl, do, dl = seg_ranges(p['buf'], 'image')[0]
        return replace_in(p['buf'], so, so + sl, old, new)
    return f


def m_sicd_numrows(p, r):
    so, sl, do, dl = des_of(p['buf'], b'SICD')
    n = p['meta'].ImageData.NumRows
    new = n + 1 if len(str(n + 1)) == len(str(n)) else n - 1
    return replace_in(p['buf'], do, do + dl, b'<NumRows>%d</NumRows>' % n, b'<NumRows>%d</NumRows>' % new)


def _sicd_ipp_sets(p):
    tl = getattr(p['meta'], 'Timeline', None)
    return [] if tl is None or tl.IPP is None else list(tl.IPP)


def m_sicd_ipp_start(p, r):
    """a rule the schema cannot express, broken INSIDE an array entry: IPPStart of the first Timeline/IPP/Set no longer is the value of that
    set's IPPPoly at TStart (the validator judges array entries through SerializableArray.is_valid)"""
    so, sl, do, dl = des_of(p['buf'], b'SICD')
    n = int(_sicd_ipp_sets(p)[0].IPPStart)
    new = n + 7 if len(str(n + 7)) == len(str(n)) else n - 7
    return replace_in(p['buf'], do, do + dl, b'<IPPStart>%d</IPPStart>' % n, b'<IPPStart>%d</IPPStart>' % new)


def m_sicd_corner_nan(p, r):
    """one coordinate of GeoData/ImageCorners is NaN (xs:double admits it): the corners no longer place the image"""
    so, sl, do, dl = des_of(p['buf'], b'SICD')
    seg = p['buf'][do:do + dl]
    m = re.search(rb'<ICP index="1:FRFC"><Lat>([^<]{3,})</Lat>', seg)
    if m is None:
        raise ValueError('first image corner not found')
    new = b'NaN' + b' ' * (len(m.group(1)) - 3)
    return p['buf'][:do + m.start(1)] + new + p['buf'][do + m.end(1):]


def m_sicd_xml_corner_nan_no_validdata(p, r):
    """stand-alone XML: the optional ValidData polygon removed from ImageData and GeoData alike (still a valid document), then one
    corner coordinate set to NaN - only the corner rule itself can flag it"""
    def edit(root, q):
        for path in ('ImageData/ValidData', 'GeoData/ValidData'):
            el = root.find(q(path))
            if el is not None:
                el.getparent().remove(el)
        root.find(q('GeoData/ImageCorners')).findall(q('ICP'))[0].find(q('Lat')).text = 'NaN'
    return xml_edit(p['meta'].to_xml_bytes(), edit)


def m_sicd_chanindex_zero(p, r):
    """ImageFormation/RcvChanProc/ChanIndex = 0: channel indices count from 1"""
    so, sl, do, dl = des_of(p['buf'], b'SICD')
    return replace_in(p['buf'], do, do + dl, b'<ChanIndex>1</ChanIndex>', b'<ChanIndex>0</ChanIndex>')


def m_sicd_pixel_type(p, r):
    so, sl, do, dl = des_of(p['buf'], b'SICD')
    old = p['meta'].ImageData.PixelType.encode()
    new = b'RE16I_IM16I' if old != b'RE16I_IM16I' else b'RE32F_IM32F'
    return replace_in(p['buf'], do, do + dl, b'<PixelType>' + old, b'<PixelType>' + new)


def m_sidd_pixel_type(p, r):
    so, sl, do, dl = des_of(p['buf'], b'SIDD')
    return replace_in(p['buf'], do, do + dl, b'<PixelType>MONO16I', b'<PixelType>MONO8LU')


def m_nbpp(p, r):
    so, sl, do, dl = seg_ranges(p['buf'], 'image')[0]
    h = nitfparse.parse_image_subheader(p['buf'], so, sl)
    old = b'%02d' % h['NBPP']
    new = b'16' if h['NBPP'] != 16 else b'08'
    # NBPP follows ISYNC(1) IMODE(1) NBPR(4) NBPC(4) NPPBH(4) NPPBV(4); locate it from the end: NBPP IDLVL IALVL ILOC IMAG UDIDL IXSHDL
    tail = 2 + 3 + 3 + 10 + 4 + 5 + 5
    if h['UDIDL'] or h['IXSHDL']:
        raise ValueError('image subheader with extensions')
    pos = so + sl - tail
    assert p['buf'][pos:pos + 2] == old, (p['buf'][pos:pos + 2], old)
    return p['buf'][:pos] + new + p['buf'][pos + 2:]


def m_isubcat(both):
    """band subcategory codes of the first image segment altered: the second one only, or both"""
    def f(p, r):
        so, sl, do, dl = seg_ranges(p['buf'], 'image')[0]
        sub = p['buf'][so:so + sl]
        m = re.search(rb'2  ([IM])     N   0  ([QP])     N   0', sub)
        if not m:
            raise ValueError('band section of the image subheader not found')
        new = bytearray(sub)
        new[m.start(2)] = ord('Y')
        if both:
            new[m.start(1)] = ord('X')
        return p['buf'][:so] + bytes(new) + p['buf'][so + sl:]
    return f


def m_xml_file(kind, tag):
    """stand-alone XML document with a required element removed"""
    def f(p, r):
        meta = p['meta'] if kind == 'sicd' else p['metas'][0]
        xml = meta.to_xml_bytes()
        return xml_edit(xml, remove_elem(tag))
    return f


SICD_REQ = ['CollectorName', 'ImageFormAlgo', 'SCPTime', 'Timeline', 'RadarCollection', 'ImageData', 'Grid', 'GeoData']
SIDD_REQ = ['ProductName', 'PixelType', 'Display', 'Measurement', 'ExploitationFeatures', 'GeoData']

NITF_MUTATIONS = [
    dict(name='sicd_desshtn_mismatch', kind='sicd', rule='DES.DESSHTN agrees with the XML namespace', lean='mutation_desshtn_falsifies_desRule',
         apply=m_des_field(b'SICD', b'urn:SICD:1.3.0', b'urn:SICD:1.2.1', 'sub')),
    dict(name='sicd_desshtn_unrecognised', kind='sicd', rule='DES.DESSHTN is a recognised urn', lean='mutation_desshtn_falsifies_desRule',
         apply=m_des_field(b'SICD', b'urn:SICD:1.3.0', b'urn:SICD:9.9.9', 'sub')),
    dict(name='sicd_desshsv_mismatch', kind='sicd', rule='DES.DESSHSV is the version of DES.DESSHTN', lean='mutation_desshsv_falsifies_desRule', apply=m_desshsv),
    dict(name='sicd_xmlns_mismatch', kind='sicd', rule='DES.DESSHTN agrees with the XML namespace (namespace altered)', lean='mutation_xmlns_falsifies_desRule',
         apply=m_des_field(b'SICD', b'"urn:SICD:1.3.0"', b'"urn:SICD:1.2.1"', 'data')),
    dict(name='sicd_required_element_removed', kind='sicd', rule='XML validates against the schema / structure (required element removed)', variants=SICD_REQ, apply=m_blank(b'SICD')),
    dict(name='sicd_pixel_type_vs_image', kind='sicd', rule='image segment NBPP / PVTYPE agree with ImageData.PixelType', apply=m_sicd_pixel_type),
    dict(name='sicd_nbpp_vs_pixel_type', kind='sicd', rule='image segment NBPP agrees with ImageData.PixelType (subheader altered)', apply=m_nbpp),
    dict(name='sicd_icat', kind='sicd', rule='image segment ICAT is SAR', apply=m_image_field(b'SAR     ', b'VIS     ')),
    dict(name='sicd_isubcat_both_bands', kind='sicd', rule='image segment bands have ISUBCAT (I, Q) / (M, P) (both codes altered)',
         lean='mutation_both_bands_falsify_sicdSegOk', apply=m_isubcat(True)),
    dict(name='sicd_numrows_vs_pixels', kind='sicd', rule='ImageData.NumRows agrees with the pixel data (image segment rows)', apply=m_sicd_numrows),
    dict(name='sicd_corner_nan', kind='sicd', rule='GeoData/ImageCorners coordinates are finite (one NaN seeded; with and without ValidData)', apply=m_sicd_corner_nan),
    dict(name='sicd_xml_corner_nan_without_validdata', kind='sicd', rule='GeoData/ImageCorners coordinates are finite (ValidData absent)', xml_file=True,
         apply=m_sicd_xml_corner_nan_no_validdata),
    dict(name='sicd_chanindex_zero', kind='sicd', rule='RcvChanProc/ChanIndex values lie in [1, number of receive channels]', apply=m_sicd_chanindex_zero,
         applies=lambda p: b'<ChanIndex>1</ChanIndex>' in p['buf']),
    dict(name='sicd_ipp_set_start', kind='sicd', rule='Timeline/IPP/Set: IPPStart is the value of the set\'s IPPPoly at TStart (a rule inside an array entry)',
         apply=m_sicd_ipp_start, applies=lambda p: len(_sicd_ipp_sets(p)) > 0 and abs(int(_sicd_ipp_sets(p)[0].IPPStart)) < 10**6),
    dict(name='sicd_xml_required_element_removed', kind='sicd', rule='stand-alone XML validates against the schema', xml_file=True, apply=m_xml_file('sicd', 'CollectionInfo/CoreName')),
    dict(name='sidd_desshtn_mismatch', kind='sidd', rule='DES.DESSHTN agrees with the XML namespace', lean='mutation_desshtn_falsifies_desRule',
         apply=m_des_field(b'SIDD', b'urn:SIDD:2.0.0', b'urn:SIDD:1.0.0', 'sub')),
    dict(name='sidd_iid1', kind='sidd', rule='image segment IID1 has the form SIDDXXXYYY', apply=m_image_field(b'SIDD001001', b'SIDX001001')),
    dict(name='sidd_required_element_removed', kind='sidd', rule='XML validates against the schema / structure (required element removed)', variants=SIDD_REQ, apply=m_blank(b'SIDD')),
    dict(name='sidd_pixel_type_vs_nbpp', kind='sidd', rule='image segment NBPP agrees with Display.PixelType',
         applies=lambda p: p['case']['pixel_types'][0] == 'MONO16I', apply=m_sidd_pixel_type),
    dict(name='sidd_xml_required_element_removed', kind='sidd', rule='stand-alone XML validates against the schema', xml_file=True,
         apply=m_xml_file('sidd', 'ProductCreation/ProductName')),
]
# probes: rules of the NITF container that neither checker documents; reported, never a failure
NITF_PROBES = [
    dict(name='nitf_fl_plus1', what='file header FL larger than the file', lean='mutation_fl_falsifies_flRule'),
    dict(name='nitf_truncated', what='last byte of the file removed', lean='mutation_truncate_falsifies_flRule'),
    # the SICD checker words its band rule `b0 != X and b1 != Y`: one wrong code is accepted although the message documents the pair
    # (theorem sicd_band_rule_accepts_one_wrong_code); reported, see NOTES_C18X
    # root element and namespace of the SICD DES renamed: no SICD DES is left, check_file documents a ValueError for that (model: sicdScan = none)
    dict(name='sicd_des_root_renamed', what='root element and namespace of the SICD DES renamed (no SICD DES left)', lean='mutation_no_sicd_des_falsifies_sicdScan',
         apply=lambda p, r: (lambda so, sl, do, dl: p['buf'][:do] + p['buf'][do:do + dl].replace(b'<SICD', b'<SICX').replace(b'</SICD', b'</SICX').replace(b'"urn:SICD:', b'"urn:SICX:')
                             + p['buf'][do + dl:])(*des_of(p['buf'], b'SICD'))),
    dict(name='sicd_isubcat_one_band', what='ISUBCAT of the second band altered (first one correct)', lean='sicd_band_rule_accepts_one_wrong_code',
         apply=m_isubcat(False)),
]


# ======================================================================================================================
# part E: model requests for the file-level rules (independent parse of the bytes -> driver line)
# ======================================================================================================================
CPHD_RULES = [('check_pad_header_xml', 'header section terminator exists before XML'), ('check_pad_after_xml', 'comes after XML'),
              ('check_pad_after_support', 'PVP comes after Support'), ('check_pad_after_pvp', 'Signal comes after PVP'),
              ('check_signal_at_end_of_file', 'Signal is at the end of the file')]
STRUCT_CHECKS = ('check_file_type_header', 'check_header_keys', 'check_classification_and_release_info', 'check_pad_', 'check_signal_at_end_of_file',
                 'check_channel_signal_data', 'check_identifier_uniqueness', 'check_optional_pvps', 'check_polynomials', 'check_channel_dwell_exist')


def cphd_model_line(buf):
    try:
        kind, ver, kv, hend = cphdgen.parse_header(buf)
        g = lambda k: int(kv[k])
        so = kv.get('SUPPORT_BLOCK_BYTE_OFFSET', 'N')
        ss = kv.get('SUPPORT_BLOCK_SIZE', 'N')
        if (so == 'N') != (ss == 'N'):
            return None
        return (f'checker cphd {hend} {len(buf)} {g("XML_BLOCK_BYTE_OFFSET")} {g("XML_BLOCK_SIZE")} {so} {ss} {g("PVP_BLOCK_BYTE_OFFSET")} '
                f'{g("PVP_BLOCK_SIZE")} {g("SIGNAL_BLOCK_BYTE_OFFSET")} {g("SIGNAL_BLOCK_SIZE")}')
    except Exception:
        return None


def cphd_sigfits_line(buf):
    """channel table from the XML with ElementTree (not the checker's lxml path)"""
    import xml.etree.ElementTree as ET
    try:
        p = cphd_parts(buf)
        root = ET.fromstring(p['xml'])
        ns = root.tag[1:].split('}')[0]
        t = lambda el, name: el.find('{%s}%s' % (ns, name)).text
        data = root.find('{%s}Data' % ns)
        item = cphdgen.BPS[t(data, 'SignalArrayFormat')]
        chans = [(int(t(c, 'SignalArrayByteOffset')), int(t(c, 'NumVectors')) * int(t(c, 'NumSamples')) * item) for c in data.findall('{%s}Channel' % ns)]
        return f'checker sigfits {p["kv"]["SIGNAL_BLOCK_SIZE"]} ' + ','.join(f'{a}:{b}' for a, b in chans), len(chans)
    except Exception:
        return None, 0


def urn_table(kind):
    if kind == 'sicd':
        from sarpy.io.complex.sicd_schema import urn_mapping
    else:
        from sarpy.io.product.sidd_schema import urn_mapping
    return ','.join(f'{k}={v["version"]}' for k, v in urn_mapping.items())


def des_model_line(kind, buf):
    try:
        tag = b'SICD' if kind == 'sicd' else b'SIDD'
        so, sl, do, dl = des_of(buf, tag)
        f = nitfparse.parse_des_subheader(buf, so, sl)['DESSHF']
        shsv, shtn = f[133:143].decode().strip(), f[163:283].decode().strip()
        m = re.search(rb'xmlns="([^"]*)"', buf[do:do + 600])
        if not (shsv and shtn and m) or ' ' in shtn or ' ' in shsv:
            return None
        return f'checker des {urn_table(kind)} {shtn} {shsv} {m.group(1).decode()}'
    except Exception:
        return None


def fl_model_line(buf):
    try:
        h = nitfparse.parse_file_header(buf)
        segs = [(a, b) for key in ('image', 'graphic', 'text', 'des', 'res') for a, b in h['segments'].get(key, [])]
        return f'checker fl {h["FL"]} {len(buf)} {h["HL"]} ' + (','.join(f'{a}:{b}' for a, b in segs) or '-')
    except Exception:
        return None


def op_class(checks):
    flat = [o for ops in checks for o in ops]
    depth = mx = 0
    for ops in checks:
        depth = 0
        for o in ops:
            depth = depth + 1 if o[0] == 'p' else max(0, depth - 1) if o == 'c' else depth
            mx = max(mx, depth)
    return ('runner', 'r' in flat, 'p0' in flat, 'n0' in flat, 'w0' in flat, min(mx, 3), min(len(flat) // 4, 4))


# ======================================================================================================================
# run
# ======================================================================================================================
def check_product(kind, path):
    return run_cphd_checker(path) if kind == 'cphd' else run_nitf_checker(kind, path)


def mutate_and_check(m, prod, mseed, tmpdir, variant=None):
    """returns (outcome, info): outcome in flagged | unflagged | crash | n/a | mutation-error"""
    if 'applies' in m and not m['applies'](prod):
        return 'n/a', {}, None
    try:
        b = m['apply'](prod, random.Random(mseed), variant) if variant is not None else m['apply'](prod, random.Random(mseed))
    except Exception as e:
        return 'mutation-error', {'error': f'{type(e).__name__}: {e}'}, None
    kind = m.get('kind', 'cphd')
    path = os.path.join(tmpdir, 'mut.xml' if m.get('xml_file') else ('mut.cphd' if kind == 'cphd' else 'mut.nitf'))
    with open(path, 'wb') as f:
        f.write(b)
    r = check_product(kind, path)
    if r['crash']:
        return 'crash', {'crash': r['crash']}, (b, r)
    if kind == 'cphd':
        pool = r['warnings'] if m.get('level') == 'Warning' else r['errors']
        hit = [k for k in pool if any(k.startswith(e) for e in m['expect'])]
        if hit:
            return 'flagged', {'by': hit[:3]}, (b, r)
        return 'unflagged', {'other_failures': sorted(r['errors'])[:5], 'warnings': sorted(r['warnings'])[:5]}, (b, r)
    if r['verdict'] is False:
        return 'flagged', {'errors': r['errors'][:2]}, (b, r)
    return 'unflagged', {'verdict': r['verdict'], 'logged': r['errors'][:3]}, (b, r)


def run(tier):
    sarpy_guard()
    chk = Check('C18', tier)
    rng = chk.rng
    import time as _time
    _t, stage = [_time.time()], {}

    def mark(name):         # wall time per stage, reported in the evidence
        stage[name] = round(_time.time() - _t[0], 1)
        _t[0] = _time.time()
    gen_info = c18rules.regen()         # Gen/CheckerRules.lean from the current checker sources
    broken = chk.prove(['SarpyModel.Props.C18', 'SarpyModel.Drivers'], 'SarpyModel.Props.C18', 'Sarpy.Props.C18', REQUIRED, gen_info)
    b2, broken_rules = c18rules.prove(chk, gen_info)
    broken += b2
    mark('prove')
    quick = tier == 'quick'
    drv = Driver()                      # reference models (Spec only)
    gen_drv = Driver()                  # regenerated rules (Gen): kept apart so that a rule that no longer translates costs only this driver
    book = c18rules.RuleBook(drv, gen_drv)
    fails, disagreements, seen, stats = [], [], set(), {}
    bump = lambda k, n=1: stats.__setitem__(k, stats.get(k, 0) + n)
    stats['stage_seconds'] = stage
    samples = []
    logging.disable(logging.CRITICAL)

    # ---- A: runner
    runner_jobs = []
    for _ in range(400 if quick else 6000):
        checks = [rand_ops(rng) for _ in range(rng.randint(1, 7))]
        try:
            real, counts, src = canon_real(checks, rng)
        except Exception as e:
            fails.append({'kind': 'runner', 'key': 'crash:runner', 'msg': f'ConsistencyChecker.check() raised {type(e).__name__}: {e} (an exception inside a check must be recorded, not propagated)',
                          'case': {'checks': checks}})
            continue
        bump('toy_checkers')
        bump('toy_checks', len(checks))
        seen.add(op_class(checks))
        orc = [oracle_runner(o) for o in checks]
        # direct oracle on the implementation: bookkeeping as consistency.py documents it
        if [o[0] for o in orc] != real[:len(checks)] or len(real) != len(checks):
            fails.append({'kind': 'runner', 'key': 'runner-bookkeeping', 'msg': 'ConsistencyChecker bookkeeping differs from the documented need/want/precondition semantics: '
                          f'ops {spec_of(checks)} gave {real}, expected {[o[0] for o in orc]}', 'case': {'checks': checks, 'source': src}})
        want_counts = (sum(1 for o in orc if not o[2]), sum(1 for o in orc if o[0].endswith(':P')), sum(1 for o in orc if o[0].endswith(':S')))
        if counts != want_counts or sum(counts) != len(checks):
            fails.append({'kind': 'runner', 'key': 'runner-partition', 'msg': f'failures()/passes()/skips() sizes {counts} for {spec_of(checks)}, expected {want_counts}',
                          'case': {'checks': checks}})
        runner_jobs.append((checks, real, counts, drv.ask('checker run ' + spec_of(checks))))
    if runner_jobs:
        samples.append('checker run ' + spec_of(runner_jobs[0][0]))

    mark('runner')
    # ---- A2: histories of check() calls on one toy checker object, interleaved with changes of the checked state
    hist_jobs = []
    for _ in range(120 if quick else 2500):
        nck, nv = rng.randint(1, 5), rng.randint(2, 3)
        versions = [[rand_ops(rng) for _ in range(nck)] for _ in range(nv)]
        events = rand_history(rng, nck, nv)
        case = {'versions': versions, 'events': events}
        try:
            stores, fresh, src = run_toy_history(versions, events, random.Random(0))
        except Exception as e:
            fails.append({'kind': 'history', 'key': 'crash:runner-history', 'msg': f'a history of check() calls raised {type(e).__name__}: {e}', 'case': case})
            continue
        bump('toy_histories')
        bump('toy_history_calls', len(stores))
        seen.add(('history', len([e for e in events if e[0] == 'c']), any('~' in e for e in events), any(e.startswith('ce') for e in events), any(e.startswith('cp') for e in events)))
        for k, (a, b) in enumerate(zip(stores, fresh)):
            if (a == 'refused') != (b == 'refused') or (a != 'refused' and any(a.get(nm) != val for nm, val in b.items())):
                fails.append({'kind': 'history', 'key': 'history:runner-call-depends-on-earlier-calls',
                              'msg': f'check() call {k} of the history {"/".join(events)} on one checker object recorded {a}, a new checker on the same state with the same call records {b}',
                              'case': dict(case, call=k, source=src)})
                break
        hist_jobs.append((case, stores, drv.ask('chkspec hist ' + '/'.join(spec_of(v) for v in versions) + ' ' + '/'.join(events))))

    mark('toy_histories')
    # ---- B/C/D: products and mutants
    tmpdir = tempfile.mkdtemp(prefix='c18_', dir=os.environ.get('VERIF_SCRATCH', '/var/tmp'))
    rule_jobs = []      # (what, ask index, payload)
    mut_stats = {}

    def model_jobs(kind, buf, r, tag, truth=None):
        if kind == 'cphd' and truth and not r['crash']:
            # association of the /Data/Channel entries with the /Channel/Parameters nodes (by Identifier), observed through the FxC rule
            try:
                ca = c18rules.channel_assoc(cphd_parts(buf)['xml'], truth)
            except Exception:
                ca = None
            if ca:
                line, want, ids = ca
                got = [detail_passed(r['all'], 'check_channel_fxc_' + re.sub(r'\W', '_', cid), 'FxC is (max(fx2) + min(fx1)) / 2') for cid in ids]
                bump('channel_association_checks', len(ids))
                for cid, w, g in zip(ids, want, got):
                    if w is not None and g is not None and w != g:
                        fails.append({'kind': 'rule', 'key': 'rule:channel_association:' + ('rejects-valid' if w else 'accepts-invalid'),
                                      'msg': f'channel {cid}: the /Channel/Parameters node with Identifier {cid} carries {"its own" if w else "another channel\'s"} FxC, '
                                             f'but check_channel_fxc_{cid} recorded passed={g} (Data order {ids})', 'case': {'input': 'cphd-file', 'case': tag, 'recorded_in': 'check_channel_fxc_' + cid,
                                                                                                                   'rule': 'channel_association'}})
                rule_jobs.append(('perchan', drv.ask(line), (tag, want)))
        if kind == 'cphd':
            line = cphd_model_line(buf)
            if line and not r['crash']:
                rule_jobs.append(('cphd', drv.ask(line), (tag, [detail_passed(r['all'], c, t) for c, t in CPHD_RULES])))
            sl, nch = cphd_sigfits_line(buf)
            if sl and not r['crash']:
                got = [detail_passed(r['all'], k, 'Channel signal fits in signal block') for k in r['all'] if k.startswith('check_channel_signal_data')]
                if len(got) == nch and None not in got:
                    rule_jobs.append(('sigfits', drv.ask(sl), (tag, all(got))))
            if not r['crash']:
                obs, lobs = c18rules.cphd_file_observations(buf)
                book.add(obs, lobs, r['all'], {'input': 'cphd-file', 'case': tag})
        else:
            nitf_rule_jobs(kind, buf, r, tag)
            line = des_model_line(kind, buf)
            if line and not r['crash']:
                msg = any(re.search(r'DES\.DESSH(TN|SV)', e) for e in r.get('all_errors', r['errors']))
                rule_jobs.append(('des', drv.ask(line), (tag, r['verdict'], msg)))
            line = fl_model_line(buf)
            if line:
                rule_jobs.append(('fl', drv.ask(line), (tag, len(buf))))

    def nitf_rule_jobs(kind, buf, r, tag):
        """image-segment rules of the SICD / SIDD checkers: reference rule on independently parsed subheaders vs what was logged"""
        kinds = c18rules.nitf_des_kinds(buf)
        if kinds is not None and kind == 'sicd':
            n_sicd = sum(1 for k in kinds if k in ('sicd', 'oldsicd'))
            want = n_sicd == 1 and not any(k in ('sidd', 'oldsidd') for k in kinds)      # exactly one SICD DES, no SIDD DES
            refused = bool(r['crash']) and ('SICD DES' in r['crash'] or 'should be a SIDD file' in r['crash'])
            bump('des_scan_' + ('found' if want else 'refused'))
            seen.add(('des-scan', tuple(kinds)))
            if want == refused:
                fails.append({'kind': 'nitf-rule', 'key': 'rule:sicd_des_scan:' + ('rejects-valid' if want else 'accepts-invalid'),
                              'msg': f'DES scan of check_sicd_file: the data extensions are {kinds} (exactly one SICD DES: {want}) but the checker '
                                     f'{"raised " + r["crash"][:120] if refused else "went on"}', 'case': tag if 'kind' in tag or 'product' in tag else {'product': tag}})
            rule_jobs.append(('desscan', drv.ask('chkspec desscan ' + (','.join(kinds) or '-')), (tag, kinds, want)))
        if r['crash']:
            return
        nl = c18rules.nitf_image_lines(kind, buf)
        if nl is None:
            return
        logged = r.get('all_errors', r['errors'])
        if kind == 'sicd':
            img_err = any('image segment at index' in e for e in logged)
        else:
            img_err = any(re.search(r'image segment at index \d+ of \d+ has (PVTYPE|NBPP)', e) for e in logged)
        want = all(nl['oracle'])
        bump('nitf_image_rule_' + ('holds' if want else 'violated'))
        if want == img_err:
            fails.append({'kind': 'nitf-rule', 'key': f'rule:{kind}_image_segments:' + ('rejects-valid' if want else 'accepts-invalid'),
                          'msg': f'{kind} image-segment rule (ICAT / PVTYPE / NBPP / bands vs pixel type {nl["pixel_type"]}): the documented rule '
                                 f'{"holds" if want else "is violated"} on the parsed subheaders but the checker {"logged" if img_err else "did not log"} an image segment error',
                          'case': tag if 'kind' in tag or 'product' in tag else {'product': tag}})
        rule_jobs.append(('imgseg', [drv.ask(l) for l in nl['lines']], (tag, nl['oracle'], nl['lines'])))
        if nl['size_line']:
            size_msg = any('SICDReader construction failed' in e for e in logged)
            if not nl['size_oracle'] and want and r['verdict']:
                fails.append({'kind': 'nitf-rule', 'key': 'rule:sicd_size:accepts-invalid',
                              'msg': 'SICD ImageData.NumRows x NumCols disagree with the reassembled image segments but the checker accepts the file', 'case': tag})
            if nl['size_oracle'] and size_msg and 'mutation' not in tag:
                fails.append({'kind': 'nitf-rule', 'key': 'rule:sicd_size:rejects-valid',
                              'msg': 'SICD sizes agree with the image segments but SICDReader construction failed inside the checker', 'case': tag})
            bump('nitf_size_rule_' + ('holds' if nl['size_oracle'] else 'violated'))
            rule_jobs.append(('sizerule', drv.ask(nl['size_line']), (tag, nl['size_oracle'], nl['size_line'])))

    def fxc_truth(prod):
        if not prod['case'].get('consistent', True) or 'meta' not in prod:
            return None
        return {p.Identifier: p.FxC for p in prod['meta'].Channel.Parameters}

    def do_product(kind, prod, family):
        ext = 'cphd' if kind == 'cphd' else 'nitf'
        path = os.path.join(tmpdir, 'prod.' + ext)
        with open(path, 'wb') as f:
            f.write(prod['buf'])
        r = check_product(kind, path)
        bump('products_' + kind)
        seen.add(prod['cls'])
        if r['crash']:
            fails.append({'kind': 'product', 'key': f'crash:product:{kind}', 'msg': f'{kind} checker raised on a product sarpy wrote: {r["crash"]}', 'case': prod['case']})
        elif not r['verdict']:
            why = r['errors'] if kind != 'cphd' else {k: v[:2] for k, v in list(r['errors'].items())[:4]}
            fails.append({'kind': 'product', 'key': f'reject:{family}', 'msg': f'{kind} checker rejects a product sarpy wrote from valid metadata ({family}): {json.dumps(why)[:400]}',
                          'case': prod['case']})
        else:
            bump('accepted_' + kind)
            if kind == 'cphd':
                bump('cphd_products_with_warnings', 1 if r['warnings'] else 0)
                for w in r['warnings']:
                    stats.setdefault('cphd_warning_checks', set()).add(w)
        model_jobs(kind, prod['buf'], r, prod['case'], fxc_truth(prod) if kind == 'cphd' else None)
        return r

    def do_mutations(catalogue, prod, nitf_kind=None):
        for m0 in catalogue:
            if nitf_kind and m0['kind'] != nitf_kind:
                continue
            for variant in m0.get('variants', [None]):
                one_mutation(m0, variant, prod)

    def one_mutation(m, variant, prod):
        if True:
            mseed = rng.getrandbits(40)
            outcome, info, extra = mutate_and_check(m, prod, mseed, tmpdir, variant)
            full = m['name'] + (':' + variant if variant else '')
            mut_stats.setdefault(full, {}).setdefault(outcome, 0)
            mut_stats[full][outcome] += 1
            if outcome == 'n/a':
                return
            bump('mutants')
            seen.add((full,) + tuple(prod['cls'][:3]))
            case = {'product': prod['case'], 'mutation': m['name'], 'variant': variant, 'mutation_seed': mseed, 'rule': m['rule'], 'info': info}
            if outcome == 'mutation-error':
                disagreements.append({'msg': f'mutation {full} could not be applied: {info["error"]}', 'case': case})
            elif outcome == 'crash':
                fails.append({'kind': 'mutation', 'key': f'crash:{full}', 'msg': f'checker raised instead of returning a verdict on mutation {full} (rule: {m["rule"]}): {info["crash"]}', 'case': case})
            elif outcome == 'unflagged':
                fails.append({'kind': 'mutation', 'key': f'unflagged:{full}', 'msg': f'mutation {full} is not flagged (rule: {m["rule"]}); {json.dumps(info)[:300]}', 'case': case})
            if extra is not None and not m.get('xml_file'):
                model_jobs(m.get('kind', 'cphd'), extra[0], extra[1], case,
                           fxc_truth(prod) if m['name'] in ('cphd_channel_params_ids_swapped', 'cphd_fxc_wrong') else None)

    try:
        n = 12 if quick else 120
        for _ in range(n):
            # every third product: 2-3 channels differing in every checked parameter, /Data/Channel and /Channel/Parameters in different orders
            prod = make_cphd(rng.getrandbits(40), tmpdir, permute=(_ % 3 == 1))
            do_product('cphd', prod, 'cphd-permuted' if _ % 3 == 1 else 'cphd')
            if not quick or _ < 8:          # quick tier: the whole catalogue on 8 of the 12 products (3 of them permuted)
                do_mutations(CPHD_MUTATIONS, prod)
            if _ < (2 if quick else 12):
                # a history of check() calls on ONE checker object, interleaved with changes of the file and of the XML it holds
                steps = CPHD_HISTORY_STEPS if _ % 2 == 0 else [s_ for s_ in CPHD_HISTORY_STEPS if rng.random() < 0.8 or s_ == 'check']
                try:
                    bad, calls = cphd_history(prod, steps, tmpdir)
                except Exception as e:
                    bad, calls = None, 0
                    fails.append({'kind': 'history', 'key': 'crash:cphd-history', 'msg': f'a history of check() calls on one CphdConsistency object raised {type(e).__name__}: {e}',
                                  'case': {'product': prod['case'], 'steps': steps}})
                bump('cphd_histories')
                bump('cphd_history_calls', calls)
                seen.add(('cphd-history', tuple(steps)))
                if bad:
                    i, name, a, b = bad[0]
                    fails.append({'kind': 'history', 'key': 'history:cphd-call-depends-on-earlier-calls',
                                  'msg': f'CphdConsistency: after the steps {steps[:i + 1]} on one checker object, {name} holds {a}; a new checker on the same file and XML records {b} '
                                         f'({len(bad)} entries differ)', 'case': {'product': prod['case'], 'steps': steps, 'differing': bad[:10]}})
            if _ < 2:
                # probe (reported, never a failure): the file cut inside the PVP block - the constructor of the checker reads the PVP arrays
                # before any rule runs (same root cause as the listed finding crash:cphd_numvectors_plus1)
                kv = cphdgen.parse_header(prod['buf'])[2]
                path = os.path.join(tmpdir, 'probe.cphd')
                with open(path, 'wb') as f:
                    f.write(prod['buf'][:int(kv['PVP_BLOCK_BYTE_OFFSET']) + int(kv['PVP_BLOCK_SIZE']) - 1])
                rr = run_cphd_checker(path)
                key = 'crash' if rr['crash'] else ('flagged' if rr['errors'] else 'unflagged')
                stats.setdefault('probes', {}).setdefault('cphd_truncated_into_pvp', {}).setdefault(key, 0)
                stats['probes']['cphd_truncated_into_pvp'][key] += 1
        mark('cphd_products_mutants_histories')
        # structural rules on products whose PVP content is arbitrary (content rules do not apply)
        for _ in range(10 if quick else 100):
            prod = make_cphd(rng.getrandbits(40), tmpdir, consistent=False)
            path = os.path.join(tmpdir, 'prod.cphd')
            with open(path, 'wb') as f:
                f.write(prod['buf'])
            r = run_cphd_checker(path)
            bump('products_cphd_structural')
            seen.add(prod['cls'])
            if r['crash']:
                fails.append({'kind': 'product', 'key': 'crash:product:cphd', 'msg': f'cphd checker raised on a product sarpy wrote: {r["crash"]}', 'case': prod['case']})
            else:
                bad = {k: v for k, v in r['errors'].items() if k.startswith(STRUCT_CHECKS) or k == 'check_against_schema'}
                if bad:
                    fails.append({'kind': 'product', 'key': 'reject:cphd-structural', 'msg': f'cphd checker flags a structural rule on a file sarpy wrote: {json.dumps(bad)[:400]}', 'case': prod['case']})
                model_jobs('cphd', prod['buf'], r, prod['case'])
        mark('cphd_structural')
        # ---- (a) the end of the XML block on every residue mod 64: one template per sweep, 64 consecutive lengths of the free text
        def sweep(with_support, label):
            sseed, base = rng.getrandbits(40), rng.randint(0, 30)
            pads = set()
            for k in range(64):
                prod = make_cphd(sseed, tmpdir, True, base + k, [(4, 4)] if with_support else [], 8 if with_support else None)
                kv = cphdgen.parse_header(prod['buf'])[2]
                pad = -(int(kv['XML_BLOCK_BYTE_OFFSET']) + int(kv['XML_BLOCK_SIZE']) + 2) % 64
                pads.add(pad)
                prod['case']['pad_after_xml'] = pad
                if with_support or not quick or pad in (0, 1, 63) or k % 4 == 0:
                    do_product('cphd', prod, 'cphd-sweep')
                    continue
                # quick tier, second sweep: the header / structure checks only on three files out of four (the content rules do not see the pad)
                path = os.path.join(tmpdir, 'prod.cphd')
                with open(path, 'wb') as f:
                    f.write(prod['buf'])
                allr, crash = c18rules.run_selected(path, c18rules.HEADER_CHECKS + c18rules.XML_CHECKS)
                bump('products_cphd_header_only')
                bad = sorted(k2 for k2, v in allr.items() if any(d['severity'] == 'Error' and not d['passed'] for d in v['details']))
                if crash or bad:
                    fails.append({'kind': 'product', 'key': 'reject:cphd-sweep', 'msg': f'cphd checker rejects a product sarpy wrote from valid metadata (cphd-sweep, pad {pad}): {crash or bad}',
                                  'case': prod['case']})
                else:
                    obs, lobs = c18rules.cphd_file_observations(prod['buf'])
                    book.add(obs, lobs, allr, {'input': 'cphd-file', 'case': prod['case']})
            seen.add(('sweep', with_support, len(pads)))
            stats[f'sweep_{label}_pads'] = len(pads)
            bump('sweep_files', 64)
        for _ in range(1 if quick else 3):
            sweep(True, 'support')
            sweep(False, 'nosupport')

        mark('sweeps')
        # ---- (b) header patches at the boundary of every block-order rule (just holds / just fails), on real products
        def boundary(prod):
            for rule, patch in c18rules.boundary_patches(prod['buf']):
                try:
                    b = cphd_patch_header(prod['buf'], remove=(patch['-'],)) if '-' in patch else cphd_patch_header(prod['buf'], patch)
                except ValueError:
                    continue
                path = os.path.join(tmpdir, 'bnd.cphd')
                with open(path, 'wb') as f:
                    f.write(b)
                allr, crash = c18rules.run_selected(path, c18rules.HEADER_CHECKS)
                bump('boundary_files')
                if crash:
                    bump('boundary_constructor_raised')
                    continue
                obs, lobs = c18rules.cphd_file_observations(b)
                book.add(obs, lobs, allr, {'input': 'header-patch', 'product': prod['case'], 'patch': patch, 'aimed_at': rule})
                seen.add(('boundary', rule, 'SUPPORT_BLOCK_BYTE_OFFSET' in cphdgen.parse_header(b)[2]))
        for i in range(3 if quick else 30):
            boundary(make_cphd(rng.getrandbits(40), tmpdir, False, None, [(2, 2)] if i % 2 == 0 else []))

        # ---- (c) XML documents edited around every modelled rule, through CphdConsistency.from_file on the XML file
        def xml_cases(n, ops=None):
            for _ in range(n):
                template = rng.choice(c18rules.TEMPLATES)
                edits = [rng.choice(ops or c18rules.EDITS) for _ in range(rng.choice([0, 1, 1, 2, 3]))]
                eseed = rng.getrandbits(40)
                xml, done = c18rules.edited_xml(template, edits, eseed)
                path = os.path.join(tmpdir, 'case.xml')
                with open(path, 'wb') as f:
                    f.write(xml)
                allr, crash = c18rules.run_selected(path, c18rules.XML_CHECKS)
                bump('xml_cases')
                case = {'input': 'xml-document', 'template': template, 'edits': edits, 'edit_seed': eseed, 'applied': done}
                if crash:
                    bump('xml_constructor_raised')
                    if not done:
                        fails.append({'kind': 'rule', 'key': 'crash:xml-template', 'msg': f'CphdConsistency.from_file raised on the unedited document {template}: {crash}', 'case': case})
                    continue
                obs, lobs, _ = c18rules.xml_observations(xml)
                book.add(obs, lobs, allr, case)
                seen.add(('xml', template, tuple(sorted(set(e.split(':')[0] for e in done)))))
        xml_cases(110 if quick else 3000)
        # the want "XML appears early" cannot be reached with a real file (XML offset 2^28): header dictionaries given to the constructor
        from lxml import etree
        from sarpy.consistency.cphd_consistency import CphdConsistency
        for v in (2 ** 28 - 1, 2 ** 28, 2 ** 28 + 64):
            cc = CphdConsistency(etree.fromstring(c18rules.template_bytes(c18rules.TEMPLATES[0])), None, {'XML_BLOCK_BYTE_OFFSET': v}, None)
            cc.check(['check_pad_header_xml'])
            book.add([dict(rule='xml_early', ints=[v], bools=[], check='check_pad_header_xml', text='XML appears early in the file')], [], cc.all(),
                     {'input': 'header-dict', 'header': {'XML_BLOCK_BYTE_OFFSET': v}})

        mark('boundary_and_xml_cases')
        # ---- search: an obligation broke or a rule-level comparison failed -> widen around it
        if broken_rules or book.fails:
            implicated = broken_rules | {f['key'].split(':')[1] for f in book.fails}
            stats['search_widened_for'] = sorted(implicated)
            if implicated & c18rules.HEADER_RULES:
                sweep(True, 'support')
                sweep(False, 'nosupport')
                for i in range(6):
                    boundary(make_cphd(rng.getrandbits(40), tmpdir, False, None, [(2, 2)] if i % 2 == 0 else []))
            if implicated - c18rules.HEADER_RULES - {'sicd_pixels', 'sidd_pixels', 'sicd_urns', 'sidd_urns'} or implicated & {'severities', 'guards'}:
                aimed = sorted({e for rl in implicated for k, v in c18rules.RULE_EDITS.items() if rl.startswith(k) for e in v})
                xml_cases(300, aimed or None)
                xml_cases(100)

        plan = [('full-pfa', 3, 0), ('full-rma', 3, 0), ('chip-pfa-novd', 8, 4), ('chip-pfa', 2, 0), ('chip-rma', 2, 0)] if quick else \
               [('full-pfa', 6, 0), ('full-rma', 6, 0), ('chip-pfa-novd', 60, 30), ('chip-pfa', 10, 0), ('chip-rma', 10, 0)]
        EXTRA = [None, ['user'], ['xml', 'user'], ['user', 'xml'], ['xml'], None]
        for family, count, nmut in plan:
            for i in range(count):
                # additional DES segments in front of the SICD DES (every second product, mutated ones included); for the small
                # products also a random subset of the radiometric polynomials and of the other optional parts
                small = family.startswith('chip')
                sub = [n for n in RADIOMETRIC_POLYS if rng.random() < 0.5] or [rng.choice(RADIOMETRIC_POLYS)]
                prod = make_sicd(rng.getrandbits(40), family, tmpdir, EXTRA[(i + 1) % len(EXTRA)] if small else (['user'] if i == 1 else None),
                                 sub if small and i % 2 == 1 else None, rng.sample(SICD_OPTIONAL, rng.randint(0, 2)) if small and i % 3 == 2 else ())
                r = do_product('sicd', prod, 'sicd:' + family)
                if i < nmut and not r['crash'] and r['verdict']:
                    do_mutations(NITF_MUTATIONS, prod, 'sicd')
                    for pr in NITF_PROBES:
                        b = prod['buf']
                        if 'apply' in pr:
                            try:
                                b = pr['apply'](prod, rng)
                            except ValueError:
                                continue
                        elif pr['name'] == 'nitf_truncated':
                            b = b[:-1]
                        else:
                            h = nitfparse.parse_file_header(b)
                            pos = 9 + 2 + 4 + 10 + 14 + 80 + nitfparse.SECURITY + 5 + 5 + 1 + 3 + 24 + 18
                            assert int(b[pos:pos + 12]) == h['FL']
                            b = b[:pos] + b'%012d' % (h['FL'] + 1) + b[pos + 12:]
                        path = os.path.join(tmpdir, 'probe.nitf')
                        with open(path, 'wb') as f:
                            f.write(b)
                        rr = run_nitf_checker('sicd', path)
                        key = 'crash' if rr['crash'] else ('flagged' if rr['verdict'] is False else 'unflagged')
                        stats.setdefault('probes', {}).setdefault(pr['name'], {}).setdefault(key, 0)
                        stats['probes'][pr['name']][key] += 1
                        line = fl_model_line(b)
                        if line and 'apply' not in pr:
                            rule_jobs.append(('fl-mutant', drv.ask(line), (pr['name'], len(b))))
                        if 'apply' in pr:
                            rr.setdefault('errors', [])
                            nitf_rule_jobs('sicd', b, rr, {'probe': pr['name'], 'product': prod['case']})
        mark('sicd_products')
        # ---- SICD documents with every subset of the optional parts the validation rules branch on (a crash is a violation)
        def sicd_document(base, radiometric, noise, drops):
            meta, done = sicd_variant(base, radiometric, noise, drops)
            case = {'kind': 'sicd-xml', 'base': base, 'radiometric': radiometric, 'noise': noise, 'drops': list(drops), 'dropped': done}
            path = os.path.join(tmpdir, 'variant.xml')
            with open(path, 'wb') as f:
                f.write(meta.to_xml_bytes())
            r = run_nitf_checker('sicd', path)
            bump('products_sicd_xml')
            seen.add(('sicd-xml', base, tuple(radiometric or ()), tuple(done)))
            what = 'radiometric subset ' + '+'.join(radiometric) if radiometric is not None else 'optional parts removed: ' + ', '.join(done)
            if r['crash']:
                fails.append({'kind': 'product', 'key': 'crash:product:sicd-xml', 'msg': f'sicd checker raised on a valid SICD document ({what}): {r["crash"]}', 'case': case})
            elif not r['verdict']:
                fails.append({'kind': 'product', 'key': 'reject:sicd-xml:' + ('radiometric' if radiometric is not None else 'optional'),
                              'msg': f'sicd checker rejects a valid SICD document ({base} example, {what}): {json.dumps(r["errors"])[:400]}', 'case': case})
            else:
                bump('accepted_sicd_xml')
        for base in ('pfa', 'rma'):
            for k in range(1, 16):          # all 15 non-empty subsets of the four scale-factor polynomials, with / without NoiseLevel
                sicd_document(base, [n for j, n in enumerate(RADIOMETRIC_POLYS) if k >> j & 1], k % 2 == 0, ())
            for path in SICD_OPTIONAL:      # every optional part removed alone
                sicd_document(base, None, True, [path])
        for _ in range(20 if quick else 600):
            sub = [n for n in RADIOMETRIC_POLYS if rng.random() < 0.5]
            sicd_document(rng.choice(['pfa', 'rma']), sub or None, rng.random() < 0.5, rng.sample(SICD_OPTIONAL, rng.randint(1, 6)))

        mark('sicd_documents')
        nsidd, msidd = (8, 4) if quick else (80, 40)
        done = 0
        for i in range(nsidd):
            prod = make_sidd(rng.getrandbits(40), tmpdir, 'MONO16I' if i == 0 else None, EXTRA[i % len(EXTRA)])
            r = do_product('sidd', prod, 'sidd')
            if done < msidd and not r['crash'] and r['verdict']:
                done += 1
                do_mutations(NITF_MUTATIONS, prod, 'sidd')
    finally:
        shutil.rmtree(tmpdir, ignore_errors=True)
        logging.disable(logging.NOTSET)

    mark('sidd_products')
    # ---- correspondence with the model
    ncorr = 0
    try:
        ans = drv.run()
    except Infra as e:
        ans = None
        broken.append('model driver does not build/run: ' + str(e)[:300])
    try:
        gen_ans = gen_drv.run()
    except Infra as e:
        gen_ans = None
        broken.append('driver of the regenerated rules does not build/run: ' + str(e)[:300])
    book.compare(ans, gen_ans)
    fails += book.fails
    disagreements += book.disagreements
    if ans is not None:
        for case, stores, i in hist_jobs:
            ncorr += 1
            got = []
            for part in ans[i].split('|'):
                got.append('refused' if part == 'refused' else ({} if part == '-' else dict(e.split('=') for e in part.split(';'))))
            if got != stores:
                disagreements.append({'msg': f'history of check() calls {"/".join(case["events"])}: model {ans[i][:200]} vs implementation {stores}', 'case': case})
        for checks, real, counts, i in runner_jobs:
            ncorr += 1
            t = ans[i].split(' ')
            orc = [oracle_runner(o) for o in checks]
            if t[0].split(';') != real or tuple(int(x) for x in t[3:6]) != counts:
                disagreements.append({'msg': f'runner: model {ans[i]} vs implementation {";".join(real)} {counts} for {spec_of(checks)}', 'case': {'checks': checks}})
            elif t[1] != ('1' if all(o[1] for o in orc) else '0') or t[2] != ('1' if all(o[2] for o in orc) else '0'):
                disagreements.append({'msg': f'runner verdict: model passes/strict {t[1:3]} for {spec_of(checks)}', 'case': {'checks': checks}})
        for what, i, payload in rule_jobs:
            ncorr += 1
            t = ans[i].split() if isinstance(i, int) else []
            if what == 'cphd':
                tag, real = payload
                for (cname, text), mv, rv in zip(CPHD_RULES, t, real):
                    if rv is not None and (mv == '1') != rv:
                        disagreements.append({'msg': f'CPHD rule "{text}": model {mv}, checker recorded {rv}', 'case': tag})
            elif what == 'sigfits':
                tag, real = payload
                if (t[0] == '1') != real:
                    disagreements.append({'msg': f'signal-fits rule: model {t[0]}, checker recorded {real}', 'case': tag})
            elif what == 'des':
                tag, verdict, msg = payload
                if (t[0] == '0') != msg or (t[0] == '0' and verdict):
                    disagreements.append({'msg': f'DES rule: model {t[0]}, checker verdict {verdict}, DESSHTN/DESSHSV error logged: {msg}', 'case': tag})
            elif what == 'fl':
                tag, length = payload
                if int(t[0]) != length or int(t[1]) != length or t[2] != '1' or t[3] != '1':
                    fails.append({'kind': 'product', 'key': 'nitf-fl', 'msg': f'NITF written by sarpy: FL / declared sizes do not give the file length {length}: model {ans[i]}', 'case': tag})
            elif what == 'imgseg':
                tag, orc, lines = payload
                for j, w, l in zip(i, orc, lines):
                    if (ans[j] == '1') != w:
                        disagreements.append({'msg': f'image-segment rule: reference gives {ans[j]} for `{l}`, the documented rule gives {w}', 'case': tag})
            elif what == 'perchan':
                tag, want = payload
                got = [None if x == 'N' else x == '1' for x in (t[0].split(',') if t and t[0] != '-' else [])]
                if got != want:
                    disagreements.append({'msg': f'channel association: reference gives {t}, lookup by Identifier gives {want}', 'case': tag})
            elif what == 'desscan':
                tag, kinds, w = payload
                idx = [j for j, k in enumerate(kinds) if k in ('sicd', 'oldsicd')]
                if (t[0] != 'N') != w or (w and int(t[0]) != idx[0]):
                    disagreements.append({'msg': f'DES scan: reference gives {t[0]} for {kinds}, the documented rule gives {idx if w else "refusal"}', 'case': tag})
            elif what == 'sizerule':
                tag, w, l = payload
                if (t[0] == '1') != w:
                    disagreements.append({'msg': f'size rule: reference gives {t[0]} for `{l}`, the documented rule gives {w}', 'case': tag})
            elif what == 'fl-mutant':
                if t[2] != '0':
                    disagreements.append({'msg': f'FL rule not falsified on {payload[0]}: {ans[i]}', 'case': payload[0]})

    mark('drivers_and_comparison')
    catalogue = [m['name'] for m in CPHD_MUTATIONS + NITF_MUTATIONS]
    never = [n_ for n_ in catalogue if not any(k in st for name, st in mut_stats.items() if name.split(':')[0] == n_ for k in ('flagged', 'unflagged', 'crash'))]
    if never:
        chk.notes.append('mutations never applicable in this run: ' + ', '.join(never))
    stats['cphd_warning_checks'] = sorted(stats.get('cphd_warning_checks', []))
    evaluations = stats.get('toy_checks', 0) + sum(v for k, v in stats.items() if k.startswith('products_') and isinstance(v, int)) + stats.get('mutants', 0) + len(rule_jobs) + \
        stats.get('boundary_files', 0) + stats.get('xml_cases', 0)
    stats['rule_comparisons'] = book.n
    stats['rule_truth_values_seen'] = book.counts
    chk.coverage.update({
        'evaluations': evaluations, 'distinct_nontrivial': len(seen),
        'rule': 'runner: toy ConsistencyChecker subclasses compiled from random op lists (need/want/precondition blocks nested up to the list length, dedents, '
                'raising steps in 5 syntactic forms), 1-7 checks per class; products: physically self-consistent monostatic CPHD 1.1.0 (1-3 channels x CI2/CI4/CF8 x '
                'AmpSF x 0-2 support arrays x one-call / piecewise writes), CPHD with arbitrary PVP content (structural rules only), SICD from the two example '
                'documents (full frame; sub-images from SICDType.create_subset_structure) x 3 pixel types x 1-3 image segments, SIDD (1-2 products x MONO8I/MONO16I/RGB24I '
                'x with/without SICD DES x segmentation); SICD / SIDD files with additional DES segments (user-defined binary DES, XML_DATA_CONTENT DES with another '
                'document) in front of the SICD / SIDD DES, mutated like the others; SICD documents with every non-empty subset of the four radiometric scale-factor '
                'polynomials (derived by sarpy), every listed optional part removed alone and random subsets of them; every applicable mutation of the catalogue on the products; two residue sweeps (64 consecutive '
                'lengths of CollectorName, with / without support arrays: every pad 0..63 after the XML block; the sweep with support arrays also has pad 0 in '
                'front of the PVP and SIGNAL blocks); header patches at the boundary of each block-order rule; CPHD XML documents (4 templates of tests/data) '
                'with 0-3 edits drawn from 16 rule-directed edit kinds; distinct = op-shape classes + product classes + (mutation, product class) pairs + '
                '(sweep, pads) + (boundary rule, support) + (template, edit kinds)',
        'catalogue_size': len(catalogue), 'catalogue': {m['name']: {'rule': m['rule'], 'lean': m.get('lean')} for m in CPHD_MUTATIONS + NITF_MUTATIONS},
        'mutation_outcomes': mut_stats, 'samples': samples + [j for j in [cphd_model_line(b'')] if j],
        'stats': stats, 'traces_validated_against_impl': ncorr, 'disagreements_checked': len(disagreements),
    })
    chk.assumptions += [
        'modelled content rules of cphd_consistency.py: the block-order / size / count / identifier / reference / polygon-index / polynomial / optional-parameter / box-ordering '
        'rules listed in Spec/CheckerRules.lean (18 of them regenerated from the source by translate/gen_checker.py and bridged by theorem, the list-valued ones hand-modelled '
        'and tied by correspondence); NOT modelled: every rule that compares floating-point PVP / geometry content with a tolerance (con.Approx), shapely polygon predicates, '
        'the networkx identifier graph, schema validation, and validation_checks.py (SICD structure) - those are exercised differentially only',
        'translated ordering rules on coordinates (X1Y1 < X2Y2) are stated over Int: finite doubles are order-embedded by a common power-of-two scale; version strings by an injective coding',
        'the translator slices the statements a rule depends on and replaces the expressions that read the file / XML by parameters (exact source text); that those expressions read '
        'the right field is checked by the correspondence on independently parsed files, not by the bridge',
        'a check method is modelled as a flat op list with block markers; Python control flow inside a check (loops, helper calls) is outside the model; the translation op list -> source is the harness\'s',
        '"accepted" for CPHD means no failed Error-level item (need / exception); failed wants (recommendations such as ImageGrid) are counted in stats, and make failures() non-empty (theorem want_failure_clears_flag)',
        'consistent CPHD products use the minimal 1.1.0 monostatic template only; geometry is computed by the harness from the CPHD 6.5 definitions',
        'SICD / SIDD checkers are plain functions (no ConsistencyChecker): their DES rule, the image-segment rule (ICAT / PVTYPE / NBPP / band codes vs pixel type; tables regenerated '
        'from checker and writer sources) and the size rule behind SICDReader construction are modelled; the NITF FL rule is modelled and tied to the writer, neither checker documents it (probes reported, never a failure)',
        'lxml schema validation, shapely, numpy memmap and the file system are trusted',
    ]
    chk.coverage['level_note'] = ('proof of the runner semantics, of the file-level rules and of the arithmetic / structural content rules of the CPHD checker '
                                  '(translated and bridged, or hand-modelled); floating-point / geometric content rules and validation_checks.py differential only (partial)')
    by_key = {}
    for f in sorted(fails, key=lambda f: 'mutation' in json.dumps(f.get('case', {}), default=str)):     # plain inputs before mutants
        by_key.setdefault(f.get('key') or f['msg'][:60], []).append(f)
    chk.coverage['failing_inputs'] = len(fails)
    chk.coverage['failure_keys'] = {k: len(v) for k, v in by_key.items()}
    unknown = [(k, v) for k, v in by_key.items() if not chk.known(k)]
    # a sarpy-written file that is rejected first, then single rules, then the rest
    unknown.sort(key=lambda kv: (0 if kv[0].startswith('reject:') else 1 if kv[0].startswith('rule:') else 2))
    for k, v in unknown[:5]:
        chk.violation(v[0]['msg'], {'key': k, 'occurrences': len(v), 'case': v[0], 'broken_obligations': broken[:10],
                                    'replay_cmd': './check C18 --replay <this file>'}, True)
    if len(unknown) > 5:
        chk.notes.append(f'{len(unknown)} distinct failure keys, first 5 reported: ' + ', '.join(k for k, _ in unknown))
    if not unknown and (broken or disagreements):
        chk.violation('proof obligation or correspondence no longer checks: ' + '; '.join(broken[:3] + [d['msg'][:200] for d in disagreements[:2]]),
                      {'broken_obligations': broken, 'disagreements': disagreements[:10]}, False)
    elif disagreements or broken:
        chk.notes.append('also: ' + '; '.join(broken[:3] + [d['msg'][:200] for d in disagreements[:3]]))
    return chk.finish()


def replay_rule(f, case, tmpdir):
    """rule-level failing input: rebuild the input, run the real checker alone, print what it recorded for the rule"""
    inp = case['input']
    if inp == 'header-dict':
        from lxml import etree
        from sarpy.consistency.cphd_consistency import CphdConsistency
        cc = CphdConsistency(etree.fromstring(c18rules.template_bytes(c18rules.TEMPLATES[0])), None, case['header'], None)
        cc.check(['check_pad_header_xml'])
        allr = cc.all()
    elif inp == 'xml-document':
        xml, done = c18rules.edited_xml(case['template'], case['edits'], case['edit_seed'])
        out = os.path.join(tmpdir, 'replay.xml')
        open(out, 'wb').write(xml)
        print('edits applied:', done)
        allr, crash = c18rules.run_selected(out, c18rules.XML_CHECKS)
        print('constructor:', crash)
    else:
        inner = case.get('case', case)
        pc = inner.get('product', inner)
        prod = remake_cphd(pc, tmpdir)
        buf = prod['buf']
        if inp == 'header-patch':
            buf = cphd_patch_header(buf, remove=(case['patch']['-'],)) if '-' in case['patch'] else cphd_patch_header(buf, case['patch'])
            print('header patch:', case['patch'])
        elif 'mutation' in inner:
            m = [x for x in CPHD_MUTATIONS if x['name'] == inner['mutation']][0]
            buf = m['apply'](prod, random.Random(inner['mutation_seed']), inner['variant']) if inner.get('variant') else m['apply'](prod, random.Random(inner['mutation_seed']))
            print('mutation', m['name'])
        out = os.path.join(tmpdir, 'replay.cphd')
        open(out, 'wb').write(buf)
        print('header:', cphdgen.parse_header(buf)[2], 'file length', len(buf))
        allr, crash = c18rules.run_selected(out, c18rules.HEADER_CHECKS + c18rules.XML_CHECKS)
        print('constructor:', crash)
    chk_name = case.get('recorded_in')
    print('rule:', case.get('rule'), 'inputs:', case.get('inputs', case.get('line')))
    print('recorded by', chk_name, ':', json.dumps([(d['severity'], d['passed'], d['details'][:100]) for d in allr.get(chk_name, {}).get('details', [])])[:1500])
    return 1


def replay(path):
    """re-creates the product (and mutant) of a replay file from its seeds and runs the real checker alone"""
    sarpy_guard()
    doc = json.load(open(path))
    f = doc['case']
    case = f['case']
    print(json.dumps({k: v for k, v in f.items() if k != 'case'})[:800])
    tmpdir = tempfile.mkdtemp(prefix='c18r_', dir=os.environ.get('VERIF_SCRATCH', '/var/tmp'))
    logging.disable(logging.CRITICAL)
    try:
        if f['kind'] == 'history' and 'versions' in case:
            stores, fresh, src = run_toy_history(case['versions'], case['events'], random.Random(0))
            print(src)
            print('events:', case['events'])
            for k, (a, b) in enumerate(zip(stores, fresh)):
                print(f'call {k}: one object through the history: {a}\n        new checker, same state, same call: {b}')
            return 1
        if f['kind'] == 'history':
            prod = remake_cphd(case['product'], tmpdir)
            bad, calls = cphd_history(prod, case['steps'], tmpdir)
            print('steps:', case['steps'])
            print('entries that differ from a new checker on the same state (step, check, history object, new checker):')
            for row in bad[:20]:
                print('  ', row)
            return 1
        if f['kind'] == 'runner':
            real, counts, src = canon_real(case['checks'], random.Random(0))
            print(src)
            print('implementation:', real, counts, ' expected:', [oracle_runner(o)[0] for o in case['checks']])
            return 1
        if f['kind'] in ('rule', 'nitf-rule') and case.get('input') in ('xml-document', 'header-dict', 'header-patch', 'cphd-file'):
            return replay_rule(f, case, tmpdir)
        pc = case.get('product', case)
        if pc['kind'] == 'sicd-xml':
            meta, done = sicd_variant(pc['base'], pc['radiometric'], pc['noise'], pc['drops'])
            out = os.path.join(tmpdir, 'replay.xml')
            with open(out, 'wb') as fh:
                fh.write(meta.to_xml_bytes())
            print('optional parts removed:', done, ' radiometric polynomials kept:', pc['radiometric'])
            print(json.dumps(run_nitf_checker('sicd', out), default=str)[:3000])
            return 1
        if pc['kind'] == 'cphd':
            prod = remake_cphd(pc, tmpdir)
        elif pc['kind'] == 'sicd':
            prod = make_sicd(pc['seed'], pc['family'], tmpdir, pc.get('extra_des'), pc.get('radiometric'), pc.get('drops', ()))
        else:
            prod = make_sidd(pc['seed'], tmpdir, pc.get('force_first'), pc.get('extra_des'))
        kind = pc['kind']
        buf, ext = prod['buf'], ('cphd' if kind == 'cphd' else 'nitf')
        if 'mutation' in case:
            m = [x for x in CPHD_MUTATIONS + NITF_MUTATIONS if x['name'] == case['mutation']][0]
            buf = m['apply'](prod, random.Random(case['mutation_seed']), case['variant']) if case.get('variant') else m['apply'](prod, random.Random(case['mutation_seed']))
            ext = 'xml' if m.get('xml_file') else ext
            print('mutation', m['name'], '- rule:', m['rule'])
        out = os.path.join(tmpdir, 'replay.' + ext)
        with open(out, 'wb') as fh:
            fh.write(buf)
        r = check_product(kind, out)
        r.pop('all', None)
        print(json.dumps(r, default=str)[:3000])
    finally:
        shutil.rmtree(tmpdir, ignore_errors=True)
        logging.disable(logging.NOTSET)
    return 1
