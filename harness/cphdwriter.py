"""Op-history correspondence between the Lean writer machine (Spec.CphdWriter) and the real CPHDWriter1 / CRSDWriter1.

Shared by harness/c09.py (CPHD) and harness/c11.py (CRSD).

One *history* = metadata + a target (BytesIO / caller-opened real file, both behind a logging proxy; or a path) + a list of operations
    P i      write_pvp_array(channel i)            (sometimes with the wrong number of vectors, or a bad index)
    S j      write_support_array(array j)
    G i a b  write / write_raw of the full rows a..b of channel i (formatted or raw, channel by name or integer)
    F        flush()
    C        close()
in any order, with repeats, premature close and use after close.  Observed on the implementation: which calls raise (any exception
class = `refused`), every write through the file object as (offset, length) (the proxy), what close logs through
`verify_all_written`, the `item_written` / `item_bytes` / `_pixels_written` / `_can_write_regular_data` state afterwards, the position of
the file object, and the bytes of the file.  The same history is replayed by the Lean machine on provenance cells (`cphd wrun`); its
image is expanded with the real data and compared byte for byte with the file.

Independently of the model, `oracle()` states the writer clauses of the property directly on the observations (header first and once,
no region written twice through the file object, refused calls leave the file alone, accepted data is in the file at the offset the
independently parsed header + metadata give, the finished file reopens with every array equal).
"""
import io
import logging
import os
import random
import re

import numpy

import cphdgen
import crsdgen

LOGGER = 'sarpy.io.phase_history.cphd'     # CRSDWritingDetails inherits verify_all_written from this module
K_SEPARATOR = 'header-string-with-separator-unreadable'
K_AMPSF = 'refused-pvp-rewrite-replaces-ampsf'
K_LINEBREAK = 'header-string-with-line-break-unreadable'
K_HETERO = 'support-array-heterogeneous-element-format-refused'

# theorems of lean/SarpyModel/Props/C09W.lean (namespace Sarpy.Props.C09) about Spec.CphdWriter
REQUIRED_W = [
    # C09W.lean: single steps, the file-object log over all histories, close
    'write_after_close_refused', 'close_idempotent', 'run_closed', 'refused_keeps_file', 'rewrite_pvp_refused_mem', 'rewrite_sup_refused_mem',
    'rewrite_pvp_real_overwrites', 'inv1_init', 'inv1_step', 'inv1_run', 'fo_log_shape', 'flush_delivers', 'close_delivers',
    'close_delivers_signal_mem', 'close_report_exact', 'close_report_mem_no_signal', 'close_report_unpopulated',
    # C09Image.lean: the file image over good histories
    'rdW_append_not_covered', 'rdW_items_covered', 'cellOf_mark', 'inv2_init', 'inv2_putData', 'inv2_putChunk', 'inv2_snapPhase', 'inv2_hdrPhase',
    'inv2_itemsPhase', 'inv2_flushCore', 'inv2_step', 'inv2_run', 'closedOk_run', 'final_image', 'complete_image', 'order_chunking_independent',
    # C09Wf.lean: layout => well-formed configuration; the no-rewrite hypothesis is needed
    'packed_ranges_lower', 'packed_ranges_ordered', 'wf_of_layout', 'rewrite_counter_example',
    # C09Amp.lean: which AmpSF a formatted chunk is encoded with
    'writePvp_out', 'amp_after_accepted_pvp', 'amp_unchanged', 'chunk_scaled_by_current_amp', 'amp_is_last_accepted',
    'formatted_chunk_uses_last_accepted_pvp',
    # order of effects: the recorded bytes are the bytes handed over at the accepted write, and stay
    'bytes_stable_step', 'bytes_stable_run', 'accepted_sup_write_records_handed_bytes', 'accepted_pvp_write_records_handed_bytes']
# restatements for the CRSD instantiation in lean/SarpyModel/Props/C11W.lean (namespace Sarpy.Props.C11)
REQUIRED_W11 = ['crsd_headerBytes_length', 'crsd_text_file_wellformed', 'crsd_retry_terminates_7', 'chooseCrsd_terminates_7',
                'crsd_write_after_close_refused', 'crsd_refused_keeps_file', 'crsd_fo_log_shape', 'crsd_close_report_exact', 'crsd_complete_image',
                'crsd_formatted_chunk_uses_last_accepted_pvp', 'crsd_accepted_sup_write_records_handed_bytes']


BYTE_ORDERS = ['>', '<', '=']          # big-endian (the file's), little-endian, native: the caller's arrays may come in any of them
FORMS = ['tuple', 'int', 'short', 'sub', 'sub1', 'subN']


def reorder(arr, order):
    """the same VALUES in an array of another byte order (what a caller holding native numpy arrays hands over)"""
    if order is None or order == '>':
        return arr
    return arr.astype(arr.dtype.newbyteorder(order))


def place_kwargs(form, a, b, raw, ns):
    """the documented ways to say where a chunk of the rows a..b goes: start_indices as tuple / scalar / short tuple, or subscript="""
    if form == 'int':
        return {'start_indices': a}                      # scalar form (0 for the first chunk)
    if form == 'short':
        return {'start_indices': (a, )}
    if form == 'sub':
        return {'subscript': (slice(a, b, 1), slice(0, ns, 1), slice(0, 2, 1)) if raw else (slice(a, b, 1), slice(0, ns, 1))}
    if form == 'sub1':
        return {'subscript': (slice(a, b, 1), )}
    if form == 'subN':
        return {'subscript': (slice(a, b), slice(None), slice(None)) if raw else (slice(a, b), slice(None))}
    return {'start_indices': (a, 0, 0) if raw else (a, 0)}


class Proxy:
    """file-object proxy: logs (position, length) of every write; everything else is forwarded (fileno / name included, so that
    sarpy chooses the same delivery protocol as for the wrapped object)"""

    def __init__(self, fo):
        object.__setattr__(self, '_fo', fo)
        object.__setattr__(self, 'log', [])

    def write(self, b):
        self.log.append((self._fo.tell(), len(b)))
        return self._fo.write(b)

    def __getattr__(self, name):
        return getattr(self._fo, name)


class _Capture(logging.Handler):
    def __init__(self):
        super().__init__(level=logging.ERROR)
        self.msgs = []

    def emit(self, record):
        if record.name == LOGGER:
            self.msgs.append(record.getMessage())


def family(kind):
    if kind == 'CPHD':
        from sarpy.io.phase_history.cphd import CPHDWriter1
        from sarpy.io.phase_history.converter import open_phase_history
        return cphdgen, CPHDWriter1, open_phase_history, 'cphd_meta'
    from sarpy.io.received.crsd import CRSDWriter1
    from sarpy.io.received.converter import open_received
    return crsdgen, CRSDWriter1, open_received, 'crsd_meta'


def gen_case(rng, kind):
    fmt = rng.choice(['CI2', 'CI4', 'CF8'])
    nch = rng.choice([1, 2, 2, 3])
    sizes = [(rng.randint(1, 6), rng.randint(1, 5)) for _ in range(nch)]
    amp = rng.random() < 0.5
    nsup = rng.choice([0, 1, 2])
    if kind == 'CPHD':
        sup = [(rng.randint(1, 4), rng.randint(1, 4), rng.choice(sorted(crsdgen.SUPPORT_KINDS_CPHD))) for _ in range(nsup)]
    else:
        sup = [(rng.randint(1, 4), rng.randint(1, 4), rng.choice(sorted(crsdgen.SUPPORT_KINDS))) for _ in range(nsup)]
    release = rng.choice(['UNRESTRICTED'] * 4 + ['R' * rng.randint(700, 1000)])
    classification = rng.choice(['UNCLASSIFIED'] * 5 + ['UNCLASSIFIED//' + 'C' * rng.randint(700, 1000)])
    target = rng.choice(['bytesio', 'bytesio', 'fileobj', 'fileobj', 'path'])
    style = rng.choice(['complete', 'complete', 'complete', 'random', 'random', 'premature'])
    return {'kind': kind, 'fmt': fmt, 'sizes': sizes, 'amp_sf': amp, 'support': sup, 'release_info': release, 'classification': classification,
            'target': target, 'style': style, 'seed': rng.getrandbits(48)}


def build(case):
    gen = family(case['kind'])[0]
    sizes = [tuple(s) for s in case['sizes']]
    sup = [tuple(s) for s in case['support']]
    if case['kind'] == 'CPHD':
        meta = cphdgen.build_meta(case['fmt'], sizes, case['amp_sf'], sup, None)
        meta.CollectionID.ReleaseInfo = case['release_info']
        meta.CollectionID.Classification = case.get('classification', 'UNCLASSIFIED')
    else:
        meta = crsdgen.build_meta(case['fmt'], sizes, case['amp_sf'], sup, None, (), 'MONOSTATIC', case.get('classification', 'UNCLASSIFIED'),
                                  case['release_info'])
    return gen, meta


def gen_ops(rng, case, nchan, nsup, rows):
    """list of op dicts; every history ends with a close"""
    ops = []
    style = case['style']

    def chunks(i):
        nv = rows[i]
        cuts = sorted(rng.sample(range(1, nv), min(nv - 1, rng.randint(0, 2)))) if nv > 1 else []
        edges = [0] + cuts + [nv]
        return [{'op': 'G', 'i': i, 'a': a, 'b': b, 'raw': rng.random() < (0.3 if case['amp_sf'] else 0.5), 'by': rng.choice(['name', 'int'])} for a, b in zip(edges[:-1], edges[1:])]
    if style in ('complete', 'premature'):
        units = [[{'op': 'P', 'i': i, 'by': rng.choice(['name', 'int'])}] for i in range(nchan)]
        units += [[{'op': 'S', 'j': j, 'by': rng.choice(['name', 'int'])}] for j in range(nsup)]
        for i in range(nchan):
            units += [[c] for c in chunks(i)]
        rng.shuffle(units)
        ops = [u[0] for u in units]
        # sprinkle flushes and repeated / malformed calls
        extra = []
        for _ in range(rng.randint(0, 3)):
            extra.append({'op': 'F'})
        for _ in range(rng.choice([0, 1, 1, 2]) if case['amp_sf'] else rng.choice([0, 1])):
            # repeated PVP write with other values and ANOTHER AmpSF column (accepted on real-file targets, refused in memory)
            extra.append({'op': 'P', 'i': rng.randrange(nchan), 'by': 'name', 'variant': rng.choice([1, 2])})
        if nsup and rng.random() < 0.3:
            extra.append({'op': 'S', 'j': rng.randrange(nsup), 'by': 'name', 'variant': True})
        if rng.random() < 0.3:
            extra.append({'op': 'P', 'i': rng.randrange(nchan), 'by': 'name', 'short': True})           # wrong number of vectors
        if rng.random() < 0.3:
            extra.append({'op': rng.choice(['P', 'G']), 'i': nchan + rng.randint(0, 2), 'by': 'int', 'a': 0, 'b': 1, 'raw': True})   # bad index
        if rng.random() < 0.3:
            i = rng.randrange(nchan)
            extra.append({'op': 'G', 'i': i, 'a': rows[i], 'b': rows[i] + 1, 'raw': True, 'by': 'name'})   # rows past the end
        if rng.random() < 0.25:
            i = rng.randrange(nchan)
            a = rng.randrange(rows[i])
            extra.append({'op': 'G', 'i': i, 'a': a, 'b': rng.randint(a + 1, rows[i]), 'raw': rng.random() < 0.5, 'by': 'name', 'repeat': True})
        for e in extra:
            ops.insert(rng.randint(0, len(ops)), e)
        if style == 'premature':
            ops.insert(rng.randint(0, len(ops)), {'op': 'C'})
    else:
        for _ in range(rng.randint(1, 10)):
            r = rng.random()
            if r < 0.25:
                ops.append({'op': 'P', 'i': rng.randrange(nchan), 'by': rng.choice(['name', 'int']), 'variant': rng.choice([0, 0, 1, 2])})
            elif r < 0.4 and nsup:
                ops.append({'op': 'S', 'j': rng.randrange(nsup), 'by': rng.choice(['name', 'int']), 'variant': rng.random() < 0.3})
            elif r < 0.8:
                i = rng.randrange(nchan)
                a = rng.randrange(rows[i])
                ops.append({'op': 'G', 'i': i, 'a': a, 'b': rng.randint(a + 1, rows[i]), 'raw': rng.random() < 0.5, 'by': rng.choice(['name', 'int'])})
            elif r < 0.93:
                ops.append({'op': 'F'})
            else:
                ops.append({'op': 'C'})
    ops.append({'op': 'C'})
    if rng.random() < 0.3:
        ops.append({'op': 'C'})
    for op in ops:
        if op['op'] in ('P', 'S', 'G'):
            op['order'] = rng.choice(BYTE_ORDERS)       # byte order of the caller's array (raw signal, PVP, support)
        if op['op'] == 'G':
            op['form'] = rng.choice(FORMS + ['int', 'int'])
    return ops


def run_history(case, tmpdir):
    """runs one history on the real writer. Returns the observation dict (or raises for generator problems)"""
    gen, meta = build(case)
    _, Writer, _, _ = family(case['kind'])
    rng = random.Random(case['seed'])
    pvp, raw, support = gen.make_pvp(meta, rng), gen.make_raw(meta, rng), gen.make_support(meta, rng)
    pvp2, pvp3 = gen.make_pvp(meta, rng), gen.make_pvp(meta, rng)
    sup2 = gen.make_support(meta, rng)
    for k in pvp2:                  # repeated PVP writes carry other values and other AmpSF columns (powers of two: encoding stays exact)
        if 'AmpSF' in pvp2[k].dtype.names:
            pvp2[k]['AmpSF'] = pvp[k]['AmpSF'] * 0.5
            pvp3[k]['AmpSF'] = pvp[k]['AmpSF'] * 4.0
    pvp_variants = [pvp, pvp2, pvp3]
    chan_ids = [c.Identifier for c in meta.Data.Channels]
    sup_ids = [s.Identifier for s in (meta.Data.SupportArrays or [])]
    nchan, nsup = len(chan_ids), len(sup_ids)
    rows = [c.NumVectors for c in meta.Data.Channels]
    ops = case.get('ops') or gen_ops(rng, case, nchan, nsup, rows)
    path = os.path.join(tmpdir, 'hist.bin')
    if os.path.exists(path):
        os.remove(path)
    target = case['target']
    if target == 'bytesio':
        fo = Proxy(io.BytesIO())
    elif target == 'fileobj':
        fo = Proxy(open(path, 'w+b'))
    else:
        fo = path
    cap = _Capture()
    lg = logging.getLogger('sarpy')       # the handler sits on the package logger and swallows everything else sarpy logs meanwhile
    old_disabled, old_level = logging.root.manager.disable, lg.level
    logging.disable(logging.NOTSET)
    lg.addHandler(cap)
    lg.setLevel(logging.ERROR)
    old_prop = lg.propagate
    lg.propagate = False
    obs = {'ops': ops, 'outs': [], 'exc': {}, 'data': {}, 'log_len_at': [], 'snap_at': []}
    w = None
    try:
        w = Writer(fo, meta.copy(), check_existence=False)
        details = w.writing_details
        hdr = details.header
        segs = list(w.data_segment)
        canreg = w._can_write_regular_data
        obs['in_memory'] = bool(w._in_memory)
        has_amp = 'AmpSF' in pvp[chan_ids[0]].dtype.names
        ffs = [seg.format_function for seg in segs]
        cur_amp = {k: None for k in chan_ids}        # AmpSF column of the last ACCEPTED write_pvp_array per channel (observed acceptance), and its op number
        cur_tag = {k: None for k in chan_ids}
        obs['scaled'] = {k: [] for k in chan_ids}
        for n, op in enumerate(ops):
            before_log = len(fo.log) if target != 'path' else None
            before_img = fo.getvalue() if target == 'bytesio' else None
            cap.msgs = []
            try:
                if op['op'] == 'P':
                    i = op['i']
                    ident = chan_ids[i] if i < nchan else 'nochan%d' % i
                    arr = pvp_variants[int(op.get('variant') or 0)][chan_ids[i]] if i < nchan else pvp[chan_ids[0]]
                    if op.get('short'):
                        arr = numpy.concatenate([arr, arr[:1]])
                    obs['data'][n] = arr.tobytes()
                    w.write_pvp_array(ident if op['by'] == 'name' else i, reorder(arr, op.get('order')))
                    if has_amp and i < nchan and not op.get('short'):
                        cur_amp[chan_ids[i]], cur_tag[chan_ids[i]] = numpy.array(arr['AmpSF']), n
                elif op['op'] == 'S':
                    j = op['j']
                    arr = (sup2 if op.get('variant') else support)[sup_ids[j]]
                    obs['data'][n] = numpy.ascontiguousarray(arr).tobytes()
                    w.write_support_array(sup_ids[j] if op['by'] == 'name' else j, reorder(arr, op.get('order')))
                elif op['op'] == 'G':
                    i, a, b = op['i'], op['a'], op['b']
                    ci = i if i < nchan else 0
                    k = chan_ids[ci]
                    src = raw[k]
                    # formatted data: the values whose encoding with the scaling in force NOW (the AmpSF of the last accepted PVP write of this
                    # channel) are exactly the target samples: stored integers must be round(value / current AmpSF) = chunk
                    if b > src.shape[0]:      # rows past the end: data of the right row shape
                        chunk = numpy.concatenate([src] * (b // src.shape[0] + 1))[:b - a]
                        ach = None if not has_amp else numpy.ones((b - a,), dtype='float64')
                    else:
                        chunk = src[a:b]
                        ach = None if not has_amp else (numpy.ones((b - a,), dtype='float64') if cur_amp[k] is None else cur_amp[k][a:b])
                    obs['data'][n] = numpy.ascontiguousarray(chunk).tobytes()
                    idx = (k if op['by'] == 'name' else ci) if i < nchan else i
                    where = place_kwargs(op.get('form', 'tuple'), a, b, op['raw'], src.shape[1])
                    if op['raw']:
                        w.write_raw(reorder(chunk, op.get('order')), index=idx, **where)
                    else:
                        w.write(cphdgen.formatted(chunk, ach), index=idx, **where)
                        obs['scaled'][k].append((a, b - a, cur_tag[k]))
                elif op['op'] == 'F':
                    w.flush()
                else:
                    w.close()
                if op['op'] == 'C' and cap.msgs:
                    obs['outs'].append(('report', list(cap.msgs)))
                elif op['op'] == 'C' and n == [m for m, o in enumerate(ops) if o['op'] == 'C'][0]:
                    obs['outs'].append(('report', []))
                else:
                    obs['outs'].append(('ok',))
            except Exception as e:      # noqa: the class is what is observed
                obs['outs'].append(('refused',))
                obs['exc'][type(e).__name__] = obs['exc'].get(type(e).__name__, 0) + 1
                obs['log_len_at'].append((n, before_log, len(fo.log) if target != 'path' else None))
                if before_img is not None:
                    obs['snap_at'].append((n, before_img == fo.getvalue()))
        obs['flags'] = []
        items = list(details.pvp_details) + list(details.support_details or ()) + list(details.signal_details)
        for k, d in enumerate(items):
            cnt = 0
            if k >= nchan + nsup:
                seg = segs[k - nchan - nsup]
                cnt = int(seg._pixels_written) * numpy.dtype(seg.raw_dtype).itemsize
            cr = bool(canreg[chan_ids[k - nchan - nsup]]) if k >= nchan + nsup else None
            obs['flags'].append((bool(d.item_written), d.item_bytes is not None, cnt, cr))
        obs['amp_tags'] = [cur_tag[k] for k in chan_ids]
        obs['amp_installed'] = []           # is the array the format function holds the AmpSF column of that write?
        for k, ff in zip(chan_ids, ffs):
            held = getattr(ff, '_amplitude_scaling', None)
            obs['amp_installed'].append((held is None) if cur_amp[k] is None else (held is not None and numpy.array_equal(numpy.asarray(held, dtype='float64'), cur_amp[k])))
        obs['item_offsets'] = [int(d.item_offset) for d in items]
        obs['hdr_written'] = bool(details._header_written)
        obs['header'] = {f: getattr(hdr, f) for f in hdr._fields}
        obs['version'] = hdr.use_version
        obs['fo_log'] = list(fo.log) if target != 'path' else None
        if target == 'path':
            obs['pos'] = None
            with open(path, 'rb') as f:
                obs['bytes'] = f.read()
        else:
            if fo.closed:
                raise ValueError("the writer closed the caller's file object")
            obs['pos'] = fo.tell()
            if target == 'bytesio':
                obs['bytes'] = fo.getvalue()
            else:
                fo.flush()
                fo.seek(0)
                obs['bytes'] = fo.read()
    finally:
        lg.removeHandler(cap)
        lg.setLevel(old_level)
        lg.propagate = old_prop
        logging.disable(old_disabled)
        if w is not None:
            try:
                w.close()
            except Exception:
                pass
        if target == 'fileobj' and not fo.closed:
            fo.close()
    # static description for the model
    d = meta.Data
    bps = cphdgen.BPS[d.SignalArrayFormat]
    h = obs['header']
    table = []
    for c in d.Channels:
        n = c.NumVectors * d.NumBytesPVP
        table.append(('p', h['PVP_BLOCK_BYTE_OFFSET'] + c.PVPArrayByteOffset, n, 1, n))
    for s in (d.SupportArrays or []):
        n = s.NumRows * s.NumCols * s.BytesPerElement
        table.append(('s', h['SUPPORT_BLOCK_BYTE_OFFSET'] + s.ArrayByteOffset, n, 1, n))
    for c in d.Channels:
        table.append(('g', h['SIGNAL_BLOCK_BYTE_OFFSET'] + c.SignalArrayByteOffset, c.NumVectors * c.NumSamples * bps, c.NumVectors, c.NumSamples * bps))
    obs['table'] = table
    obs['nchan'], obs['nsup'] = nchan, nsup
    from importlib import import_module
    ns_mod = import_module('sarpy.io.phase_history.cphd_schema' if case['kind'] == 'CPHD' else 'sarpy.io.received.crsd_schema')
    obs['xml'] = meta.to_xml_bytes(urn=ns_mod.get_namespace(obs['version']))
    obs['texts'] = (f'{case["kind"]}/{obs["version"]}'.encode(), meta.CollectionID.Classification.encode(), meta.CollectionID.ReleaseInfo.encode())
    obs['meta'] = meta
    obs['arrays'] = (pvp, raw, support)
    obs['ids'] = (chan_ids, sup_ids)
    return obs


def model_questions(drv, case, obs):
    """the two driver questions of one history: the machine run and the explicit header text"""
    h = obs['header']
    ty, cl, rl = obs['texts']
    hx = lambda b: b.hex() if b else '-'
    ss = 'N' if h['SUPPORT_BLOCK_SIZE'] is None else str(h['SUPPORT_BLOCK_SIZE'])
    q_hdr = drv.ask(f'cphd hdrtext {hx(ty)} {hx(cl)} {hx(rl)} {len(obs["xml"])} {ss} {h["PVP_BLOCK_SIZE"]} {h["SIGNAL_BLOCK_SIZE"]}')
    items = ','.join(':'.join(str(x) for x in it) for it in obs['table']) or '-'
    toks = []
    for n, op in enumerate(obs['ops']):
        ln = len(obs['data'].get(n, b''))
        if op['op'] == 'P':
            toks.append(f'P.{op["i"]}.{ln}')
        elif op['op'] == 'S':
            toks.append(f'S.{op["j"]}.{ln}')
        elif op['op'] == 'G':
            toks.append(f'G.{op["i"]}.{op["a"]}.{ln}.{1 if op["raw"] else 0}')
        else:
            toks.append(op['op'])
    hdr_len = obs['fo_log'][0][1] if (obs['fo_log'] and obs['hdr_written']) else None
    return {'hdr': q_hdr, 'items': items, 'ops': ';'.join(toks), 'hdr_len_observed': hdr_len}


def ask_run(drv, case, obs, q, hdr_len):
    h = obs['header']
    return drv.ask(f'cphd wrun {1 if obs["in_memory"] else 0} {1 if case["amp_sf"] else 0} {hdr_len} 2 {h["XML_BLOCK_BYTE_OFFSET"]} {len(obs["xml"])} '
                   f'{obs["nchan"]} {obs["nsup"]} {q["items"]} {q["ops"]}')


def expected_header_text(obs):
    """independent of sarpy's header class: the standard's `KEY := value` lines in the order of the header fields"""
    h = obs['header']
    ty, cl, rl = obs['texts']
    lines = [ty]
    for k in ['XML_BLOCK_SIZE', 'XML_BLOCK_BYTE_OFFSET', 'SUPPORT_BLOCK_SIZE', 'SUPPORT_BLOCK_BYTE_OFFSET', 'PVP_BLOCK_SIZE', 'PVP_BLOCK_BYTE_OFFSET',
              'SIGNAL_BLOCK_SIZE', 'SIGNAL_BLOCK_BYTE_OFFSET']:
        if h[k] is not None:
            lines.append(f'{k} := {h[k]}'.encode())
    lines.append(b'CLASSIFICATION := ' + cl)
    lines.append(b'RELEASE_INFO := ' + rl)
    return b'\n'.join(lines) + b'\n'


def compare(case, obs, ans_hdr, ans_run):
    """model answer vs observation. Returns list of disagreement strings"""
    dis = []
    # ---- explicit header text + retry rule
    if ans_hdr == 'none':
        dis.append('header text model: retry did not terminate within 16 attempts')
        hdr_text = None
    else:
        xo, hx = ans_hdr.split()
        hdr_text = bytes.fromhex(hx)
        if int(xo) != obs['header']['XML_BLOCK_BYTE_OFFSET']:
            dis.append(f'retry rule over the rendered text gives XML offset {xo}, implementation {obs["header"]["XML_BLOCK_BYTE_OFFSET"]}')
        if obs['hdr_written'] and not obs['bytes'].startswith(hdr_text + b'\f\n'):
            dis.append('rendered header text (Spec.CphdHeaderText.headerBytes) differs from the first bytes of the file')
    parts = [p.strip() for p in ans_run.split(' | ')]
    if len(parts) != 7:
        return dis + [f'unreadable model answer {ans_run[:200]!r}']
    outs, folog, mmlog, flags, tail, runs, amps = parts
    # ---- amplitude scaling: which PVP write's AmpSF is installed, and which one every formatted chunk was encoded with
    tk = lambda v: 'N' if v is None else str(v)
    i_amps = [tk(t) + '/' + (','.join(f'{a}:{n}:{tk(t2)}' for a, n, t2 in obs['scaled'][k]) or '-') for t, k in zip(obs['amp_tags'], obs['ids'][0])]
    if amps.split() != i_amps:
        dis.append(f'amplitude scaling in force differs: model {amps.split()} (channel: installed tag / firstRow:rows:tag of formatted chunks), '
                   f'observed acceptance history {i_amps}')
    if not all(obs['amp_installed']):
        dis.append(f'the format function does not hold the AmpSF column of the last accepted write_pvp_array: {obs["amp_installed"]}')
    # ---- outcomes
    m_outs = [] if outs == '-' else outs.split(',')
    table_n = len(obs['table'])
    names = {'pvp': 0, 'support': obs['nchan'], 'signal': obs['nchan'] + obs['nsup']}
    i_outs = []
    for o in obs['outs']:
        if o[0] == 'ok':
            i_outs.append('o')
        elif o[0] == 'refused':
            i_outs.append('r')
        else:
            miss, hm = [], 0
            for msg in o[1]:
                mm = re.match(r'(pvp|support|signal) data at index (\d+) not written', msg)
                if mm:
                    miss.append(names[mm.group(1)] + int(mm.group(2)))
                elif msg == 'header not written':
                    hm = 1
                else:
                    miss.append(msg)
            i_outs.append(f'R{hm}:' + ('.'.join(str(x) for x in miss) if miss else '-'))
    # a close that is not the first one and logs nothing is reported as 'o' by both sides
    if m_outs != i_outs:
        dis.append(f'outcomes differ: model {m_outs} implementation {i_outs}')
    # ---- file-object write log
    if obs['fo_log'] is not None:
        m_log = [] if folog == '-' else [tuple(int(x) for x in e.split(':')) for e in folog.split(',')]
        if m_log != [tuple(e) for e in obs['fo_log']]:
            dis.append(f'file-object write log differs: model {m_log} implementation {obs["fo_log"]}')
    # ---- flags
    m_flags = [] if flags == '-' else [tuple(int(x) for x in f.split('.')) for f in flags.split(',')]
    i_flags = []
    for k, (wr, by, cnt, cr) in enumerate(obs['flags']):
        mcr = m_flags[k][3] if (cr is None and k < len(m_flags)) else int(bool(cr))
        i_flags.append((int(wr), int(by), cnt, mcr))
    if m_flags != i_flags:
        dis.append(f'element state (written, bytes, count, can_write_regular) differs: model {m_flags} implementation {i_flags}')
    t = tail.split()
    if int(t[1]) != int(obs['hdr_written']):
        dis.append(f'header-written flag differs: model {t[1]} implementation {obs["hdr_written"]}')
    if obs['pos'] is not None and int(t[2]) != obs['pos']:
        dis.append(f'file object position differs: model {t[2]} implementation {obs["pos"]}')
    if int(t[3]) != len(obs['bytes']):
        dis.append(f'file length differs: model {t[3]} implementation {len(obs["bytes"])}')
    # ---- image
    img = bytearray()
    hdr_src = hdr_text if hdr_text is not None else expected_header_text(obs)
    for r in runs.split():
        st, ln, src = r.split(':')
        st, ln = int(st), int(ln)
        if st != len(img):
            dis.append('model image runs are not contiguous')
            break
        if src == 'z':
            img += bytes(ln)
        elif src[0] == 'h':
            j = int(src[1:])
            img += hdr_src[j:j + ln]
        elif src[0] == 't':
            j = int(src[1:])
            img += b'\f\n'[j:j + ln]
        elif src[0] == 'x':
            j = int(src[1:])
            img += obs['xml'][j:j + ln]
        else:
            o, j = src[1:].split('.')
            img += obs['data'][int(o)][int(j):int(j) + ln]
    if bytes(img) != obs['bytes']:
        n = min(len(img), len(obs['bytes']))
        first = next((p for p in range(n) if img[p] != obs['bytes'][p]), n)
        dis.append(f'file image differs from the model image at byte {first} (model length {len(img)}, file length {len(obs["bytes"])})')
    return dis


def classify(case, obs):
    """facts about the history, independent of model and implementation state (from the ops and their observed acceptance)"""
    nchan, nsup = obs['nchan'], obs['nsup']
    rows = [t[3] for t in obs['table'][nchan + nsup:]]
    closed = False
    pvp_ok, sup_ok = {}, {}
    cover = [[0] * r for r in rows]
    rewrote = False
    for n, (op, out) in enumerate(zip(obs['ops'], obs['outs'])):
        acc = out[0] != 'refused'
        if op['op'] == 'C':
            closed = True
        if not acc:
            continue
        if op['op'] == 'P':
            pvp_ok.setdefault(op['i'], []).append(n)
        elif op['op'] == 'S':
            sup_ok.setdefault(op['j'], []).append(n)
        elif op['op'] == 'G':
            for r in range(op['a'], op['b']):
                if cover[op['i']][r]:
                    rewrote = True
                cover[op['i']][r] += 1
    complete = all(i in pvp_ok for i in range(nchan)) and all(j in sup_ok for j in range(nsup)) and all(all(c) for c in cover)
    return {'pvp_ok': pvp_ok, 'sup_ok': sup_ok, 'cover': cover, 'complete': complete, 'rewrote': rewrote, 'closed': closed}


def oracle(case, obs, tmpdir):
    """direct statements of the writer clauses on the implementation. Returns list of failure dicts (msg, key)"""
    fails = []
    f = lambda msg, key=None: fails.append({'kind': 'writer', 'msg': msg, 'case': {k: v for k, v in case.items()} | {'ops': obs['ops']}, 'key': key})
    info = classify(case, obs)
    buf = obs['bytes']
    nchan, nsup = obs['nchan'], obs['nsup']
    # (1) refused calls leave the file alone
    for n, a, b in obs['log_len_at']:
        if a is not None and a != b:
            f(f'operation {n} ({obs["ops"][n]}) raised but wrote through the file object')
    for n, same in obs['snap_at']:
        if not same:
            f(f'operation {n} ({obs["ops"][n]}) raised but changed the file')
    # (2) the file-object log: header first, at 0, once; no region written twice
    log = obs['fo_log']
    if log:
        if log[0][0] != 0:
            f(f'the first write through the file object is at {log[0][0]}, not the header at 0')
        spans = sorted((o, o + ln) for o, ln in log if ln)
        for (a0, a1), (b0, b1) in zip(spans, spans[1:]):
            if b0 < a1:
                f(f'two writes through the file object overlap: [{a0},{a1}) and [{b0},{b1})')
                break
    # (3) after close: independently parsed header, accepted data at its place
    if info['closed']:
        gen = family(case['kind'])[0]
        problems, kv = gen.check_layout(buf, case['kind'])
        # an incomplete file may be shorter than the header says: only the end-of-file statement is waived then
        problems = [p for p in problems if info['complete'] or 'but the file has' not in p]
        for p in problems:
            f('header does not describe the file: ' + p)
        if kv and not problems:
            g = lambda k: int(kv[k])
            er = element_ranges_from_meta(obs)
            base = {'p': g('PVP_BLOCK_BYTE_OFFSET'), 'g': g('SIGNAL_BLOCK_BYTE_OFFSET')}
            if nsup:
                base['s'] = g('SUPPORT_BLOCK_BYTE_OFFSET')
            for k, (kd, rel, size, rws, rb) in enumerate(er):
                off = base[kd] + rel
                if off != obs['item_offsets'][k]:
                    f(f'element {k}: ElementDetails offset {obs["item_offsets"][k]} is not block offset + relative offset = {off}')
                if kd == 'p':
                    acc = info['pvp_ok'].get(k, [])
                elif kd == 's':
                    acc = info['sup_ok'].get(k - nchan, [])
                else:
                    acc = None
                if acc is not None and acc:
                    # in memory the first accepted write is the one delivered; on a real file the last one
                    n = acc[0] if obs['in_memory'] else acc[-1]
                    if buf[off:off + size] != obs['data'][n]:
                        f(f'element {k} ({kd}): the bytes at {off} are not the data handed to the accepted write (operation {n})')
                if kd == 'g' and not info['rewrote']:
                    i = k - nchan - nsup
                    for r, c in enumerate(info['cover'][i]):
                        if c:
                            n, rr = next((n, r - op['a']) for n, (op, out) in enumerate(zip(obs['ops'], obs['outs']))
                                         if op['op'] == 'G' and op['i'] == i and out[0] != 'refused' and op['a'] <= r < op['b'])
                            if buf[off + r * rb:off + (r + 1) * rb] != obs['data'][n][rr * rb:(rr + 1) * rb]:
                                if obs['ops'][n]['raw']:
                                    f(f'signal channel {i} row {r}: the bytes at {off + r * rb} are not the data handed to operation {n}')
                                else:
                                    tag = next((t for a0, nr, t in obs['scaled'][obs['ids'][0][i]] if a0 <= r < a0 + nr), None)
                                    f(f'signal channel {i} row {r}: the samples stored at {off + r * rb} by the formatted write (operation {n}) are not '
                                      f'round(value / AmpSF) for the AmpSF in force at that moment (the column of the last accepted write_pvp_array, operation {tag})')
                                break
        # (4) complete histories reopen with every array equal
        if info['complete'] and not info['rewrote'] and not problems:
            fails += reopen_check(case, obs, tmpdir, info)
    return fails


def element_ranges_from_meta(obs):
    """(kind, relative offset by cumulative sizes, size, rows, rowBytes) - sizes only, independent of the declared relative offsets"""
    d = obs['meta'].Data
    bps = cphdgen.BPS[d.SignalArrayFormat]
    out, acc = [], 0
    for c in d.Channels:
        n = c.NumVectors * d.NumBytesPVP
        out.append(('p', acc, n, 1, n))
        acc += n
    acc = 0
    for s in (d.SupportArrays or []):
        n = s.NumRows * s.NumCols * s.BytesPerElement
        out.append(('s', acc, n, 1, n))
        acc += n
    acc = 0
    for c in d.Channels:
        n = c.NumVectors * c.NumSamples * bps
        out.append(('g', acc, n, c.NumVectors, c.NumSamples * bps))
        acc += n
    return out


def reopen_check(case, obs, tmpdir, info):
    fails = []
    f = lambda msg: fails.append({'kind': 'writer-read', 'msg': msg, 'case': {k: v for k, v in case.items()} | {'ops': obs['ops']}, 'key': None})
    _, _, opener, meta_attr = family(case['kind'])
    pvp, raw, support = obs['arrays']
    path = os.path.join(tmpdir, 'hist_rd.bin')
    with open(path, 'wb') as fh:
        fh.write(obs['bytes'])
    try:
        rdr = opener(path)
    except Exception as e:
        f(f'the finished file does not open: {type(e).__name__}: {e}')
        return fails
    try:
        rp, rs, rraw = rdr.read_pvp_block(), rdr.read_support_block(), rdr.read_signal_block_raw()
        chan_ids, sup_ids = obs['ids']
        for i, k in enumerate(chan_ids):
            n = info['pvp_ok'][i][0 if obs['in_memory'] else -1]
            want = numpy.frombuffer(obs['data'][n], dtype=pvp[k].dtype)
            for name in want.dtype.names:
                if not numpy.array_equal(rp[k][name], want[name], equal_nan=True):
                    f(f'PVP field {name} of channel {k} differs after a complete history')
                    break
            if not numpy.array_equal(numpy.asarray(rraw[k]).reshape(raw[k].shape), raw[k]):
                f(f'raw signal of channel {k} differs after a complete history')
        for j, k in enumerate(sup_ids):
            n = info['sup_ok'][j][0 if obs['in_memory'] else -1]
            want = numpy.frombuffer(obs['data'][n], dtype=support[k].dtype).reshape(support[k].shape)
            if not numpy.array_equal(numpy.asarray(rs[k]).reshape(want.shape), want):
                f(f'support array {k} differs after a complete history')
    except Exception as e:
        f(f'reading the finished file raised {type(e).__name__}: {e}')
    finally:
        rdr.close()
    return fails


def history_class(case, obs):
    info = classify(case, obs)
    return (case['kind'], case['target'], obs['in_memory'], case['amp_sf'], min(obs['nchan'], 3), min(obs['nsup'], 2), info['complete'], info['rewrote'],
            any(o[0] == 'refused' for o in obs['outs']), sum(1 for o in obs['ops'] if o['op'] == 'F') > 0,
            any(o['op'] == 'C' for o in obs['ops'][:-2]), obs['header']['XML_BLOCK_BYTE_OFFSET'] != 1024,
            len(case['release_info']) > 600, len(case.get('classification', '')) > 600,
            max([len({t for _, _, t in v}) for v in obs['scaled'].values()] or [0]) > 1)      # formatted chunks under two different AmpSF columns


def fixed_histories(kind):
    """histories every run contains, whatever the random draw: block-wise production with a per-vector AmpSF - provisional AmpSF, first block
    of formatted signal, write_pvp_array again with other AmpSF values, second block - on each target (the repeated call is accepted on
    real-file targets and refused in memory); the second block must be encoded with the scaling in force when it is written"""
    out = []
    for target in ('path', 'fileobj', 'bytesio'):
        for fmt in ('CI2', 'CF8'):
            ops = [{'op': 'P', 'i': 0, 'by': 'name'}, {'op': 'G', 'i': 0, 'a': 0, 'b': 3, 'raw': False, 'by': 'name'},
                   {'op': 'P', 'i': 0, 'by': 'name', 'variant': 1}, {'op': 'G', 'i': 0, 'a': 3, 'b': 5, 'raw': False, 'by': 'int'},
                   {'op': 'F'}, {'op': 'P', 'i': 0, 'by': 'int', 'variant': 2}, {'op': 'G', 'i': 0, 'a': 5, 'b': 6, 'raw': False, 'by': 'name'},
                   {'op': 'C'}]
            out.append({'kind': kind, 'fmt': fmt, 'sizes': [(6, 4)], 'amp_sf': True, 'support': [], 'release_info': 'UNRESTRICTED',
                        'classification': 'UNCLASSIFIED', 'target': target, 'style': 'fixed', 'seed': 7, 'ops': ops})
    return out


def run_batch(kind, rng, count, tmpdir, drv):
    """generate and run `count` histories (after the fixed ones). Returns (jobs, fails, stats, seen)"""
    jobs, fails, stats, seen = [], [], {'histories': 0, 'ops': 0, 'refused_ops': 0, 'complete': 0, 'exception_classes': {}}, set()
    fixed = fixed_histories(kind)
    for n in range(len(fixed) + count):
        case = fixed[n] if n < len(fixed) else gen_case(rng, kind)
        try:
            obs = run_history(case, tmpdir)
        except Exception as e:
            fails.append({'kind': 'writer', 'msg': f'running a writer history raised {type(e).__name__}: {e}', 'case': case,
                          'key': 'writer-closes-caller-file' if 'closed the caller' in str(e) else None})
            continue
        case = dict(case, ops=obs['ops'])
        stats['histories'] += 1
        stats['ops'] += len(obs['ops'])
        stats['refused_ops'] += sum(1 for o in obs['outs'] if o[0] == 'refused')
        for k, v in obs['exc'].items():
            stats['exception_classes'][k] = stats['exception_classes'].get(k, 0) + v
        info = classify(case, obs)
        stats['complete'] += int(info['complete'])
        seen.add(history_class(case, obs))
        fails += oracle(case, obs, tmpdir)
        q = model_questions(drv, case, obs)
        hdr_len = len(expected_header_text(obs))
        jobs.append({'case': case, 'obs': obs, 'q_hdr': q['hdr'], 'q_run': ask_run(drv, case, obs, q, hdr_len)})
    return jobs, fails, stats, seen


def settle(jobs, ans):
    """compare after the driver ran. Returns list of disagreement dicts"""
    out = []
    for j in jobs:
        dis = compare(j['case'], j['obs'], ans[j['q_hdr']], ans[j['q_run']])
        for d in dis:
            out.append({'what': 'writer machine (cphd wrun / hdrtext): ' + d, 'case': j['case']})
        j['obs'] = None     # free the arrays
    return out


def finding_probes(kind, tmpdir):
    """fixed histories that the random generator does not draw (each was a defect of sarpy once; the failure carries its key)"""
    fails = []
    gen, Writer, opener, _ = family(kind)
    path = os.path.join(tmpdir, 'probe.bin')
    # (1) header strings that stress the `KEY := VALUE\n` grammar: a value containing the separator must read back; a value that the
    #     grammar cannot hold (line break) must either be refused by the writer or read back - never produce a file its reader refuses
    #     (0) markings long enough that the header text exceeds the first-guess XML offset 1024 - each field alone and both: the header must
    #     still end before the XML block (fixed cases: every run has them, for both families, whatever the random draw)
    long_r, long_c = 'RELEASE ' * 110, 'UNCLASSIFIED//' + 'CAVEAT ' * 120
    for release, classification, key in (('APPROVED := YES', 'UNCLASSIFIED', K_SEPARATOR), ('LINE ONE\nLINE TWO', 'UNCLASSIFIED', K_LINEBREAK),
                                         (long_r.strip(), 'UNCLASSIFIED', None), ('UNRESTRICTED', long_c.strip(), None), (long_r.strip(), long_c.strip(), None)):
        case = {'kind': kind, 'fmt': 'CI2', 'sizes': [(2, 3)], 'amp_sf': False, 'support': [], 'release_info': release, 'classification': classification,
                'target': 'path', 'style': 'probe', 'seed': 1}
        try:
            g, meta = build(case)
            rng = random.Random(1)
            pvp, raw = g.make_pvp(meta, rng), g.make_raw(meta, rng)
            if os.path.exists(path):
                os.remove(path)
            try:
                w = Writer(path, meta.copy(), check_existence=False)
            except ValueError:
                if key == K_LINEBREAK:
                    continue        # the writer refuses a value the header cannot represent
                raise
            w.write_file_raw(pvp, raw, None)
            w.close()
            if key is None:
                with open(path, 'rb') as fh:
                    buf = fh.read()
                problems, kv = g.check_layout(buf, kind)
                for pr in problems:
                    fails.append({'kind': 'layout', 'msg': f'{kind} with a {len(release)} character ReleaseInfo and a {len(classification)} character Classification: '
                                                           'header does not describe the file: ' + pr,
                                  'case': dict(case, file_bytes=len(buf), file_head_hex=buf[:1536].hex()), 'key': None})
                if kv and not problems and (kv.get('RELEASE_INFO') != release or kv.get('CLASSIFICATION') != classification):
                    fails.append({'kind': 'layout', 'msg': f'{kind}: header CLASSIFICATION / RELEASE_INFO differ from CollectionID (long markings)', 'case': case, 'key': None})
            try:
                rdr = opener(path)
            except Exception as e:
                fails.append({'kind': 'read', 'msg': f'{kind} with ReleaseInfo {release[:40]!r} ({len(release)} characters), Classification of {len(classification)} characters is written '
                                                      f'but cannot be reopened: {type(e).__name__}: {str(e)[:120]}', 'case': case, 'key': key})
                continue
            try:
                hdr = getattr(rdr, 'cphd_header', None) or getattr(rdr, 'crsd_header', None)
                if hdr is not None and hdr.RELEASE_INFO != release:
                    fails.append({'kind': 'read', 'msg': f'{kind} header RELEASE_INFO reads back as {hdr.RELEASE_INFO!r}, written {release!r}', 'case': case, 'key': key})
            finally:
                rdr.close()
        except Exception as e:
            fails.append({'kind': 'write', 'msg': f'header string probe ({release!r}) raised {type(e).__name__}: {e}', 'case': case, 'key': None})
    # (1b) an added support array whose element format has components of different types (`A=F4;B=I2;`: one structured element of 6 bytes,
    #      allowed by the standard's binary format grammar) must be written and read back like any other
    case = {'kind': kind, 'fmt': 'CI2', 'sizes': [(2, 3)], 'amp_sf': False, 'support': [(3, 2, 'ADD_F8')], 'release_info': 'UNRESTRICTED', 'target': 'path',
            'style': 'probe', 'seed': 3, 'element_format': crsdgen.HETEROGENEOUS[0]}
    try:
        g, meta = build(case)
        efmt, dt, bpe, _ = crsdgen.HETEROGENEOUS
        meta.SupportArray.AddedSupportArray[0].ElementFormat = efmt
        meta.Data.SupportArrays[0].BytesPerElement = bpe
        ident = meta.Data.SupportArrays[0].Identifier
        rng = random.Random(3)
        pvp, raw = g.make_pvp(meta, rng), g.make_raw(meta, rng)
        arr = numpy.zeros((3, 2), dtype=dt)
        arr['A'] = numpy.arange(6).reshape((3, 2)) * 0.5
        arr['B'] = numpy.arange(6).reshape((3, 2)) - 2
        if os.path.exists(path):
            os.remove(path)
        try:
            w = Writer(path, meta.copy(), check_existence=False)
            w.write_file_raw(pvp, raw, {ident: arr})
            w.close()
            rdr = opener(path)
            try:
                got = numpy.asarray(rdr.read_support_array(ident))
            finally:
                rdr.close()
            if got.tobytes() != arr.tobytes() or got.shape[:2] != arr.shape:
                fails.append({'kind': 'data', 'msg': f'{kind}: support array with the heterogeneous element format {efmt!r} differs after write/read', 'case': case, 'key': K_HETERO})
        except Exception as e:
            fails.append({'kind': 'write', 'msg': f'{kind}: a support array with the heterogeneous element format {efmt!r} cannot be written / read: '
                                                   f'{type(e).__name__}: {str(e)[:120]}', 'case': case, 'key': K_HETERO})
    except Exception as e:
        fails.append({'kind': 'write', 'msg': f'heterogeneous support array probe raised {type(e).__name__}: {e}', 'case': case, 'key': None})
    # (2) in memory: a refused second write_pvp_array must not change what later formatted signal writes store
    case = {'kind': kind, 'fmt': 'CI4', 'sizes': [(2, 3)], 'amp_sf': True, 'support': [], 'release_info': 'UNRESTRICTED', 'target': 'bytesio',
            'style': 'probe', 'seed': 2}
    try:
        g, meta = build(case)
        rng = random.Random(2)
        pvp, raw = g.make_pvp(meta, rng), g.make_raw(meta, rng)
        ch = meta.Data.Channels[0].Identifier
        pvp[ch]['AmpSF'] = 0.5
        other = pvp[ch].copy()
        other['AmpSF'] = 0.25
        fo = io.BytesIO()
        w = Writer(fo, meta.copy(), check_existence=False)
        w.write_pvp_array(ch, pvp[ch])
        refused = False
        try:
            w.write_pvp_array(ch, other)
        except Exception:
            refused = True
        w.write(cphdgen.formatted(raw[ch], pvp[ch]['AmpSF']), index=ch)
        w.close()
        with open(path, 'wb') as fh:
            fh.write(fo.getvalue())
        rdr = opener(path)
        try:
            amp_file = numpy.asarray(rdr.read_pvp_variable('AmpSF', 0))
            got = numpy.asarray(rdr.read_signal_block_raw()[ch]).reshape(raw[ch].shape)
        finally:
            rdr.close()
        if refused and numpy.array_equal(amp_file, pvp[ch]['AmpSF']) and not numpy.array_equal(got, raw[ch]):
            fails.append({'kind': 'data', 'msg': f'{kind}, BytesIO target: after a refused second write_pvp_array the file keeps the first AmpSF but later formatted '
                                                  'signal writes are scaled by the refused one (signal differs after write/read)', 'case': case, 'key': K_AMPSF})
        elif not refused and not numpy.array_equal(got, raw[ch]) and numpy.array_equal(amp_file, pvp[ch]['AmpSF']):
            fails.append({'kind': 'data', 'msg': f'{kind}, BytesIO target: signal differs after write/read around a repeated write_pvp_array', 'case': case, 'key': None})
    except Exception as e:
        fails.append({'kind': 'write', 'msg': f'AmpSF probe raised {type(e).__name__}: {e}', 'case': case, 'key': None})
    return fails


def replay_case(case, tmpdir):
    """re-run one stored writer history on the implementation alone (oracle only)"""
    obs = run_history(case, tmpdir)
    return oracle(case, obs, tmpdir)
