"""C01 / NITF assembly: how NITFReader BUILDS its data segment trees from image subheader fields.

model      : lean/SarpyModel/Spec/NitfAssembly.lean (`assemble`, `assembleCollection` -> a `Spec.Segment` tree; `formattedSrc`, the
             specification of where MIL-STD-2500C stores every pixel), theorems in lean/SarpyModel/Props/C01Nitf.lean
tie        : (1) translator: the orientation tables (which transpose_axes / reverse_axes the outermost segment gets per IMODE) are
             regenerated from the current source by translate/gen_nitf_orient.py on every run and bridged to the model by `decide`
             (gen_orient_eq_spec, gen_orient_complete, ...);
             (2) correspondence on REAL files.  Every file is assembled by hand here (file header and image subheaders through sarpy's
             element classes, mask subheader and pixel bytes laid out by this module following the standard, sharing no code with the
             reader): IMODE B / P / R / S, 1-4 bands, 8 / 16 / 32 bit, block grids with NPPBH / NPPBV = 0, exact grids, pad pixels,
             block masks with absent blocks and shuffled recorded blocks, I/Q and Q/I band pairs, several image segments stacked by rows.
             The file is opened with NITFReader (path -> memmap segments, BytesIO -> file-read segments) with reverse_axes /
             transpose_axes options and every read (full image and random sub-regions, formatted and raw) is compared
             (a) with the model: the driver prints, for every element, `<byte offset of the block in the file>:<sample offset in the block>`;
                 the bytes found there in the file must be the value sarpy returned;
             (b) with a direct numpy oracle: pixel values encode (segment, band, row, col); the expected image is the documented
                 flip / transpose / pairing of the decoded image.
search     : (b) runs on every generated file in every run, so a broken obligation or a model disagreement comes with the failing files.

Two-phase API (one shared Driver run):   plan = nitfasm.plan(drv, rng, tier)  ...  ans = drv.run()  ...
                                         dis, fails, stats = nitfasm.check(plan, ans, tmpdir)
"""
import io
import logging
import os
import struct

import numpy

ABSENT = 0xFFFFFFFF
NITF_MODULE = 'SarpyModel.Props.C01NitfBridge'      # imports Props/C01Nitf*.lean and the regenerated Gen/NitfOrient.lean
NITF_NS = 'Sarpy.Props.C01.Nitf'
REQUIRED_NITF = [
    # the layers of the proof
    'bounds_eq', 'fullOnto_mkBlks', 'blockChild_full', 'blockChild_wf', 'grid_hit', 'grid_miss', 'rawBPR_get', 'rawS_get',
    'orientBPR_ok', 'orientLast_ok', 'wrap_wf', 'wrap_fshape', 'wrap_spec',
    # one image segment
    'assemble_wf', 'assemble_total', 'assemble_accepts', 'assemble_shape', 'assemble_raw_shape', 'assemble_spec', 'assemble_read_spec',
    'leaf_file_offset', 'exH_valid',
    # several image segments stacked by rows
    'limits_stacked', 'stacked_get', 'assembleCollection_wf', 'assembleCollection_total', 'assembleCollection_shape', 'assembleCollection_spec',
    # bridge: the model's orientation tables = the tables regenerated from the current Python (translate/gen_nitf_orient.py)
    'gen_orient_eq_spec', 'gen_orient_complete', 'gen_transpose_eq_spec', 'gen_transpose_complete', 'orientBPR_bands',
]



# ------------------------------------------------------------------------------------------------ case generation

def _dtype(seg):
    return ('>i' if seg['cplx'] != 'N' else '>u') + str(seg['nbpp'] // 8)


def _value(seg, s, b, r, c):
    """the stored value of band b at (r, c) of image segment number s: encodes its own position, never 0 (0 = masked-out block)"""
    if seg['nbpp'] == 8:
        return (b * 89 + r * 37 + c * 11 + s * 53) % (127 if seg['cplx'] != 'N' else 254) + 1
    return 1 + s * 2000 + (b * seg['rows'] + r) * seg['cols'] + c


def _pad_value(seg):
    return -1 if seg['cplx'] != 'N' else 2 ** seg['nbpp'] - 1


def block_hw(seg):
    return (seg['nppbv'] or seg['rows']), (seg['nppbh'] or seg['cols'])


def rand_grid(rng, rows_hint=None, cols_hint=None, need_multi=False):
    """-> rows, cols, nbpr, nbpc, nppbh, nppbv, kind"""
    for _ in range(100):
        kind = rng.choice(['single0', 'single', 'singlepad', 'exact', 'pad', 'pad', 'mixed0'])
        if kind in ('single0', 'single', 'singlepad'):
            if need_multi:
                continue
            rows = rows_hint or rng.randint(2, 9)
            cols = cols_hint or rng.randint(2, 9)
            if kind == 'single0':
                return rows, cols, 1, 1, 0, 0, kind
            if kind == 'single':
                return rows, cols, 1, 1, cols, rows, kind
            return rows, cols, 1, 1, cols + rng.randint(0, 3), rows + rng.randint(0 if cols_hint else 1, 3), kind
        if kind == 'mixed0':
            rows = rows_hint or rng.randint(2, 7)
            nppbh = rng.randint(2, 4)
            nbpr = rng.randint(2, 3)
            cols = cols_hint or rng.randint((nbpr - 1) * nppbh + 1, nbpr * nppbh)
            if not ((nbpr - 1) * nppbh < cols <= nbpr * nppbh):
                nbpr = -(-cols // nppbh)
                if nbpr < 2:
                    continue
            return rows, cols, nbpr, 1, nppbh, 0, kind
        nppbv, nppbh = rng.randint(2, 4), rng.randint(2, 5)
        nbpc, nbpr = rng.randint(1, 3), rng.randint(1, 3)
        if cols_hint:
            nbpr = -(-cols_hint // nppbh)
        if rows_hint:
            nbpc = -(-rows_hint // nppbv)
        if nbpc * nbpr == 1:
            continue
        if kind == 'exact':
            rows, cols = rows_hint or nbpc * nppbv, cols_hint or nbpr * nppbh
        else:
            rows = rows_hint or rng.randint((nbpc - 1) * nppbv + 1, nbpc * nppbv)
            cols = cols_hint or rng.randint((nbpr - 1) * nppbh + 1, nbpr * nppbh)
        return rows, cols, nbpr, nbpc, nppbh, nppbv, kind
    raise RuntimeError('no grid')


def rand_segment(rng, imode, nb, cplx, nbpp, rows_hint=None, cols_hint=None, mask_mode=None):
    rows, cols, nbpr, nbpc, nppbh, nppbv, kind = rand_grid(rng, rows_hint, cols_hint, need_multi=(imode == 'S'))
    seg = {'rows': rows, 'cols': cols, 'nb': nb, 'imode': imode, 'nbpr': nbpr, 'nbpc': nbpc, 'nppbh': nppbh, 'nppbv': nppbv,
           'nbpp': nbpp, 'cplx': cplx, 'grid': kind, 'mask': None}
    mask_mode = mask_mode if mask_mode is not None else rng.choice(['none', 'none', 'full', 'holes', 'holes'])
    if mask_mode != 'none':
        nblocks = nbpr * nbpc
        depth = nb if imode == 'S' else 1
        bh, bw = block_hw(seg)
        bsize = bh * bw * (1 if imode == 'S' else nb) * nbpp // 8
        pres = []
        for d in range(depth):
            row = [True] * nblocks
            if mask_mode == 'holes' and nblocks > 1:
                for k in rng.sample(range(nblocks), rng.randint(1, nblocks - 1)):
                    row[k] = False
            pres.append(row)
        slots = [(d, k) for d in range(depth) for k in range(nblocks) if pres[d][k]]
        order = list(range(len(slots)))
        if rng.random() < 0.5:
            rng.shuffle(order)          # recorded blocks need not be stored in block order: the mask table says where each one is
        table = [[ABSENT] * nblocks for _ in range(depth)]
        for pos, j in enumerate(order):
            d, k = slots[j]
            table[d][k] = pos * bsize
        seg['mask'] = {'table': table}
    return seg


def rand_options(rng):
    return {'rev': rng.choice([None, [0], [1], [0, 1], [1, 0], 0, 1]), 'tr': rng.random() < 0.5, 'mm': rng.random() < 0.5}


def make_cases(rng, tier):
    cases = []
    revs = [None, [0], [1], [0, 1]]
    # every IMODE x single / multi band x every orientation option, once per run (the orientation tables of the assembly)
    for imode in 'BPRS':
        for nb in (1, 3):
            if imode == 'S' and nb == 1:
                continue
            for rev in revs:
                for tr in (False, True):
                    seg = rand_segment(rng, imode, nb if nb == 1 else rng.choice([2, 3, 4]), 'N', rng.choice([8, 16, 16, 32]))
                    cases.append({'segs': [seg], 'opts': {'rev': rev, 'tr': tr, 'mm': rng.random() < 0.5}})
    # I/Q and Q/I pairs
    for imode in 'BPRS':
        for cplx in 'IQ':
            for _ in range(2):
                seg = rand_segment(rng, imode, 2, cplx, rng.choice([8, 16, 32]))
                cases.append({'segs': [seg], 'opts': rand_options(rng)})
    # I/Q pairs with transpose_axes where the raw data keeps the bands last (IMODE S, collections): refused at open before a5376d3
    for cplx in 'IQ':
        seg = rand_segment(rng, 'S', 2, cplx, rng.choice([8, 16, 32]))
        cases.append({'segs': [seg], 'opts': {'rev': rng.choice([None, [0], [1], [0, 1]]), 'tr': True, 'mm': rng.random() < 0.5}})
        cols = rng.randint(2, 8)
        segs = [rand_segment(rng, rng.choice('BPRS'), 2, cplx, 16, cols_hint=cols) for _ in range(2)]
        cases.append({'segs': segs, 'opts': {'rev': rng.choice([None, [0], [1], [0, 1]]), 'tr': True, 'mm': rng.random() < 0.5}})
    # two I/Q pairs: band axis kept - outside the Lean model, numpy oracle only
    for imode in 'BPS':
        seg = rand_segment(rng, imode, 4, rng.choice('IQ'), 16)
        cases.append({'segs': [seg], 'opts': rand_options(rng)})
    n_rand = 40 if tier == 'quick' else 1200
    for _ in range(n_rand):
        imode = rng.choice('BPRS')
        nb = rng.randint(2 if imode == 'S' else 1, 4)
        cplx = rng.choice('IQ') if nb == 2 and rng.random() < 0.3 else 'N'
        seg = rand_segment(rng, imode, nb, cplx, rng.choice([8, 16, 32]))
        cases.append({'segs': [seg], 'opts': rand_options(rng)})
    # collections: one image made of several image segments stacked by rows
    n_coll = 24 if tier == 'quick' else 500
    for _ in range(n_coll):
        nseg = rng.randint(2, 3)
        nb = rng.randint(1, 3)
        cplx = rng.choice('IQ') if nb == 2 and rng.random() < 0.35 else 'N'
        nbpp = rng.choice([8, 16, 32])
        cols = rng.randint(2, 8)
        segs = []
        for _s in range(nseg):
            imode = rng.choice('BPRS' if nb > 1 else 'BPR')
            for _t in range(50):
                try:
                    seg = rand_segment(rng, imode, nb, cplx, nbpp, cols_hint=cols)
                    break
                except RuntimeError:
                    imode = 'B'
            segs.append(seg)
        cases.append({'segs': segs, 'opts': rand_options(rng)})
    for i, c in enumerate(cases):
        c['id'] = i
    return cases


# ------------------------------------------------------------------------------------------------ files

def segment_pixels(seg, s):
    """(nb, rows, cols) array of the stored values"""
    dt = _dtype(seg).replace('>', '')
    a = numpy.zeros((seg['nb'], seg['rows'], seg['cols']), dtype=dt)
    for b in range(seg['nb']):
        for r in range(seg['rows']):
            for c in range(seg['cols']):
                a[b, r, c] = _value(seg, s, b, r, c)
    return a


def segment_bytes(seg, s):
    """image data field of one image segment (mask subheader + recorded blocks), laid out as MIL-STD-2500C says for the IMODE"""
    bh, bw = block_hw(seg)
    nb, nbpr, nbpc = seg['nb'], seg['nbpr'], seg['nbpc']
    pix = segment_pixels(seg, s)
    canvas = numpy.full((nb, nbpc * bh, nbpr * bw), _pad_value(seg), dtype=pix.dtype)
    canvas[:, :seg['rows'], :seg['cols']] = pix
    be = _dtype(seg)

    def block(k, band=None):
        br, bc = divmod(k, nbpr)
        blk = canvas[:, br * bh:(br + 1) * bh, bc * bw:(bc + 1) * bw]
        if seg['imode'] == 'S':
            out = blk[band]
        elif seg['imode'] == 'B':
            out = blk
        elif seg['imode'] == 'R':
            out = blk.transpose(1, 0, 2)
        else:
            out = blk.transpose(1, 2, 0)
        return numpy.ascontiguousarray(out).astype(be).tobytes()

    nblocks = nbpr * nbpc
    depth = nb if seg['imode'] == 'S' else 1
    if seg['mask'] is None:
        return b''.join(block(k, d) for d in range(depth) for k in range(nblocks))
    table = seg['mask']['table']
    imdatoff = 10 + 4 * depth * nblocks
    head = struct.pack('>IHHH', imdatoff, 4, 0, 0) + b''.join(struct.pack('>I', v) for row in table for v in row)
    rec = sorted((table[d][k], d, k) for d in range(depth) for k in range(nblocks) if table[d][k] != ABSENT)
    body = b''
    for off, d, k in rec:
        assert off == len(body)
        body += block(k, d)
    return head + body


def build_file(case):
    """-> (file bytes, [offset of each image data field], [its length])"""
    from sarpy.io.general.nitf_elements.nitf_head import NITFHeader, ImageSegmentsType
    from sarpy.io.general.nitf_elements.image import ImageSegmentHeader, ImageBands, ImageBand
    subs, datas = [], []
    row0 = 0
    for s, seg in enumerate(case['segs']):
        nb = seg['nb']
        sub = ['I', 'Q'] if seg['cplx'] == 'I' else ['Q', 'I']
        bands = [ImageBand(IREPBAND='M' if nb == 1 else '', ISUBCAT='' if seg['cplx'] == 'N' else sub[b % 2]) for b in range(nb)]
        hdr = ImageSegmentHeader(
            IID1='SEG%03d' % s, NROWS=seg['rows'], NCOLS=seg['cols'], PVTYPE='SI' if seg['cplx'] != 'N' else 'INT',
            IREP='MONO' if nb == 1 else ('NODISPLY' if seg['cplx'] != 'N' else 'MULTI'), ICAT='SAR' if seg['cplx'] != 'N' else 'VIS',
            ABPP=seg['nbpp'], NBPP=seg['nbpp'], IC='NC' if seg['mask'] is None else 'NM', IMODE=seg['imode'], NBPR=seg['nbpr'], NBPC=seg['nbpc'],
            NPPBH=seg['nppbh'], NPPBV=seg['nppbv'], IDLVL=s + 1, IALVL=s, ILOC='%05d%05d' % (0 if s == 0 else row0, 0), ICORDS='',
            Bands=ImageBands(values=bands))
        row0 = seg['rows']        # the next member is attached to this one, displaced by its number of rows
        subs.append(hdr.to_bytes())
        datas.append(segment_bytes(seg, s))
    h = NITFHeader(CLEVEL=3, OSTAID='verif', FDT='20200101000000', FTITLE='nitfasm', FL=0)
    h.ImageSegments = ImageSegmentsType(subhead_sizes=numpy.array([len(x) for x in subs], dtype='int64'),
                                        item_sizes=numpy.array([len(x) for x in datas], dtype='int64'))
    h.HL = h.get_bytes_length()
    h.FL = h.HL + sum(len(x) for x in subs) + sum(len(x) for x in datas)
    out = h.to_bytes()
    offs = []
    for sb, d in zip(subs, datas):
        out += sb
        offs.append(len(out))
        out += d
    return out, offs, [len(d) for d in datas]


# ------------------------------------------------------------------------------------------------ model side

def modelled(case):
    """the Lean model covers everything generated here except complex with more than one I/Q pair"""
    return all(seg['cplx'] == 'N' or seg['nb'] == 2 for seg in case['segs'])


def rev_list(rev):
    if rev is None:
        return []
    if isinstance(rev, int):
        return [rev]
    return list(rev)


def header_tokens(case, offs, sizes):
    toks = [str(len(case['segs']))]
    row0 = 0
    for s, (seg, off, size) in enumerate(zip(case['segs'], offs, sizes)):
        toks.append(','.join(str(x) for x in (
            seg['rows'], seg['cols'], seg['nb'], seg['imode'], seg['nbpr'], seg['nbpc'], seg['nppbh'], seg['nppbv'], seg['nbpp'] // 8,
            {'N': 'N', 'I': 'I', 'Q': 'Q'}[seg['cplx']], off, size, 0 if s == 0 else row0, 0)))
        row0 = seg['rows']
        if seg['mask'] is None:
            toks.append('-')
        else:
            t = seg['mask']['table']
            toks.append(f'{10 + 4 * len(t) * len(t[0])}/' + '|'.join(','.join(str(v) for v in row) for row in t))
    o = case['opts']
    toks.append(f'{"".join(str(e) for e in rev_list(o["rev"])) or "-"},{int(o["tr"])},{int(o["mm"])}')
    return ' '.join(toks)


def _norm_slice(rng, n):
    step = rng.choice((1, 1, 1, -1, 2, -2, 3, -3))
    a = rng.randrange(n)
    if step > 0:
        return [a, rng.randint(a + 1, n), step]
    return [a, rng.choice([None] + list(range(0, a))) if a > 0 else None, step]


def _sub_token(sub):
    o = lambda v: 'N' if v is None else str(int(v))
    return ';'.join(f'{o(a)}/{o(b)}/{o(c)}' for a, b, c in sub)


def shapes_of(case):
    """(formatted shape, raw shape) by the documented rules - used to draw subscripts"""
    segs = case['segs']
    rows, cols, nb = sum(s['rows'] for s in segs), segs[0]['cols'], segs[0]['nb']
    cplx = segs[0]['cplx'] != 'N'
    f = [cols, rows] if case['opts']['tr'] else [rows, cols]
    if cplx:
        if nb > 2:
            f.append(nb // 2)
    elif nb > 1:
        f.append(nb)
    if nb == 1:
        raw = [rows, cols]
    elif len(segs) > 1 or segs[0]['imode'] in 'PS':
        raw = [rows, cols, nb]
    elif segs[0]['imode'] == 'B':
        raw = [nb, rows, cols]
    else:
        raw = [rows, nb, cols]
    return f, raw


def plan(drv, rng, tier, cases=None):
    logging.disable(logging.CRITICAL)
    cases = cases if cases is not None else make_cases(rng, tier)
    nsub, nraw = (5, 2) if tier == 'quick' else (8, 4)
    jobs = []
    for case in cases:
        buf, offs, sizes = build_file(case)
        job = {'case': case, 'buf': buf, 'offs': offs, 'sizes': sizes, 'modelled': modelled(case), 'q': {}, 'subs': [], 'rawsubs': []}
        fshape, rshape = shapes_of(case)
        job['subs'] = [[_norm_slice(rng, n) for n in fshape] for _ in range(nsub)]
        job['rawsubs'] = [[_norm_slice(rng, n) for n in rshape] for _ in range(nraw)]
        if job['modelled'] and drv is not None:
            ht = header_tokens(case, offs, sizes)
            for op in ('shape', 'wf', 'full', 'spec', 'rawfull'):
                job['q'][op] = drv.ask(f'nitfasm {op} {ht}')
            job['q']['read'] = [drv.ask(f'nitfasm read {ht} {_sub_token(s)}') for s in job['subs']]
            job['q']['rawread'] = [drv.ask(f'nitfasm rawread {ht} {_sub_token(s)}') for s in job['rawsubs']]
        jobs.append(job)
    return {'jobs': jobs}


class _Decode:
    """turn the driver's provenance answer into the values found at those places of the file"""

    def __init__(self, case, buf):
        self.buf = buf
        self.bps = case['segs'][0]['nbpp'] // 8
        self.signed = case['segs'][0]['cplx'] != 'N'

    def one(self, tok):
        if tok == 'F':
            return 0
        lid, _, flat = tok.partition(':')
        p = int(lid) + int(flat) * self.bps
        if p < 0 or p + self.bps > len(self.buf):
            raise ValueError(f'provenance {tok} points outside the file')
        return int.from_bytes(self.buf[p:p + self.bps], 'big', signed=self.signed)

    def arr(self, answer):
        shape_s, _, body = answer.partition(' |')
        shape = [] if shape_s.strip() == '-' else [int(x) for x in shape_s.strip().split(',')]
        toks = body.split()
        if toks and toks[0].startswith('C('):
            vals = []
            for t in toks:
                re, _, im = t[2:-1].partition(',')
                vals.append(complex(self.one(re), self.one(im)))
            return numpy.array(vals, dtype='complex128').reshape(shape)
        return numpy.array([self.one(t) for t in toks], dtype='int64').reshape(shape)


# ------------------------------------------------------------------------------------------------ the numpy oracle

def decoded_segments(case):
    """per image segment the (nb, rows, cols) image a reader must see: stored values, 0 where the block is not recorded"""
    out = []
    for s, seg in enumerate(case['segs']):
        pix = segment_pixels(seg, s).astype('int64')
        if seg['mask'] is not None:
            bh, bw = block_hw(seg)
            for d, row in enumerate(seg['mask']['table']):
                for k, v in enumerate(row):
                    if v == ABSENT:
                        br, bc = divmod(k, seg['nbpr'])
                        bsel = slice(d, d + 1) if seg['imode'] == 'S' else slice(None)
                        pix[bsel, br * bh:(br + 1) * bh, bc * bw:(bc + 1) * bw] = 0
        out.append(pix)
    return out


def oracle_images(case):
    """(formatted, raw): the documented orientation / pairing transform of the decoded image, by plain numpy"""
    segs = case['segs']
    img = numpy.concatenate(decoded_segments(case), axis=1)          # (nb, rows, cols), members stacked by rows
    nb = segs[0]['nb']
    last = img.transpose(1, 2, 0)
    if nb == 1:
        raw = last[:, :, 0]
    elif len(segs) > 1 or segs[0]['imode'] in 'PS':
        raw = last
    elif segs[0]['imode'] == 'B':
        raw = img
    else:
        raw = img.transpose(1, 0, 2)
    if segs[0]['cplx'] != 'N':
        first, second = last[:, :, 0::2].astype('float64'), last[:, :, 1::2].astype('float64')
        f = (first + 1j * second) if segs[0]['cplx'] == 'I' else (second + 1j * first)
        if nb == 2:
            f = f[:, :, 0]
    else:
        f = last[:, :, 0] if nb == 1 else last
    for ax in sorted(set(rev_list(case['opts']['rev']))):
        f = numpy.flip(f, axis=ax)
    if case['opts']['tr']:
        f = numpy.swapaxes(f, 0, 1)
    return f, raw


def _py_sub(sub):
    return tuple(slice(*x) for x in sub)


def _same(got, want):
    got = numpy.asarray(got)
    if tuple(got.shape) != tuple(want.shape):
        return False
    if numpy.iscomplexobj(got) or numpy.iscomplexobj(want):
        return bool(numpy.array_equal(got.astype('complex128'), want.astype('complex128')))
    return bool(numpy.array_equal(got.astype('int64'), want.astype('int64')))


def open_reader(case, buf, tmpdir):
    """NITFReader on a path (memmap segments) or a BytesIO (file-read segments).  A case with several image segments is opened through a
    subclass that only groups them into one collection, through the documented extension point `find_image_segment_collections`
    (the SICD / SIDD readers do the same); everything else is the reader as shipped"""
    from sarpy.io.general.nitf import NITFReader
    nseg = len(case['segs'])

    class CollectionReader(NITFReader):
        def find_image_segment_collections(self):
            return (tuple(range(nseg)), )

    cls = CollectionReader if nseg > 1 else NITFReader
    o = case['opts']
    rev = o['rev'] if (o['rev'] is None or isinstance(o['rev'], int)) else tuple(o['rev'])
    kw = {'reverse_axes': rev, 'transpose_axes': (1, 0) if o['tr'] else None}
    if o['mm']:
        path = os.path.join(tmpdir, 'asm_%d.ntf' % case.get('id', 0))
        with open(path, 'wb') as f:
            f.write(buf)
        return cls(path, **kw)
    return cls(io.BytesIO(buf), **kw)


def case_class(case):
    s0 = case['segs'][0]
    return (len(case['segs']) > 1, ''.join(s['imode'] for s in case['segs']), min(s0['nb'], 2), s0['cplx'], s0['nbpp'],
            tuple(s['grid'] for s in case['segs']), tuple((s['mask'] is not None) + (s['mask'] is not None and any(v == ABSENT for r in s['mask']['table'] for v in r))
                                                           for s in case['segs']),
            tuple(sorted(set(rev_list(case['opts']['rev'])))), case['opts']['tr'], case['opts']['mm'])


def run_oracle(case, buf, tmpdir, subs, rawsubs, fails, stats, collect=None):
    """open the file and compare every read with the numpy oracle.  Appends failure dicts; returns the opened reader's segment
    or None.  `collect`: dict receiving the implementation's arrays for the model comparison."""
    desc = {k: v for k, v in case.items()}
    try:
        rdr = open_reader(case, buf, tmpdir)
    except Exception as e:
        stats['open_refused'] = stats.get('open_refused', 0) + 1
        fails.append({'kind': 'nitf', 'case': desc, 'msg': f'NITFReader refuses a valid file at open: {type(e).__name__}: {e}'})
        return None
    try:
        seg = rdr.data_segment
        if isinstance(seg, tuple):
            fails.append({'kind': 'nitf', 'case': desc, 'msg': f'expected one image, reader presents {len(seg)}'})
            return None
        want, wraw = oracle_images(case)
        segs0 = case['segs'][0]
        stats['files'] = stats.get('files', 0) + 1

        kept = segs0['cplx'] != 'N' and segs0['nb'] > 2

        def fail(msg, sub=None, raw=False):
            f = {'kind': 'nitf', 'case': desc, 'sub': sub, 'raw': raw, 'msg': msg}
            # the listed finding of ComplexFormatFunction with the band dimension kept (format_function.py): its trigger is a
            # non-unit step along the kept band axis
            if kept and sub is not None and not raw and len(sub) == 3 and sub[2][2] != 1 and 'Slicing along the complex dimension' in msg:
                f['key'] = 'complex-kept-band-nonunit-step'
            fails.append(f)

        if tuple(seg.formatted_shape) != want.shape or tuple(rdr.get_data_size_as_tuple()[0]) != want.shape:
            fail(f'advertised formatted shape {seg.formatted_shape} / data size {rdr.get_data_size_as_tuple()[0]} != rows x cols [x bands] after the '
                 f'orientation options {want.shape}')
        if tuple(seg.raw_shape) != wraw.shape:
            fail(f'advertised raw shape {seg.raw_shape} != {wraw.shape}')
        got = {}
        try:
            got['full'] = seg.read(None, squeeze=False)
            stats['reads'] = stats.get('reads', 0) + 1
            if not _same(got['full'], want):
                fail('full read differs from the documented orientation transform of the decoded image')
            full2 = rdr.read(squeeze=False)
            if not _same(full2, want):
                fail('reader.read() differs from the documented orientation transform of the decoded image')
        except Exception as e:
            fail(f'full read raised {type(e).__name__}: {e}')
        try:
            got['rawfull'] = seg.read_raw(None, squeeze=False)
            stats['reads'] = stats.get('reads', 0) + 1
            if not _same(got['rawfull'], wraw):
                fail('full raw read differs from the stored image', raw=True)
        except Exception as e:
            fail(f'full raw read raised {type(e).__name__}: {e}', raw=True)
        got['read'], got['rawread'] = [], []
        for sub in subs:
            stats['reads'] = stats.get('reads', 0) + 1
            try:
                g = seg.read(_py_sub(sub), squeeze=False)
                g2 = rdr[_py_sub(sub)]
            except Exception as e:
                got['read'].append(None)
                fail(f'supported subscript refused: {type(e).__name__}: {e}', sub)
                continue
            got['read'].append(g)
            w = want[_py_sub(sub)]
            if not _same(g, w) or not _same(g2, numpy.squeeze(w)):
                fail(f'read of a sub-region (shape {g.shape}) differs from slicing the full image (shape {w.shape})', sub)
        for sub in rawsubs:
            stats['reads'] = stats.get('reads', 0) + 1
            try:
                g = seg.read_raw(_py_sub(sub), squeeze=False)
            except Exception as e:
                got['rawread'].append(None)
                fail(f'supported raw subscript refused: {type(e).__name__}: {e}', sub, True)
                continue
            got['rawread'].append(g)
            if not _same(g, wraw[_py_sub(sub)]):
                fail('raw read of a sub-region differs from slicing the stored image', sub, True)
        if collect is not None:
            collect.update(got)
            collect['fshape'] = tuple(seg.formatted_shape)
            collect['rshape'] = tuple(seg.raw_shape)
        return seg
    finally:
        try:
            rdr.close()
        except Exception:
            pass


# ------------------------------------------------------------------------------------------------ check

def check(plan_, ans, tmpdir):
    """-> (disagreements model vs implementation, oracle failures, stats)"""
    logging.disable(logging.CRITICAL)
    dis, fails = [], []
    stats = {'cases': len(plan_['jobs']), 'modelled': 0, 'model_compared': 0, 'classes': set(), 'spec_vs_tree': 0}
    for job in plan_['jobs']:
        case, buf = job['case'], job['buf']
        stats['classes'].add(case_class(case))
        impl = {}
        nf = len(fails)
        seg = run_oracle(case, buf, tmpdir, job['subs'], job['rawsubs'], fails, stats, impl)
        if not (job['modelled'] and ans is not None and job['q']):
            continue
        stats['modelled'] += 1
        q = job['q']
        desc = case

        def disagree(what, model, im, sub=None):
            dis.append({'case': desc, 'sub': sub, 'model': str(model)[:300], 'impl': str(im)[:300], 'tie': 'NITF assembly model (' + what + ')'})

        m_shape = ans[q['shape']]
        if seg is None:
            new = fails[nf:]
            if m_shape != 'refused':
                disagree('open', m_shape, 'refused at open')
            continue
        if m_shape == 'refused':
            disagree('open', 'refused', 'opened')
            continue
        if ans[q['wf']] != 'true':
            disagree('well-formedness', 'assembled tree is not well formed', 'opened')
            continue
        nats = lambda t: ','.join(str(int(x)) for x in t) if len(t) else '-'
        if m_shape != f"{nats(impl['fshape'])} / {nats(impl['rshape'])}":
            disagree('shapes', m_shape, f"{nats(impl['fshape'])} / {nats(impl['rshape'])}")
            continue
        dec = _Decode(case, buf)
        if ans[q['spec']] != ans[q['full']]:
            # cannot happen once `assemble_spec` is proved; kept as a run-time cross-check of the driver's two routes
            stats['spec_vs_tree'] += 1
            disagree('specification vs assembled tree', ans[q['spec']], ans[q['full']])
        pairs = [('full', ans[q['full']], impl.get('full'), None), ('rawfull', ans[q['rawfull']], impl.get('rawfull'), None)]
        pairs += [('read', ans[i], g, s) for i, g, s in zip(q['read'], impl.get('read', []), job['subs'])]
        pairs += [('rawread', ans[i], g, s) for i, g, s in zip(q['rawread'], impl.get('rawread', []), job['rawsubs'])]
        for what, a, g, sub in pairs:
            if g is None:
                if a != 'refused':
                    disagree(what, a, 'raised', sub)
                continue
            stats['model_compared'] += 1
            if a == 'refused':
                disagree(what, a, f'array of shape {g.shape}', sub)
                continue
            try:
                m = dec.arr(a)
            except Exception as e:
                disagree(what, f'{a[:120]} ({e})', f'array of shape {g.shape}', sub)
                continue
            if not _same(g, m):
                disagree(what + ': the bytes at the file positions the model names are not the values sarpy returned', a, numpy.asarray(g).ravel().tolist(), sub)
                break
    stats['classes'] = len(stats['classes'])
    stats['rule'] = ('hand-assembled NITF 2.1 files: every IMODE (B P R S) x single / multi band x every (reverse_axes, transpose_axes) once per run, '
                     'I/Q and Q/I pairs, random cases (1-4 bands, 8/16/32 bit, grids single0 / single / singlepad / exact / pad / mixed0, mask none / '
                     'full / with absent blocks, shuffled recorded blocks), 2-3 segment collections stacked by rows; path (memmap) or BytesIO '
                     '(file-read); full + random normalised sub-regions (steps +-1 +-2 +-3), formatted and raw; classes = distinct (collection?, '
                     'IMODEs, bands, complex, bits, grids, mask kinds, reverse set, transpose, access) tuples')
    return dis, fails, stats


def regenerate(chk=None):
    """regenerate Gen/NitfOrient.lean from the current source (call before chk.prove builds NITF_MODULE)"""
    import sys
    from common import VERIF
    sys.path.insert(0, os.path.join(VERIF, 'translate'))
    import gen_nitf_orient
    info = gen_nitf_orient.generate(os.path.join(VERIF, 'lean', 'SarpyModel', 'Gen', 'NitfOrient.lean'))
    if chk is not None:
        chk.coverage['translator_nitf_orient'] = info
    return info


def obligations(chk, broken):
    """audit Props/C01Nitf*.lean (add NITF_MODULE to the chk.prove targets so that it is built)"""
    import segmodel
    segmodel._obligations(chk, broken, NITF_MODULE, NITF_NS, REQUIRED_NITF, 'C01Nitf')


ASSUMPTIONS = [
    'NITF assembly: theorems assemble_wf / assemble_shape / assemble_spec (Props/C01Nitf.lean) are about Spec.NitfAssembly, a hand-written mirror of '
    'NITFReader._handle_no_compression / _handle_imode_s_no_compression / create_data_segment_for_collection_element (no translator); it is tied to '
    'the code by the correspondence on hand-assembled real files of this run (model provenance = file byte positions) and searched by the numpy oracle. '
    'Outside the model (oracle only): complex with two I/Q pairs (band axis kept). Not generated: compressed images, LUT, MP/PM, NITF 2.0, '
    'more blocks than the Linux file-handle guard of _handle_no_compression admits (RLIMIT_NOFILE/6 - 4), collections not listed in display-level order',
]


def replay_case(f):
    """replay one failing file on the implementation alone"""
    import shutil
    import tempfile
    case = f['case']
    tmpdir = tempfile.mkdtemp(prefix='nitfasm_', dir=os.environ.get('VERIF_SCRATCH', '/var/tmp'))
    try:
        buf, _, _ = build_file(case)
        fails = []
        subs = [f['sub']] if f.get('sub') and not f.get('raw') else []
        rawsubs = [f['sub']] if f.get('sub') and f.get('raw') else []
        run_oracle(case, buf, tmpdir, subs, rawsubs, fails, {})
        for x in fails:
            print(x['msg'])
        return 1 if fails else 0
    finally:
        shutil.rmtree(tmpdir, ignore_errors=True)
