"""C10 — a SIDD written by sarpy reads back with the same images and metadata.

proof side : lean/SarpyModel/Props/C10.lean (IID1 regrouping for any image/segment counts) + C02 row routing + C03 layout
tie        : correspondence: IID1 element numbers and groups of real files vs the Lean model; C03/C01 translator ties
search     : write -> open_product -> compare image count, pixels (bit exact), SIDD and embedded SICD structures; out-of-band parse
"""
import json
import logging
import os
import shutil
import tempfile

import numpy

from common import Check, Driver, Infra, sarpy_guard
import nitfparse
import sargen
from c02 import meta_diff, strip

REQUIRED = ['indicesOf_append', 'groups_from', 'regroup_iidList', 'expectedGroups_flatten']


def run(tier):
    sarpy_guard()
    from sarpy.io.product.converter import open_product
    chk = Check('C10', tier)
    rng = chk.rng
    broken = chk.prove(['SarpyModel.Props.C10', 'SarpyModel.Drivers'], 'SarpyModel.Props.C10', 'Sarpy.Props.C10', REQUIRED)
    fails, stats, seen, jobs = [], {}, set(), []
    drv = Driver()
    tmpdir = tempfile.mkdtemp(prefix='c10_', dir=os.environ.get('VERIF_SCRATCH', '/var/tmp'))
    logging.disable(logging.CRITICAL)
    try:
        for _ in range(24 if tier == 'quick' else 300):
            nim = rng.choice([1, 1, 2, 3, 4])
            pt = rng.choice(['MONO8I', 'MONO16I', 'RGB24I'])
            shapes = [(rng.randint(2, 40), rng.randint(2, 30)) for _ in range(nim)]
            row_limit = rng.choice([None, rng.randint(1, 15), 7])
            target = rng.choice(['path', 'bytesio'])
            nsicd = rng.choice([0, 0, 0, 1, 1, 2, 3])      # number of parent SICD structures embedded (independent of the image count)
            with_sicd = nsicd > 0
            plans = {}
            for i, (r, c) in enumerate(shapes):
                ch = sargen.row_chunks(rng, r, 4)
                rng.shuffle(ch)
                plans[i] = ch
            # SIDD version of the structures (the example document is version 2; 1 and 3 come from sarpy's own structure creation),
            # and the write history: chunks of the images interleaved, non-forced flushes in between
            version = rng.choice([None, None, 1, 2, 3])
            order = None
            hist = rng.choice(['per-image', 'per-image', 'interleaved', 'flushes'])
            if hist != 'per-image':
                order = [(i, a, b) for i in plans for a, b in plans[i]]
                rng.shuffle(order)
                if hist == 'flushes':
                    k = 0
                    while k < len(order):
                        k += rng.randint(1, 3)
                        order.insert(min(k, len(order)), 'flush')
                        k += 1
            case = {'shapes': shapes, 'pixel_type': pt, 'row_limit': row_limit, 'target': target, 'with_sicd': with_sicd, 'nsicd': nsicd, 'plans': plans,
                    'version': version, 'order': order}
            seen.add((pt, nim, row_limit is not None, target, min(nsicd, 2), nsicd > nim, version, hist))
            metas = [sargen.small_sidd(r, c, pt, version=version) for r, c in shapes]
            datas = [sargen.sidd_pixels(rng, r, c, pt) for r, c in shapes]
            sicds = []
            for k_ in range(nsicd):
                sk = sargen.small_sicd(20 + k_, 10 + 2 * k_)
                sk.CollectionInfo.CoreName = f'parent{k_}'
                sicds.append(sk)
            sicd = None if not sicds else (sicds[0] if nsicd == 1 and rng.random() < 0.5 else sicds)
            try:
                buf, det = sargen.write_sidd(metas, datas, target, tmpdir, row_limit=row_limit, sicd_meta=sicd, chunk_plans=plans, order=order)
            except Exception as e:
                fails.append({'kind': 'write', 'msg': f'SIDD write refused: {type(e).__name__}: {e}', 'case': case})
                continue
            stats['files'] = stats.get('files', 0) + 1
            path = os.path.join(tmpdir, 'sidd.nitf')
            if target != 'path':
                open(path, 'wb').write(buf)
            problems, summ = nitfparse.check_structure(buf)
            for p in problems:
                fails.append({'kind': 'structure', 'msg': 'written SIDD is not structurally consistent: ' + p, 'case': case})
            if summ:
                iids = [im['IID1'].decode().strip() for im in summ['images']]
                elems = []
                for s in iids:
                    if not (s.startswith('SIDD') and len(s) == 10 and s[4:].isdigit()):
                        fails.append({'kind': 'structure', 'msg': f'image segment IID1 {s!r} is not SIDD######', 'case': case})
                        elems = None
                        break
                    elems.append(int(s[4:7]))
                if elems is not None:
                    counts = [sum(1 for e in elems if e == k + 1) for k in range(nim)]
                    jobs.append((case, elems, counts, drv.ask(f'sidd regroup {nim} ' + ','.join(map(str, elems))), drv.ask('sidd iid ' + ','.join(map(str, counts)))))
            try:
                rdr = open_product(path)
            except Exception as e:
                fails.append({'kind': 'read', 'msg': f'open_product raised {type(e).__name__}: {e}', 'case': case})
                continue
            try:
                if type(rdr).__name__ != 'SIDDReader' or rdr.image_count != nim:
                    fails.append({'kind': 'read', 'msg': f'reopened as {type(rdr).__name__} with {rdr.image_count} images, wrote {nim}', 'case': case})
                    continue
                sizes = rdr.get_data_size_as_tuple()
                for i, d in enumerate(datas):
                    got = rdr.read(index=i, squeeze=False)
                    if tuple(got.shape) != tuple(d.shape) or (got.dtype.kind, got.dtype.itemsize) != (d.dtype.kind, d.dtype.itemsize) or not numpy.array_equal(got, d):
                        fails.append({'kind': 'pixels', 'msg': f'image {i}: pixels/shape/dtype differ after write/read (wrote {d.shape} {d.dtype}, read {got.shape} {got.dtype})', 'case': case})
                    if tuple(sizes[i][:2]) != tuple(d.shape[:2]):
                        fails.append({'kind': 'pixels', 'msg': f'image {i}: advertised size {sizes[i]} != written {d.shape}', 'case': case})
                    m = meta_diff(metas[i].to_dict(), rdr.get_sidds_as_tuple()[i].to_dict())
                    if m:
                        fails.append({'kind': 'metadata', 'msg': f'image {i}: SIDD structure differs after write/read: {m}', 'case': case})
                    if type(rdr.get_sidds_as_tuple()[i]) is not type(metas[i]):
                        fails.append({'kind': 'metadata', 'msg': f'image {i}: SIDD version changed: {type(rdr.get_sidds_as_tuple()[i]).__name__}', 'case': case})
                if with_sicd:
                    got_sicd = rdr.sicd_meta
                    got_sicd = got_sicd if isinstance(got_sicd, (tuple, list)) else ([got_sicd] if got_sicd is not None else [])
                    if len(got_sicd) != nsicd:
                        fails.append({'kind': 'metadata', 'msg': f'embedded SICD structures: wrote {nsicd} ({[x.CollectionInfo.CoreName for x in sicds]}), '
                                                                 f'read {len(got_sicd)} ({[x.CollectionInfo.CoreName for x in got_sicd]})', 'case': case})
                    else:
                        for k_, (a0, b0) in enumerate(zip(sicds, got_sicd)):
                            a, b = a0.copy(), b0.copy()
                            a.derive(); b.derive()
                            m = meta_diff(strip(a.to_dict()), strip(b.to_dict()))
                            if m:
                                fails.append({'kind': 'metadata', 'msg': f'embedded SICD structure {k_} differs after write/read: ' + m, 'case': case})
            except Exception as e:
                fails.append({'kind': 'read', 'msg': f'reading back raised {type(e).__name__}: {e}', 'case': case})
            finally:
                rdr.close()
    finally:
        shutil.rmtree(tmpdir, ignore_errors=True)
        logging.disable(logging.NOTSET)
    disagreements = []
    try:
        ans = drv.run()
        for case, elems, counts, i1, i2 in jobs:
            stats['model_cases'] = stats.get('model_cases', 0) + 1
            model_elems, groups = ans[i2].split(' ')
            if ans[i1] != 'ok ' + groups or model_elems != ','.join(map(str, elems)):
                disagreements.append({'case': case, 'impl_elems': elems, 'model': ans[i1][:200], 'expected': ans[i2][:200]})
    except Infra as e:
        broken.append('model driver does not build/run: ' + str(e)[:300])
    chk.coverage.update({
        'evaluations': stats.get('files', 0) + stats.get('model_cases', 0), 'distinct_nontrivial': len(seen),
        'rule': 'SIDD files (structures of version 1, 2, 3) with 1-4 images of differing sizes x MONO8I/MONO16I/RGB24I x row limits x per-image random row-chunk orders x chunks written per image / interleaved across images / with non-forced flushes in between x path/BytesIO x optional embedded SICD; '
                'distinct = (pixel type, image count, segmented?, target, embedded SICD?)',
        'samples': [j[0] for j in jobs[:2]], 'stats': stats, 'traces_validated_against_impl': stats.get('model_cases', 0),
        'disagreements_checked': len(disagreements)})
    chk.assumptions += ['SIDD structures: tests/data/example.sidd.xml (version 2) resized, and structures of version 1 / 2 / 3 made by sarpy\'s own create_sidd_structure_v* from a synthetic SICD',
                        'pixel routing and layout rest on C02/C03 theorems; regrouping model tied by comparing IID1 element numbers/groups of real files']
    unknown = [f for f in fails if not (f.get('key') and chk.known(f['key']))]
    for f in unknown[:5]:
        chk.violation(f['msg'], {'case': f, 'replay_cmd': './check C10 --replay <this file>'}, True)
    if not unknown and (broken or disagreements):
        chk.violation('proof obligation or correspondence no longer checks: ' + '; '.join(broken[:3] + [json.dumps(d, default=str)[:300] for d in disagreements[:2]]),
                      {'broken_obligations': broken, 'disagreements': disagreements[:10]}, False)
    chk.coverage['failing_inputs'] = len(fails)
    return chk.finish()


def replay(path):
    print(json.dumps(json.load(open(path))['case'])[:2000])
    return 1
