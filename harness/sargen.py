"""Generators of small, valid sarpy products (SICD, SIDD, general NITF), shared by C02 C03 C10 C14 C15 C18 C19.
Every random choice comes from the rng handed in."""
import io
import logging
import os

import numpy

REPO = os.environ.get('SARPY_REPO', '/repo')
_cache = {}


def base_sicd(kind='pfa'):
    from sarpy.io.complex.sicd_elements.SICD import SICDType
    path = os.path.join(REPO, 'tests', 'data', 'example.sicd.xml' if kind == 'pfa' else 'example.sicd.rma.xml')
    if path not in _cache:
        _cache[path] = SICDType.from_xml_file(path)
    return _cache[path].copy()


def small_sicd(rows, cols, pixel_type='RE32F_IM32F', kind='pfa', amp_table=None):
    s = base_sicd(kind)
    s.ImageData.NumRows = rows
    s.ImageData.NumCols = cols
    s.ImageData.FullImage.NumRows = rows
    s.ImageData.FullImage.NumCols = cols
    s.ImageData.FirstRow = 0
    s.ImageData.FirstCol = 0
    s.ImageData.PixelType = pixel_type
    s.ImageData.SCPPixel.Row = rows // 2
    s.ImageData.SCPPixel.Col = cols // 2
    s.ImageData.ValidData = None
    if pixel_type == 'AMP8I_PHS8I':
        s.ImageData.AmpTable = amp_table if amp_table is not None else numpy.linspace(0.0, 255.0, 256)
    else:
        s.ImageData.AmpTable = None
    return s


def pixel_array(rng, rows, cols, pixel_type):
    if pixel_type == 'RE32F_IM32F':
        re = numpy.array([[rng.uniform(-100, 100) for _ in range(cols)] for _ in range(rows)], dtype='float32')
        im = numpy.array([[rng.uniform(-100, 100) for _ in range(cols)] for _ in range(rows)], dtype='float32')
        return (re + 1j * im).astype('complex64')
    if pixel_type == 'RE16I_IM16I':
        re = numpy.array([[rng.randint(-32768, 32767) for _ in range(cols)] for _ in range(rows)], dtype='float32')
        im = numpy.array([[rng.randint(-32768, 32767) for _ in range(cols)] for _ in range(rows)], dtype='float32')
        return (re + 1j * im).astype('complex64')
    raise ValueError(pixel_type)


def row_chunks(rng, rows, max_chunks=4):
    n = rng.randint(1, min(max_chunks, rows))
    cuts = sorted(rng.sample(range(1, rows), n - 1)) if n > 1 else []
    edges = [0] + cuts + [rows]
    return list(zip(edges[:-1], edges[1:]))


def write_sicd(meta, data, target, tmpdir, row_limit=None, chunks=None, order=None, flush_after=(), additional_des=None, name='out.nitf',
               raw=None):
    """returns the bytes of the produced file. target: 'path' | 'bytesio' | 'fileobj'"""
    from sarpy.io.complex.sicd import SICDWriter, SICDWritingDetails
    logging.disable(logging.CRITICAL)
    det = SICDWritingDetails(meta.copy(), row_limit=row_limit, additional_des=additional_des)
    rows = data.shape[0]
    chunks = chunks or [(0, rows)]
    order = list(order) if order is not None else list(range(len(chunks)))
    path = os.path.join(tmpdir, name)
    if os.path.exists(path):
        os.remove(path)
    if target == 'path':
        fo = path
    elif target == 'bytesio':
        fo = io.BytesIO()
    else:
        fo = open(path, 'w+b')
    w = SICDWriter(fo, sicd_writing_details=det, check_existence=False)
    for k, ci in enumerate(order):
        if len(chunks[ci]) == 3:
            # a strided chunk (every `step`-th row from a), addressed by subscript
            a, b, step = chunks[ci]
            w.write(data[a:b:step], subscript=(slice(a, b, step), slice(0, data.shape[1], 1)))
        else:
            a, b = chunks[ci]
            w.write(data[a:b], start_indices=(a, 0))
        if k in flush_after:
            w.flush()
    w.close()
    if target == 'path':
        out = open(path, 'rb').read()
    elif target == 'bytesio':
        out = fo.getvalue()
    else:
        fo.flush()
        fo.seek(0)
        out = fo.read()
        fo.close()
    return out, det


def base_sidd():
    from sarpy.io.product.sidd import SIDDType2
    path = os.path.join(REPO, 'tests', 'data', 'example.sidd.xml')
    if path not in _cache:
        _cache[path] = SIDDType2.from_xml_file(path)
    return _cache[path].copy()


def versioned_sidd(version):
    """a SIDD structure of version 1, 2 or 3 made by sarpy's own structure creation from a small synthetic SICD"""
    key = ('sidd-version', version)
    if key not in _cache:
        from sarpy.io.complex.base import FlatSICDReader
        from sarpy.processing.ortho_rectify import NearestNeighborMethod, PGProjection
        from sarpy.processing.sidd import sidd_structure_creation as ssc
        meta = small_sicd(30, 20)
        rd = FlatSICDReader(meta, numpy.ones((30, 20), dtype='complex64'))
        oh = NearestNeighborMethod(rd, index=0, proj_helper=PGProjection(meta))
        f = {1: ssc.create_sidd_structure_v1, 2: ssc.create_sidd_structure_v2, 3: ssc.create_sidd_structure_v3}[version]
        _cache[key] = f(oh, oh.get_full_ortho_bounds(), 'Detected Image', 'MONO8I')
    return _cache[key].copy()


def small_sidd(rows, cols, pixel_type='MONO8I', version=None):
    s = base_sidd() if version is None else versioned_sidd(version)
    s.Measurement.PixelFootprint.Row = rows
    s.Measurement.PixelFootprint.Col = cols
    s.Display.PixelType = pixel_type
    return s


def sidd_pixels(rng, rows, cols, pixel_type):
    if pixel_type == 'MONO8I':
        return numpy.array([[rng.randrange(256) for _ in range(cols)] for _ in range(rows)], dtype='uint8')
    if pixel_type == 'MONO16I':
        return numpy.array([[rng.randrange(65536) for _ in range(cols)] for _ in range(rows)], dtype='uint16')
    if pixel_type == 'RGB24I':
        return numpy.array([[[rng.randrange(256) for _ in range(3)] for _ in range(cols)] for _ in range(rows)], dtype='uint8')
    raise ValueError(pixel_type)


def write_sidd(metas, datas, target, tmpdir, row_limit=None, sicd_meta=None, name='sidd.nitf', chunk_plans=None, order=None, additional_des=None):
    from sarpy.io.product.sidd import SIDDWriter, SIDDWritingDetails
    logging.disable(logging.CRITICAL)
    det = SIDDWritingDetails([m.copy() for m in metas], sicd_meta, row_limit=row_limit, additional_des=additional_des)
    path = os.path.join(tmpdir, name)
    if os.path.exists(path):
        os.remove(path)
    fo = path if target == 'path' else io.BytesIO()
    w = SIDDWriter(fo, sidd_writing_details=det, check_existence=False)
    steps = []
    for i, d in enumerate(datas):
        plan = (chunk_plans or {}).get(i) or [(0, d.shape[0])]
        steps += [(i, a, b) for a, b in plan]
    if order is not None:          # interleave the chunks of the images / flush in between: [(image, a, b) | 'flush']
        steps = order
    for st in steps:
        if st == 'flush':
            w.flush()
            continue
        i, a, b = st
        d = datas[i]
        w.write(d[a:b], start_indices=(a, 0) if d.ndim == 2 else (a, 0, 0), index=i)
    w.close()
    out = open(path, 'rb').read() if target == 'path' else fo.getvalue()
    return out, det
