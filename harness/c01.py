"""C01 — reading a sub-region equals slicing the full image.

proof side : lean/SarpyModel/Props/C01.lean over Spec.Slice, bridged to the regenerated Gen.Slices
tie        : translator (Gen regenerated from /repo each run) + three-way differential Python / Gen / Spec
search     : numpy oracles on the implementation (slice kernels, then whole segment trees and readers)
"""
import itertools
import json
import os
import shutil
import sys
import tempfile

import numpy

from common import Check, Driver, Infra, VERIF, sarpy_guard
import segtree
import c01complete
import segmodel
import dispatch
import nitfasm
import seg_hist

sys.path.insert(0, os.path.join(VERIF, 'translate'))

REQUIRED = [
    'cnt_spec', 'size_eq_length', 'normal_nonempty', 'normal_in_range', 'verify_slice_sound', 'verify_int_sound',
    'mirror_normal', 'mirror_spec', 'mirror_involutive', 'overlap_spec', 'overlap_none_spec', 'reverse_spec', 'compose_spec',
    'gen_verify_slice', 'gen_verify_int', 'gen_size', 'gen_mirror', 'gen_overlap', 'gen_reverse', 'gen_reversed_axis_read',
    # N-d subscripts (Props/C01Nd.lean)
    'expand_length', 'expand_refused_iff', 'expand_layout', 'expand_no_ellipsis', 'verify_item_sound', 'verify_sub_sound',
    'read_eq_numpy', 'read_shape', 'read_in_bounds',
    # completeness of the subscript gate (Props/C01Complete.lean)
    'verify_slice_accepts_iff', 'verify_slice_refuses_iff', 'verify_slice_refuses_iff\'', 'verify_slice_total_on_supported',
    'verify_int_accepts_iff', 'verify_int_refuses_iff', 'verify_item_accepts_iff', 'verify_axes_accepts_iff',
    'verify_sub_accepts_iff', 'verify_sub_accepts_iff_expand', 'verify_sub_refuses_iff', 'verify_sub_accepts_pos',
    'supported_pos', 'supported_full_iff',
    'gen_verify_slice_accepts_iff', 'gen_verify_slice_raises_iff', 'gen_verify_int_accepts_iff', 'gen_verify_int_raises_iff',
    'gen_verify_none', 'gen_verify_none_accepts_iff', 'gen_verify_item_raises_iff', 'gen_verify_slice_total_on_supported',
]


def o(v):
    return 'N' if v is None else str(int(v))


def ps(s):
    return f'{o(s.start)},{o(s.stop)},{o(s.step)}'


def pyrun(f):
    try:
        return f()
    except (ValueError, TypeError, ZeroDivisionError, KeyError, IndexError, OverflowError) as e:
        return 'err ' + type(e).__name__


# ---------------------------------------------------------------------------- N-d subscripts (verify_subscript)

def nd_cases(rng, tier):
    """(shape, entries) with entries 'E' | None | int | (a, b, c): tuple subscripts incl. leading / inner / trailing / zero-width /
    double Ellipsis and too many entries"""
    out = []
    for _ in range(400 if tier == 'quick' else 6000):
        nd = rng.randint(1, 4)
        shape = [rng.randint(1, 5) for _ in range(nd)]
        k = rng.randint(0, nd) if rng.random() < 0.9 else nd + 1
        ent = []
        for j in range(k):
            n = shape[min(j, nd - 1)]
            r = rng.random()
            if r < 0.15:
                ent.append(None)
            elif r < 0.35:
                ent.append(rng.randint(-n, n - 1) if rng.random() < 0.85 else rng.choice([-n - 1, n]))
            else:
                v = [None] + list(range(-n - 1, n + 2))
                for _t in range(8 if rng.random() < 0.85 else 1):       # mostly supported selections, some refused ones
                    e = (rng.choice(v), rng.choice(v), rng.choice([None, 1, 1, 2, 3, -1, -1, -2]))
                    if supported(n, *e):
                        break
                ent.append(e)
        for _e in range(rng.choice([0, 0, 1, 1, 1, 1, 1, 2])):
            ent.insert(rng.randint(0, len(ent)), 'E')
        out.append((shape, ent))
    return out


def nd_line(case):
    shape, ent = case
    toks = []
    for e in ent:
        if e == 'E':
            toks.append('E')
        elif e is None:
            toks.append('N')
        elif isinstance(e, int):
            toks.append(f'i{e}')
        else:
            toks.append('s' + '/'.join(o(x) for x in e))
    return 'slice sub ' + ','.join(map(str, shape)) + (' ' + ' '.join(toks) if toks else '')


def nd_python(case):
    """(verify_subscript in driver text form, flat offsets read through a NumpyArraySegment or None, numpy's flat offsets or None)"""
    from sarpy.io.general.slice_parsing import verify_subscript
    from sarpy.io.general.data_segment import NumpyArraySegment
    shape, ent = case
    sub = tuple(Ellipsis if e == 'E' else (slice(*e) if isinstance(e, tuple) else e) for e in ent)
    arr = numpy.arange(int(numpy.prod(shape))).reshape(shape)
    vs = pyrun(lambda: 'ok ' + ';'.join(ps(x) for x in verify_subscript(sub, tuple(shape))))
    try:
        seg = NumpyArraySegment(arr, mode='r')
        got = seg.read(sub, squeeze=False)
        rd = (list(got.shape), got.ravel().tolist())
    except Exception:
        rd = None
    try:
        # numpy drops integer axes and reads None as newaxis; offsets and order are the same with length-1 slices / full slices
        def npe(e):
            if e is None:
                return slice(None)
            if isinstance(e, int):
                return slice(e, e + 1 if e != -1 else None)
            return e
        ints_ok = all(not isinstance(e, int) or -n_ok(shape, ent, i) <= e < n_ok(shape, ent, i) for i, e in enumerate(ent))
        npv = arr[tuple(npe(e) for e in sub)] if ints_ok else None
        npf = None if npv is None else (list(npv.shape), npv.ravel().tolist())
    except Exception:
        npf = None
    return vs, rd, npf


def all_supported(case):
    """every slice entry is a selection sarpy documents as supported on its axis (non-empty, in range)"""
    shape, ent = case
    for i, e in enumerate(ent):
        if isinstance(e, tuple):
            if e[2] == 0 or not supported(n_ok(shape, ent, i), *e):
                return False
    return True


def n_ok(shape, ent, i):
    """axis length the i-th entry applies to (for integer range checks of the numpy reference); 1 if it cannot be placed"""
    nd = len(shape)
    items = [e for e in ent if e != 'E']
    if ent.count('E') > 1 or len(items) > nd:
        return 1
    if 'E' in ent:
        e_at = ent.index('E')
        if i < e_at:
            return shape[i]
        return shape[nd - (len(ent) - i)]
    return shape[i]


# ---------------------------------------------------------------------------- kernel level

def kernel_cases(rng, tier):
    """(line, python thunk, oracle thunk) for the slice kernels; exhaustive small scope + random larger"""
    from sarpy.io.general.slice_parsing import verify_slice, get_slice_result_size
    from sarpy.io.general.format_function import reformat_slice
    from sarpy.io.general.data_segment import _find_slice_overlap, _reverse_slice
    cases = []
    small_n = [1, 2, 3, 5] if tier == 'quick' else [1, 2, 3, 4, 5, 6, 7]
    steps = [None, 1, 2, 3, -1, -2, -3, 0] if tier == 'quick' else [None, 1, 2, 3, 4, -1, -2, -3, -4, 0]
    for n in small_n:
        vals = [None] + list(range(-n - 2, n + 3))
        for a in vals:
            for b in vals:
                for c in steps:
                    cases.append(('verify', n, (a, b, c)))
        for i in range(-n - 2, n + 3):
            cases.append(('verifyint', n, i))
    # normalised slices for size / mirror / overlap / reverse
    norm = []
    for n in small_n + ([8] if tier == 'quick' else [8, 9, 11]):
        for a in range(n):
            for c in [1, 2, 3, 4, 7]:
                for b in range(a + 1, n + 1):
                    norm.append((n, a, b, c))
            for c in [-1, -2, -3, -4, -7]:
                for b in [None] + list(range(0, a)):
                    norm.append((n, a, b, c))
    for (n, a, b, c) in norm:
        cases.append(('size', n, (a, b, c)))
        cases.append(('mirror', n, (a, b, c)))
        if c < 0:
            cases.append(('reverse', n, (a, b, c)))
        for b0 in range(0, n):
            for b1 in range(b0 + 1, n + 1):
                if tier == 'quick' and (b1 - b0) not in (1, 2, 3, n) and rng.random() < 0.6:
                    continue
                cases.append(('overlap', n, (a, b, c), b0, b1))
    # larger random
    for _ in range(400 if tier == 'quick' else 4000):
        n = rng.choice([10, 37, 100, 1000, 99999])
        t = segtree.rand_norm_slice(rng, n, steps=(1, 2, 3, 5, 17, -1, -2, -3, -5, -17, n, -n))
        a, b, c = t
        cases.append(('size', n, (a, b, c)))
        cases.append(('mirror', n, (a, b, c)))
        b0 = rng.randrange(n)
        b1 = rng.randint(b0 + 1, n)
        cases.append(('overlap', n, (a, b, c), b0, b1))
        cases.append(('verify', n, (rng.choice([None, rng.randint(-n - 1, n + 1)]), rng.choice([None, rng.randint(-n - 1, n + 1)]),
                                    rng.choice([None, 1, -1, 2, -3, 5]))))
    return cases


def kernel_line(case):
    k = case[0]
    if k == 'verify':
        _, n, (a, b, c) = case
        return f'slice verify {n} {o(a)} {o(b)} {o(c)}'
    if k == 'verifyint':
        return f'slice verifyint {case[1]} {case[2]}'
    if k == 'size':
        _, n, (a, b, c) = case
        return f'slice size {o(a)} {o(b)} {o(c)}'
    if k == 'mirror':
        _, n, (a, b, c) = case
        return f'slice mirror {n} {o(a)} {o(b)} {o(c)}'
    if k == 'reverse':
        _, n, (a, b, c) = case
        return f'slice reverse {o(a)} {o(b)} {o(c)}'
    if k == 'overlap':
        _, n, (a, b, c), b0, b1 = case
        return f'slice overlap {o(a)} {o(b)} {o(c)} {b0} {b1}'
    raise ValueError(k)


def kernel_python(case):
    """what the implementation returns, in the driver's text form"""
    from sarpy.io.general.slice_parsing import verify_slice, get_slice_result_size
    from sarpy.io.general.format_function import reformat_slice
    from sarpy.io.general.data_segment import _find_slice_overlap, _reverse_slice
    k = case[0]
    if k == 'verify':
        _, n, (a, b, c) = case
        return pyrun(lambda: 'ok ' + ps(verify_slice(slice(a, b, c), n)))
    if k == 'verifyint':
        return pyrun(lambda: 'ok ' + ps(verify_slice(case[2], case[1])))
    if k == 'size':
        _, n, (a, b, c) = case
        return pyrun(lambda: 'ok %d' % get_slice_result_size(slice(a, b, c)))
    if k == 'mirror':
        _, n, (a, b, c) = case
        return pyrun(lambda: 'ok ' + ps(reformat_slice(slice(a, b, c), n, True)))
    if k == 'reverse':
        _, n, (a, b, c) = case
        return pyrun(lambda: 'ok ' + ps(_reverse_slice(slice(a, b, c))))
    if k == 'overlap':
        _, n, (a, b, c), b0, b1 = case

        def g():
            x, y = _find_slice_overlap(slice(a, b, c), slice(b0, b1, 1))
            return 'ok ' + ('None' if x is None else ps(x)) + ' ' + ('None' if y is None else ps(y))
        return pyrun(g)
    raise ValueError(k)


def supported(n, a, b, c):
    """a slice the property requires sarpy to serve: bounds within [-n, n], step non-zero, selection non-empty"""
    if c == 0:
        return False
    for v in (a, b):
        if v is not None and not (-n <= v <= n):
            return False
    return len(range(*slice(a, b, c).indices(n))) > 0


def kernel_oracle(case):
    """direct statement of the property at kernel level on the implementation. returns None or a message."""
    from sarpy.io.general.slice_parsing import verify_slice, get_slice_result_size
    from sarpy.io.general.format_function import reformat_slice
    from sarpy.io.general.data_segment import _find_slice_overlap, _reverse_slice
    k = case[0]
    try:
        if k in ('verify', 'verifyint'):
            n = case[1]
            item = slice(*case[2]) if k == 'verify' else case[2]
            if k == 'verify' and case[2][2] == 0:
                # zero step is outside the property's quantifier; it only has to be refused somewhere before pixels are returned
                return None
            ar = numpy.arange(n)
            if k == 'verify':
                want = ar[item]
                must = supported(n, *case[2])
            else:
                must = -n <= item < n
                want = ar[item:item + 1] if (must and item >= 0) else (ar[item + n:item + n + 1] if must else ar[0:0])
            try:
                r = verify_slice(item, n)
            except Exception as e:
                return f'supported subscript refused ({type(e).__name__})' if must else None
            got = ar[r]
            if len(want) == 0:
                return f'empty/out-of-range selection accepted as {r}'
            if not numpy.array_equal(got, want):
                return f'normalised slice {r} selects {got.tolist()} but numpy selects {want.tolist()}'
            sz = get_slice_result_size(r)
            if sz != len(want):
                return f'result size {sz} != {len(want)} for {r}'
            return None
        if k == 'size':
            _, n, t = case
            sz = get_slice_result_size(slice(*t))
            want = len(numpy.arange(n)[slice(*t)])
            return None if sz == want else f'get_slice_result_size={sz}, numpy length {want}'
        if k == 'mirror':
            _, n, t = case
            r = reformat_slice(slice(*t), n, True)
            ar = numpy.arange(n)
            want = ar[::-1][slice(*t)]
            got = ar[r][::-1]
            return None if numpy.array_equal(got, want) else f'mirror {r}: flipped read {got.tolist()} != {want.tolist()}'
        if k == 'reverse':
            _, n, t = case
            r = _reverse_slice(slice(*t))
            ar = numpy.arange(n)
            ok = numpy.array_equal(ar[r], ar[slice(*t)][::-1]) and (r.stop is None or r.stop <= n)
            return None if ok else f'_reverse_slice gives {r}'
        if k == 'overlap':
            _, n, t, b0, b1 = case
            sel = numpy.arange(n)[slice(*t)]
            pos = numpy.nonzero((sel >= b0) & (sel < b1))[0]
            p, c = _find_slice_overlap(slice(*t), slice(b0, b1, 1))
            if len(pos) == 0:
                if p is None and c is None:
                    return None
                # an empty pair of slices would also be harmless if the caller skipped it, but children refuse empties
                return f'no index in block but got {p}, {c}'
            if p is None:
                return f'indices {sel[pos].tolist()} in block [{b0},{b1}) but no overlap reported'
            blk = numpy.arange(b1 - b0)
            try:
                vp = verify_slice(p, b1 - b0)
            except Exception as e:
                return f'block-relative slice {p} is refused by verify_slice ({type(e).__name__})'
            if not numpy.array_equal(blk[vp], sel[pos] - b0) or not numpy.array_equal(numpy.arange(len(sel))[c], pos):
                return f'overlap ({p}, {c}) selects {blk[vp].tolist()} @ {numpy.arange(len(sel))[c].tolist()}, want {(sel[pos] - b0).tolist()} @ {pos.tolist()}'
            return None
    except Exception as e:
        return f'raised {type(e).__name__}: {e}'
    return None


# ---------------------------------------------------------------------------- numpy spec validation

def np_validation(rng, tier, drv):
    qs = []
    ns = [0, 1, 2, 3, 5] if tier == 'quick' else list(range(0, 9))
    for n in ns:
        vals = [None] + list(range(-n - 2, n + 3))
        stps = [None, 1, 2, 3, -1, -2, -3] if tier == 'quick' else [None, 1, 2, 3, 4, -1, -2, -3, -4]
        for a in vals:
            for b in vals:
                for c in stps:
                    qs.append((n, a, b, c, drv.ask(f'slice np {n} {o(a)} {o(b)} {o(c)}')))
    return qs


# ---------------------------------------------------------------------------- segment level

def rand_item(rng, n):
    r = rng.random()
    if r < 0.12:
        return None
    if r < 0.27:
        return rng.randint(-n - 1, n)
    a = rng.choice([None, None] + list(range(-n - 1, n + 2)))
    b = rng.choice([None, None] + list(range(-n - 1, n + 2)))
    c = rng.choice([None, 1, 1, 2, 3, -1, -1, -2, -3, n, -n])
    return [a, b, c]


def rand_subscript(rng, shape):
    nd = len(shape)
    r = rng.random()
    if r < 0.05:
        return None
    if r < 0.1 and nd:
        it = rand_item(rng, shape[0])
        return it if it is None or isinstance(it, int) else ['slice'] + it
    if nd == 0:
        return None
    k = rng.randint(1, nd)
    items = [rand_item(rng, shape[i]) for i in range(k)]
    sub = ['tuple'] + items
    if rng.random() < 0.2:
        if k == nd and rng.random() < 0.6:     # otherwise the ellipsis stands for no dimensions, which numpy accepts
            sub.pop(1 + rng.randrange(k))
            k -= 1
        sub.insert(1 + rng.randint(0, k), 'E')
    return sub


def to_py(sub):
    """JSON-able subscript -> python object"""
    if sub is None or isinstance(sub, int):
        return sub
    if sub[0] == 'slice':
        return slice(*sub[1:])
    out = []
    for it in sub[1:]:
        if it == 'E':
            out.append(Ellipsis)
        elif it is None or isinstance(it, int):
            out.append(it)
        else:
            out.append(slice(*it))
    return tuple(out)


def expand(sub, shape):
    """independent expansion of a subscript into one python slice per axis (ints -> length-1 slices, kept),
    or None when some entry is an empty / out-of-range selection sarpy may refuse. Returns (slices, supported)."""
    nd = len(shape)
    py = to_py(sub)
    if py is None or py is Ellipsis:
        items = []
    elif isinstance(py, (int, slice)):
        items = [py]
    else:
        items = list(py)
    if sum(1 for x in items if x is Ellipsis) > 1:
        return None, False
    if Ellipsis in items:
        i = items.index(Ellipsis)
        items = items[:i] + [None] * (nd - (len(items) - 1)) + items[i + 1:]
    if len(items) > nd:
        return None, False
    items = items + [None] * (nd - len(items))
    out = []
    ok = True
    for it, n in zip(items, shape):
        if it is None:
            out.append(slice(0, n, 1))
        elif isinstance(it, int):
            if -n <= it < n:
                j = it + n if it < 0 else it
                out.append(slice(j, j + 1, 1))
            else:
                ok = False
                out.append(slice(0, 0, 1))
        else:
            if it.step == 0:
                return None, False
            if not supported(n, it.start, it.stop, it.step):
                ok = False
            out.append(it)
    return tuple(out), ok


def feature_key(spec, sub, shape):
    feats = []
    sl, _ = expand(sub, shape)
    if sl is not None:
        for s, n in zip(sl, shape):
            st = 1 if s.step is None else s.step
            feats.append(('neg' if st < 0 else 'pos') + ('S' if abs(st) > 1 else '') + ('B' if (s.start in (None, 0, n, -n, n - 1) or s.stop in (None, 0, n, -n)) else ''))
    return segtree.tree_class(spec) + '|' + ','.join(feats)


def check_tree(spec, subs, tmpdir, fails, stats):
    """build the tree; compare full reads and every subscript with numpy. Appends failure dicts to `fails`."""
    b = segtree.Builder('r', tmpdir)
    try:
        try:
            seg, orc = b.build(spec)
        except Exception as e:
            stats['construct_refused'] = stats.get('construct_refused', 0) + 1
            return
        full = orc.full
        approx = segtree.has_polar(spec)
        if tuple(seg.formatted_shape) != tuple(full.shape):
            fails.append({'kind': 'tree', 'tree': spec, 'sub': None, 'msg': f'formatted_shape {seg.formatted_shape} != shape of full image {full.shape}'})
        if orc.raw is not None and tuple(seg.raw_shape) != tuple(orc.raw.shape):
            fails.append({'kind': 'tree', 'tree': spec, 'sub': None, 'msg': f'raw_shape {seg.raw_shape} != shape of raw image {orc.raw.shape}'})
        try:
            got = seg.read(None, squeeze=False)
            if not segtree.arrays_equal(got, full, approx):
                fails.append({'kind': 'tree', 'tree': spec, 'sub': None, 'msg': 'full read differs from the documented orientation/format transform of the stored samples'})
            if orc.raw is not None:
                gr = seg.read_raw(None, squeeze=False)
                if gr.shape != orc.raw.shape or not numpy.array_equal(gr, orc.raw):
                    fails.append({'kind': 'tree', 'tree': spec, 'sub': 'raw', 'msg': 'full raw read differs from stored samples'})
        except Exception as e:
            fails.append({'kind': 'tree', 'tree': spec, 'sub': None, 'msg': f'full read raised {type(e).__name__}: {e}'})
            return
        for sub in subs:
            stats['reads'] = stats.get('reads', 0) + 1
            sl, must = expand(sub, full.shape)
            want = full[sl] if sl is not None else None
            if want is not None and want.size == 0:
                must = False
            py = to_py(sub)
            for squeeze in (False, True):
                try:
                    got = seg.read(py, squeeze=squeeze) if not squeeze else seg[py]
                except Exception as e:
                    if must:
                        fails.append({'kind': 'tree', 'tree': spec, 'sub': sub, 'squeeze': squeeze,
                                      'msg': f'supported subscript refused: {type(e).__name__}: {e}'})
                        break
                    stats['refused'] = stats.get('refused', 0) + 1
                    continue
                if want is None or want.size == 0:
                    fails.append({'kind': 'tree', 'tree': spec, 'sub': sub, 'squeeze': squeeze,
                                  'msg': f'unsupported/empty subscript returned data of shape {got.shape}'})
                    break
                w = numpy.squeeze(want) if squeeze else want
                if not segtree.arrays_equal(got, w, approx):
                    fails.append({'kind': 'tree', 'tree': spec, 'sub': sub, 'squeeze': squeeze,
                                  'msg': f'read returned shape {got.shape} / different pixels; numpy selects shape {w.shape}'})
                    break
        try:
            seg.close()
        except Exception:
            pass
    finally:
        b.cleanup()


def check_reader(rng, fails, stats, tmpdir):
    """BaseReader dispatch and size accessors over one or two segments"""
    from sarpy.io.general.base import BaseReader
    for _ in range(6):
        specs = [segtree.rand_leaf(rng, shape=segtree.rand_shape(rng, 2, 2, 6), kinds=('array',)) for _ in range(rng.choice([1, 2]))]
        b = segtree.Builder('r', tmpdir)
        built = [b.build(s) for s in specs]
        segs = [s for s, _ in built]
        rdr = BaseReader(segs if len(segs) > 1 else segs[0], reader_type='OTHER')
        try:
            dsz = rdr.get_data_size_as_tuple()
            rsz = rdr.get_raw_data_size_as_tuple()
            for i, (s, orc) in enumerate(built):
                stats['reads'] = stats.get('reads', 0) + 1
                full = rdr.read(index=i, squeeze=False)
                raw = rdr.read_raw(index=i, squeeze=False)
                if tuple(dsz[i]) != full.shape:
                    fails.append({'kind': 'reader', 'tree': specs, 'sub': None, 'msg': f'data_size {dsz[i]} != full read shape {full.shape}'})
                if tuple(rsz[i]) != raw.shape:
                    fails.append({'kind': 'reader', 'tree': specs, 'sub': None, 'key': 'reader-raw-size',
                                  'msg': f'get_raw_data_size_as_tuple()[{i}] = {rsz[i]} != raw read shape {raw.shape}'})
                if not numpy.array_equal(full, orc.full) or not numpy.array_equal(raw, orc.raw):
                    fails.append({'kind': 'reader', 'tree': specs, 'sub': None, 'msg': 'reader full read differs'})
                # reader.read(...) with slice / None / Ellipsis ranges (an int range means slice(int) in the reader API,
                # which is documented reader behaviour and not part of this property)
                fixed = [['tuple', 'E', [0, full.shape[-1], 1]], ['tuple', [0, full.shape[0], 1], 'E'], ['tuple', 'E'],
                         ['tuple', 'E', [None, None, -1]]]
                for t in range(4 + len(fixed)):
                    sub = rand_subscript(rng, full.shape) if t < 4 else fixed[t - 4]
                    if sub is None or isinstance(sub, int):
                        continue
                    if sub[0] == 'slice':
                        sub = ['tuple', sub[1:]]
                    sub = ['tuple'] + [it for it in sub[1:] if not isinstance(it, int)]
                    if len(sub) == 1:
                        continue
                    stats['reads'] = stats.get('reads', 0) + 1
                    sl, must = expand(sub, full.shape)
                    py = to_py(sub)
                    want = full[sl] if sl is not None else None
                    try:
                        got = rdr.read(*py, index=i, squeeze=False)
                        got2 = rdr[py + (i, )] if len(segs) > 1 else rdr[py]
                    except Exception as e:
                        if must and want is not None and want.size:
                            fails.append({'kind': 'reader', 'tree': specs, 'sub': sub, 'msg': f'reader refused supported subscript: {type(e).__name__}: {e}'})
                        continue
                    if want is None or want.size == 0 or got.shape != want.shape or not numpy.array_equal(got, want) \
                            or not numpy.array_equal(got2, numpy.squeeze(want)):
                        fails.append({'kind': 'reader', 'tree': specs, 'sub': sub, 'msg': 'reader read differs from numpy selection'})
        finally:
            rdr.close()
            b.cleanup()


# ---------------------------------------------------------------------------- main

def _complex_kept_leaves(spec):
    out = []
    if spec.get('fmt') and spec['fmt']['kind'] == 'complex' and not spec['fmt']['collapsed']:
        out.append(spec)
    for k in ('parent',):
        if k in spec:
            out += _complex_kept_leaves(spec[k])
    for c in spec.get('children', []):
        out += _complex_kept_leaves(c)
    return out


def _nodes(spec):
    out = [spec]
    if 'parent' in spec:
        out += _nodes(spec['parent'])
    for c in spec.get('children', []):
        out += _nodes(c)
    return out


def classify(f):
    """stable key of a failure for the known-findings file (None = not a listed finding)"""
    if f.get('key'):
        return f['key']
    if f.get('kind') not in ('tree', 'write'):
        return None
    msg = f['msg']
    kept = _complex_kept_leaves(f['tree'])
    if kept and ('refused' in msg or 'raised' in msg) and 'Slicing along the complex dimension' in msg:
        return 'complex-kept-band-nonunit-step'
    if kept and 'Got out of bounds argument' in msg and ('raised' in msg or 'refused' in msg):
        for leaf in kept:
            bd = leaf['fmt']['band_dim']
            raw_axis = leaf['trans'][bd] if leaf.get('trans') is not None else bd
            if leaf.get('rev') and raw_axis in leaf['rev']:
                return 'complex-kept-band-reversed-band-axis'
    return None


def run(tier):
    sarpy_guard()
    chk = Check('C01', tier)
    rng = chk.rng
    import gen_slices
    gen_info = gen_slices.generate(os.path.join(VERIF, 'lean', 'SarpyModel', 'Gen', 'Slices.lean'))
    if gen_info['unsupported']:
        gen_info['note'] = 'translator could not express: ' + json.dumps(gen_info['unsupported'])
    gen_info['dispatch'] = dispatch.regen()
    gen_info['segstate'] = seg_hist.regen()      # Gen/SegState.lean: which method of data_segment.py writes which field of self
    nitfasm.regenerate(chk)          # Gen/NitfOrient.lean: the NITF reader's orientation tables, from the current source
    broken = chk.prove(['SarpyModel.Props.C01', 'SarpyModel.Props.C01Nd', 'SarpyModel.Props.C01Complete', segmodel.SEG_MODULE, nitfasm.NITF_MODULE, 'SarpyModel.Drivers']
                       + dispatch.targets_reads() + seg_hist.targets_reads(), 'SarpyModel.Props.C01Complete', 'Sarpy.Props.C01', REQUIRED, gen_info,
                       extra=dispatch.extra_reads() + seg_hist.extra_reads())
    if not broken:
        segmodel.obligations_reads(chk, broken)      # Props/C01Seg.lean: segment trees as index maps, read = select(full)
        nitfasm.obligations(chk, broken)             # Props/C01Nitf.lean: how the NITF reader builds those trees from subheader fields

    # ---- correspondence: kernels three-way (python / Gen / Spec) and numpy-spec validation
    disagreements = []
    evaluations = 0
    kinds = {}
    drv_ok = True
    cases = kernel_cases(rng, tier)
    try:
        drv = Driver()
        idx = [drv.ask(kernel_line(c)) for c in cases]
        npq = np_validation(rng, tier, drv)
        ndc = nd_cases(rng, tier)
        ndq = [drv.ask(nd_line(c)) for c in ndc]
        ccs = c01complete.supported_oracle_cases(rng, tier)
        ccq = c01complete.enqueue(drv, ccs)
        seg_plan = segmodel.plan_reads(drv, rng, tier)
        nitf_plan = nitfasm.plan(drv, rng, tier)
        ans = drv.run()
    except Infra as e:
        drv_ok = False
        ans = None
        broken.append('model driver does not build/run: ' + str(e)[:300])
    oracle_fail = []
    if drv_ok:
        for c, i in zip(cases, idx):
            evaluations += 1
            py = kernel_python(c)
            gen, _, spec = ans[i].partition(' | ')
            kinds[c[0] + ':' + py.split()[0]] = kinds.get(c[0] + ':' + py.split()[0], 0) + 1
            pyn = 'refused' if py.startswith('err') else py
            genn = 'refused' if gen.startswith('err') else gen
            if py != gen and not (py.startswith('err') and gen.startswith('err')):
                disagreements.append({'case': c, 'python': py, 'gen': gen, 'tie': 'translator (python vs Gen)'})
            elif c[0] in ('verify', 'verifyint'):
                if pyn != spec:
                    disagreements.append({'case': c, 'python': py, 'spec': spec, 'tie': 'model (python vs Spec)'})
            else:
                # Spec kernels are specified on normal slices only (all generated inputs here are normal)
                if pyn != spec:
                    disagreements.append({'case': c, 'python': py, 'spec': spec, 'tie': 'model (python vs Spec)'})
        np_bad = []
        for n, a, b, c, i in npq:
            evaluations += 1
            want = numpy.arange(n)[slice(a, b, c)].tolist()
            if ans[i] != '[' + ','.join(map(str, want)) + ']':
                np_bad.append((n, a, b, c, ans[i], want))
        if np_bad:
            raise Infra(f'Spec.npIndices disagrees with numpy (spec bug, not a violation): {np_bad[:3]}')
        chk.coverage['numpy_spec_validated'] = len(npq)
        nd_stats = {'accepted': 0, 'refused': 0, 'with_ellipsis': 0}
        for c, i in zip(ndc, ndq):
            evaluations += 1
            vs, rd, npf = nd_python(c)
            model = ans[i]
            nd_stats['with_ellipsis'] += 'E' in c[1]
            if model == 'refused':
                nd_stats['refused'] += 1
                if not vs.startswith('err'):
                    disagreements.append({'case': c, 'python': vs, 'spec': model, 'tie': 'model (verify_subscript vs Spec.verifySub)'})
                if npf is not None and npf[1] and c[1].count('E') <= 1 and len([e for e in c[1] if e != 'E']) <= len(c[0]) and all_supported(c):
                    oracle_fail.append({'kind': 'nd', 'case': c, 'msg': f'verify_subscript refuses the in-range, non-empty subscript {nd_line(c)[10:]}'})
                continue
            nd_stats['accepted'] += 1
            mvs, _, mflat = model.partition(' [')
            mflat = [int(x) for x in mflat.rstrip(']').split(',')] if mflat.rstrip(']') else []
            if vs != mvs:
                disagreements.append({'case': c, 'python': vs, 'spec': mvs, 'tie': 'model (verify_subscript vs Spec.verifySub)'})
            if npf is None or npf[1] != mflat:
                raise Infra(f'Spec.readFlat disagrees with numpy (spec bug, not a violation): {c} {mflat[:8]} {npf}')
            if rd is None or rd[1] != mflat:
                oracle_fail.append({'kind': 'nd', 'case': c, 'msg': f'segment read of subscript {nd_line(c)[10:]} on shape {c[0]} returns {rd}, numpy selects offsets {mflat[:12]}'})
        chk.coverage['nd_subscripts'] = nd_stats
        cres = c01complete.check(ccs, ccq, ans)
        disagreements += cres['disagreements']
        oracle_fail += cres['oracle_fail']
        evaluations += cres['evaluations']
        chk.coverage['completeness'] = cres['stats']
    # kernel oracles on the implementation (always run: they are cheap and they are the search when something broke)
    for c in cases:
        m = kernel_oracle(c)
        if m is not None:
            oracle_fail.append({'kind': 'kernel', 'case': c, 'msg': m})

    # ---- segment trees and readers against numpy
    fails = []
    stats = {}
    tmpdir = tempfile.mkdtemp(prefix='c01_', dir=os.environ.get('VERIF_SCRATCH', '/var/tmp'))
    seen = set()
    try:
        corpus = os.path.join(VERIF, 'corpus', 'C01')
        ncorp = 0
        if os.path.isdir(corpus):
            for fn in sorted(os.listdir(corpus)):
                case = json.load(open(os.path.join(corpus, fn)))
                if case.get('kind') == 'tree':
                    ncorp += 1
                    n0 = len(fails)
                    check_tree(case['tree'], [case['sub']], tmpdir, fails, stats)
                    del fails[n0 + 1:]          # one report per corpus case
        ntrees = 150 if tier == 'quick' else 2500
        per = 14 if tier == 'quick' else 30
        for _ in range(ntrees):
            spec = segtree.rand_tree(rng, rng.choice([0, 1, 1, 2, 2, 3]))
            try:
                shape = segtree.full_shape_of(spec)
            except Exception:
                continue
            subs = [rand_subscript(rng, shape) for _ in range(per)]
            for s in subs:
                seen.add(feature_key(spec, s, shape))
            check_tree(spec, subs, tmpdir, fails, stats)
        check_reader(rng, fails, stats, tmpdir)
        if drv_ok:
            seg_dis, seg_stats = segmodel.check_reads(seg_plan, ans, tmpdir)
            disagreements += seg_dis
            evaluations += seg_stats['reads'] + seg_stats['full_reads']
            chk.coverage['segment_model'] = seg_stats
            # search: the numpy oracle on the trees where model and implementation part ways (the subscript that disagreed
            # and a fresh family of subscripts)
            for dsg in seg_dis[:10]:
                try:
                    shape = segtree.full_shape_of(dsg['tree'])
                except Exception:
                    continue
                subs = ([['tuple'] + [list(x) for x in dsg['sub']]] if dsg.get('sub') else [None]) + \
                    [rand_subscript(rng, shape) for _ in range(20)]
                check_tree(dsg['tree'], subs, tmpdir, fails, stats)
        nitf_dis, nitf_fails, nitf_stats = nitfasm.check(nitf_plan if drv_ok else nitfasm.plan(None, rng, tier), ans, tmpdir)
        disagreements += nitf_dis
        fails += nitf_fails
        evaluations += nitf_stats.get('reads', 0)
        chk.coverage['nitf_assembly'] = nitf_stats
        if tier == 'thorough':
            exhaustive_small(fails, stats, tmpdir)
    finally:
        shutil.rmtree(tmpdir, ignore_errors=True)

    # ---- the reader dispatch layer (BaseReader.__getitem__ / __call__ / read*, AggregateReader, SubsetSICDReader, FullResolutionFetcher)
    try:
        dsp = dispatch.run_reads(chk, tier)
        fails += dsp['fails']
        disagreements += dsp['disagreements']
        broken += dsp['broken']
        evaluations += dsp['evaluations']
        chk.coverage['dispatch'] = dsp['stats']
    except Infra as e:
        broken.append('dispatch model driver does not build/run: ' + str(e)[:300])
        dsp = {'stats': {'classes': 0}}

    # ---- histories of read-side requests (formatted and raw reads, parent subscripts) on ONE segment object vs fresh objects
    sh = seg_hist.run_reads(chk, tier)
    fails += sh['fails']
    disagreements += sh['disagreements']
    broken += sh['broken']
    evaluations += sh['evaluations']
    chk.coverage['read_histories'] = sh['stats']

    evaluations += stats.get('reads', 0)
    chk.coverage.update({
        'evaluations': evaluations,
        'distinct_nontrivial': len(seen) + len({(c[0], c[1]) for c in cases}) + dsp['stats'].get('classes', 0),
        'rule': 'kernel cases: exhaustive small scope (n<=5 quick / n<=7 thorough, bounds in [-n-2,n+2], |step|<=3/4) plus random large; '
                'segment reads: random trees (array/memmap/fileread leaves, subset in formatted and raw basis, reorient, band and block aggregates '
                'with holes and reversed block definitions, identity / complex IQ QI MP PM kept or collapsed / LUT 1-d 2-d formats) x random subscripts (ints, negative indices, ellipsis, strides of both signs, out-of-range); '
                'a read is non-trivial when it is non-empty; distinct = distinct (tree class, per-axis (sign, |step|>1, touches-boundary)) tuples '
                'plus distinct (kernel, n) pairs plus distinct (reader kind, multi-image?, entry point, oracle class, outcome, model outcome) tuples of the dispatch layer; '
                'dispatch requests: real BaseReader / AggregateReader / AggregateComplexReader(FlatSICDReader) / SIDDReader / NITFReader objects with 1-4 images of different '
                'shapes x reader[...] with every interleaving of image index and string modifiers, negative / out-of-range indices, Ellipsis, int / tuple / None ranges, '
                'too many / too few items, unhandled types x reader(...) / read / read_raw / read_chip with index, raw, squeeze',
        'samples': [kernel_line(c) for c in cases[:3]] + [{'tree': None}],
        'kernel_outcomes': kinds,
        'segment_stats': stats,
        'disagreements_checked': len(disagreements),
        'traces_validated_against_impl': evaluations,
    })
    chk.coverage['samples'] = [kernel_line(cases[rng.randrange(len(cases))]) for _ in range(3)]
    chk.coverage['trusted_base'] = chk.coverage.get('trusted_base', []) + []
    chk.assumptions += [
        'translator py2lean (fidelity checked by the python-vs-Gen differential in this run)',
        'float division idioms int(floor(a/b)), int(ceil(a/b)), int(a/b) read as exact integer division (|operands| < 2^53)',
        'Spec.npIndices is the specification of numpy basic slicing (validated against numpy by enumeration in this run)',
        'N-d composition inside the DataSegment classes: theorem read_refines (Props/C01Seg.lean) is about Spec.Segment, a hand-written '
        'mirror of data_segment.py / format_function.py (no translator); it is tied to the code by the provenance correspondence of this run '
        '(array / memmap / file-read leaves, reverse + transpose, ReorientationSegment, subsets with and without squeezed axes in the formatted '
        'basis and, over identity-format parents, in the raw basis, band and block aggregates with holes and with block definitions of step -1, '
        'ComplexFormatFunction IQ/QI/MP/PM with the band axis collapsed or kept, SingleLUTFormatFunction with a 1-d or 2-d table); the theorem holds on '
        'the set of subscripts the code serves (Seg.accepts, also executed by the correspondence: a refusal of the code must be a refusal of '
        'the model and vice versa); MP/PM and LUT pixel values are named functions of the stored samples in the theorem (numerics: C08) and are '
        'tied by value with a tolerance; raw-basis subsets over subsets / complex / LUT parents are tied by the numpy oracle only; block '
        'definitions of step -1 and 2-d lookup tables are modelled as the repaired code serves them (patches F1, F5 of NOTES_SEGFIX)',
        'JPEG/JPEG2000/HDF5 segments outside the model',
        'reader dispatch layer: Spec/Dispatch.lean is tied to base.py by the translator (Gen/Dispatch.lean regenerated from the Python text, bridge '
        'theorems in Bridge/Dispatch.lean) and by the observed hand-over to recording data segments; list subscripts, numpy integers, bool-as-int and '
        'readers that override __call__ (CPHD / CRSD string indices) are outside the model; exception classes are compared as refused / served only',
    ] + nitfasm.ASSUMPTIONS

    # ---- decide
    all_fail = oracle_fail + fails
    unknown = []
    for f in all_fail:
        key = classify(f)
        if key and chk.known(key):
            continue
        unknown.append(f)
    for f in unknown[:5]:
        chk.violation(f['msg'], {'case': f, 'replay_cmd': './check C01 --replay <this file>'}, True)
    if len(unknown) > 5:
        chk.notes.append(f'{len(unknown)} failing inputs found, first 5 reported')
    if not unknown and (broken or disagreements):
        what = '; '.join(broken[:3] + [json.dumps(d) for d in disagreements[:2]])
        chk.violation('proof obligation or correspondence no longer checks: ' + what,
                      {'broken_obligations': broken, 'disagreements': disagreements[:20]}, False)
    elif unknown and (broken or disagreements):
        chk.notes.append({'broken_obligations': broken, 'disagreements': disagreements[:5]})
    chk.coverage['failing_inputs'] = len(all_fail)
    return chk.finish()


def exhaustive_small(fails, stats, tmpdir):
    """thorough: all 1-D shapes <= 5 x all slices with bounds in [-n-1, n+1], |step| <= 3 x rev; and 2-D 3x4 with all rev/trans"""
    for n in range(1, 6):
        for rev in (None, [0]):
            spec = {'kind': 'array', 'shape': [n], 'dtype': 'int32', 'base': 0, 'rev': rev, 'trans': None}
            vals = [None] + list(range(-n - 1, n + 2))
            subs = [['tuple', [a, b, c]] for a in vals for b in vals for c in (None, 1, 2, 3, -1, -2, -3)]
            check_tree(spec, subs, tmpdir, fails, stats)
    for rev in (None, [0], [1], [0, 1]):
        for trans in (None, [1, 0]):
            spec = {'kind': 'array', 'shape': [3, 4], 'dtype': 'int32', 'base': 0, 'rev': rev, 'trans': trans}
            sh = segtree.full_shape_of(spec)
            axis = []
            for n in sh:
                vals = [None, 0, 1, n - 1, n, -1, -n]
                axis.append([[a, b, c] for a in vals for b in vals for c in (None, 2, -1, -2)])
            subs = [['tuple', x, y] for x in axis[0][::3] for y in axis[1][::5]]
            check_tree(spec, subs, tmpdir, fails, stats)
            # blocks 2x2 over the same
            bl = {'kind': 'blocks', 'shape': [4, 6], 'fill': -7, 'rev': rev, 'trans': trans,
                  'children': [{'kind': 'array', 'shape': [2, 3], 'dtype': 'int32', 'base': 100 * (i + 1), 'rev': None, 'trans': None} for i in range(4)],
                  'arrangement': [[[0, 2, 1], [0, 3, 1]], [[0, 2, 1], [3, 6, 1]], [[2, 4, 1], [0, 3, 1]], [[2, 4, 1], [3, 6, 1]]]}
            sh = segtree.full_shape_of(bl)
            axis = []
            for n in sh:
                vals = [None, 0, 1, 2, n - 1, n]
                axis.append([[a, b, c] for a in vals for b in vals for c in (1, 2, 3, -1, -2)])
            subs = [['tuple', x, y] for x in axis[0][::2] for y in axis[1][::3]]
            check_tree(bl, subs, tmpdir, fails, stats)


def replay(path):
    case = json.load(open(path))['case']
    if case['kind'] == 'complete':
        m = c01complete.replay_case(case['case'])
        print('completeness oracle:', m)
        return 1 if m else 0
    if case['kind'] in ('dispatch', 'dispatch-write'):
        return dispatch.replay_case(case)
    if case['kind'] == 'nitf':
        return nitfasm.replay_case(case)
    if case['kind'].startswith('seghist'):
        return seg_hist.replay_case(case)
    if case['kind'] == 'kernel':
        m = kernel_oracle(tuple(tuple(x) if isinstance(x, list) else x for x in case['case']))
        print('kernel oracle:', m)
        return 1 if m else 0
    fails = []
    tmpdir = tempfile.mkdtemp(prefix='c01r_', dir='/var/tmp')
    try:
        check_tree(case['tree'], [case['sub']], tmpdir, fails, {})
    finally:
        shutil.rmtree(tmpdir, ignore_errors=True)
    for f in fails:
        print(f['msg'])
    return 1 if fails else 0
