"""C06 support: schema-driven XML document generation, variant derivation, bookkeeping repair and tree comparison.

Independent of sarpy: everything here works from the bundled XSDs (through translate/xsd2lean.py's reader) and lxml.
Used by harness/c06.py."""
import copy
import datetime
import math
import re
from fractions import Fraction

from lxml import etree

import xsd2lean as X

XSI = 'http://www.w3.org/2001/XMLSchema-instance'


# ------------------------------------------------------------------------------------------------ value synthesis

INT_BUILTINS = {'integer', 'int', 'long', 'short', 'byte', 'nonNegativeInteger', 'positiveInteger', 'unsignedInt',
                'unsignedLong', 'unsignedShort', 'unsignedByte', 'nonPositiveInteger', 'negativeInteger'}
FLOAT_BUILTINS = {'double', 'float', 'decimal'}

PATTERN_SAMPLES = {
    '([0-9]+),([0-9]+),([0-9]+)': ['1,2,3', '10,0,255'],
    'F8': ['F8'], 'I8': ['I8'],
    '[VHXYSE]|RHC|LHC|UNKNOWN|OTHER[^:]*': ['V', 'H', 'RHC', 'OTHER', 'OTHER_abc', 'UNKNOWN'],
    '[VHXYSE]|RHC|LHC|UNKNOWN|SEQUENCE|OTHER[^:]*': ['V', 'H', 'LHC', 'OTHER', 'SEQUENCE', 'UNKNOWN'],
    '(([VHXYSE]|RHC|LHC|OTHER[^:]*):([VHXYSE]|RHC|LHC|OTHER[^:]*))|OTHER|UNKNOWN': ['V:V', 'H:V', 'RHC:LHC', 'OTHER', 'UNKNOWN', 'OTHER_a:V'],
    '([U|I][1248]|F[48]|CI(2|4|8|16)|CF(8|16)|S[1-9][0-9]*)|([^=]+=(([U|I][1248]|F[48]|CI(2|4|8|16)|CF(8|16)|S[1-9][0-9]*);)){2,}': ['F8', 'CI4', 'a=F4;b=I2;', 'S12'],
}


def int_range(st):
    lo = {'nonNegativeInteger': 0, 'positiveInteger': 1, 'unsignedInt': 0, 'unsignedLong': 0, 'unsignedShort': 0, 'unsignedByte': 0}.get(st.builtin, None)
    hi = {'nonPositiveInteger': 0, 'negativeInteger': -1, 'byte': 127, 'unsignedByte': 255, 'short': 32767, 'unsignedShort': 65535}.get(st.builtin, None)
    b = st.builtin
    # walk up the builtin chain for inherited bounds
    seen = set()
    while b in X.BUILTIN_PARENT and b not in seen:
        seen.add(b)
        b = X.BUILTIN_PARENT[b]
        if lo is None and b in ('nonNegativeInteger',):
            lo = 0
    for v, kind in ((st.min_inc, 'lo'), (st.min_exc, 'lox'), (st.max_inc, 'hi'), (st.max_exc, 'hix')):
        if v is None:
            continue
        f = Fraction(v)
        if kind == 'lo':
            lo = max(lo, math.ceil(f)) if lo is not None else math.ceil(f)
        elif kind == 'lox':
            lo = max(lo, math.floor(f) + 1) if lo is not None else math.floor(f) + 1
        elif kind == 'hi':
            hi = min(hi, math.floor(f)) if hi is not None else math.floor(f)
        else:
            hi = min(hi, math.ceil(f) - 1) if hi is not None else math.ceil(f) - 1
    return lo, hi


def fmt_float(v):
    r = repr(float(v))
    return r


def synth(st, rng, hint='', wild=True):
    """a lexical value of simple type st.  wild=False ('benign' profile): numbers without a declared range are small and positive,
    range-restricted numbers stay in the interior of the range; wild=True adds negative / huge values and the range ends"""
    if st is None:
        return 'text'
    if st.variety == 'list':
        n = rng.choice([1, 2, 3])
        if st.max_length is not None:
            n = min(n, st.max_length)
        if st.min_length is not None:
            n = max(n, st.min_length)
        if st.length:
            n = st.length
        vals = []
        for _ in range(n * 4):
            v = synth(st.item, rng, hint, wild)
            if v not in vals:
                vals.append(v)
            if len(vals) == n:
                break
        return ' '.join(vals)
    if st.variety == 'union':
        ms = [m for m in st.members if m is not None]
        en = [m for m in ms if m.enum]
        if en:
            ms = en
        return synth(rng.choice(ms), rng, hint, wild) if ms else 'text'
    if st.enum:
        return rng.choice(st.enum)
    b = st.builtin
    if st.patterns:
        for p in st.patterns:
            inner = p
            m = re.fullmatch(r'\(\?:(.*)\)', p)
            if m and '(?:' not in m.group(1):
                inner = m.group(1)
            if inner in PATTERN_SAMPLES:
                return rng.choice(PATTERN_SAMPLES[inner])
        # unknown pattern: try a few generic samples
        for cand in ('A', '1', 'AB', '0000', 'a1', 'USA', '+001', '2020-01-01'):
            if all(re.fullmatch(p, cand) for p in st.patterns):
                return cand
        return 'A'
    if b in INT_BUILTINS:
        lo, hi = int_range(st)
        if lo is None and hi is None:
            return str(rng.choice([0, 1, 2, 3, 7, 12, -4, 100, 4096] if wild else [1, 2, 3, 5, 7, 12, 100, 4096]))
        if lo is None:
            lo = hi - 50
        if hi is None:
            hi = lo + rng.choice([0, 1, 5, 40, 1000])
        return str(rng.randint(lo, hi))
    if b in FLOAT_BUILTINS:
        lo = Fraction(st.min_inc) if st.min_inc is not None else (Fraction(st.min_exc) if st.min_exc is not None else None)
        hi = Fraction(st.max_inc) if st.max_inc is not None else (Fraction(st.max_exc) if st.max_exc is not None else None)
        if lo is None and hi is None:
            if wild:
                v = rng.choice([0.0, 1.0, -1.0, 0.5, 2.25, -3.75, 1e-3, 12345.678, 1.1, 0.1, 6378137.0, -2.5e-7, 9.87654321e9, 1e10, 3.0])
                if rng.random() < 0.4:
                    v = round(rng.uniform(-1000, 1000), rng.choice([0, 1, 3, 6, 12]))
            else:
                v = round(rng.uniform(0.001, 0.999), rng.choice([3, 6, 12, 15]))
                if rng.random() < 0.15:
                    v = rng.choice([0.5, 0.25, 0.125, 0.1, 0.7])
            if b == 'decimal':
                return '%.6f' % v
            return fmt_float(v)
        if lo is None:
            lo = hi - 100
        if hi is None:
            hi = lo + rng.choice([1, 10, 1000])
        r = rng.random()
        if wild and r < 0.08 and st.min_inc is not None:
            v = float(lo)
        elif wild and r < 0.16 and st.max_inc is not None:
            v = float(hi)
        else:
            v = float(lo) + (float(hi) - float(lo)) * rng.uniform(0.01, 0.99)
            v = round(v, rng.choice([1, 3, 6, 12]))
            if not (float(lo) < v < float(hi)):
                v = (float(lo) + float(hi)) / 2
        if b == 'decimal':
            return '%.6f' % v
        return fmt_float(v)
    if b == 'boolean':
        return rng.choice(['true', 'false'])
    if b == 'dateTime':
        d = datetime.datetime(2000 + rng.randint(0, 24), rng.randint(1, 12), rng.randint(1, 28), rng.randint(0, 23), rng.randint(0, 59), rng.randint(0, 59))
        frac = rng.choice(['', '.5', '.123456', '.000001'])
        return d.strftime('%Y-%m-%dT%H:%M:%S') + frac + 'Z'
    if b == 'date':
        return '%04d-%02d-%02d' % (2000 + rng.randint(0, 24), rng.randint(1, 12), rng.randint(1, 28))
    if b == 'duration':
        return 'PT%dS' % rng.randint(1, 500)
    if b == 'anyURI':
        return rng.choice(['urn:example:a', 'http://example.org/x'])
    if b == 'hexBinary':
        return rng.choice(['00', 'FF', '0A1B'])
    if b in ('ID', 'NCName', 'IDREF', 'Name'):
        return 'id' + str(rng.randint(0, 10 ** 6))
    if b in ('NMTOKEN', 'token', 'language'):
        return rng.choice(['TOK', 'A1', 'x-y'])
    # strings
    n = None
    if st.length:
        n = st.length
    elif st.min_length or st.max_length:
        n = max(st.min_length or 1, min(st.max_length or 8, 5))
    if n is not None:
        return ''.join(rng.choice('ABCDEFGH') for _ in range(n))
    return rng.choice(['abc', 'X', 'Some text', 'name-%d' % rng.randint(0, 99), 'UNCLASSIFIED', 'A_b.c', 'x y z', 'caf\u00e9'])


# -------------------------------------------------------------------------------------------- instance generation

class Policy:
    """decisions of the instance generator"""

    def __init__(self, rng, mode='full', branch_shift=0, depth_limit=9, rep=2, wild=False, rec_depth=0):
        self.rng, self.mode, self.branch_shift, self.depth_limit, self.rep = rng, mode, branch_shift, depth_limit, rep
        self.wild = wild
        self.rec_depth = rec_depth       # how many times a recursive element declaration is unfolded inside itself

    def count(self, p, depth, recursive):
        mn, mx = p.min, p.max
        if self.mode == 'min' or depth > self.depth_limit or recursive:
            return mn
        if self.mode == 'full':
            want = max(mn, 1)
            if (mx is None or mx > want) and isinstance(p, X.Elem):
                want = max(want, min(self.rep, mx if mx is not None else self.rep))
            return want if mx is None else min(want, mx)
        # random
        if mn == 0 and self.rng.random() < 0.45:
            return 0
        want = max(mn, 1)
        if (mx is None or mx > want) and isinstance(p, X.Elem) and self.rng.random() < 0.4:
            want += self.rng.randint(1, 2)
        return want if mx is None else min(want, mx)

    def branch(self, n):
        if self.mode == 'min':
            return 0
        if self.mode == 'random':
            return self.rng.randrange(n)
        return self.branch_shift % n

    def opt_attr(self):
        if self.mode == 'min':
            return False
        if self.mode == 'full':
            return True
        return self.rng.random() < 0.5


def prefix_map(schema, root_ns, extra=None):
    """prefixes for namespaces other than the default one"""
    m = {None: root_ns}
    for k, v in (extra or {}).items():
        m[k] = v
    return m


def gen_element(e, pol, nsmap, depth=0, stack=()):
    """lxml element for element declaration e (None if it cannot be generated, e.g. abstract type)"""
    t = e.type
    el = etree.Element(e.qname, nsmap=nsmap if depth == 0 else None)
    if isinstance(t, X.SimpleType):
        el.text = e.fixed if e.fixed is not None else synth(t, pol.rng, X.local(e.qname), pol.wild)
        return el
    if t.abstract:
        return None
    for a in t.attrs:
        if a.use == 'prohibited':
            continue
        if a.use == 'required' or pol.opt_attr():
            el.set(a.qname, a.fixed if a.fixed is not None else synth(a.stype, pol.rng, X.local(a.qname), pol.wild))
    if t.simple is not None:
        el.text = e.fixed if e.fixed is not None else synth(t.simple, pol.rng, X.local(e.qname), pol.wild)
        return el
    if t.content is not None:
        kids = gen_particle(t.content, pol, depth + 1, stack + (t.name,))
        if kids is None:
            return None
        for k in kids:
            el.append(k)
    return el


def gen_particle(p, pol, depth, stack):
    """list of elements for particle p (None = cannot satisfy)"""
    recursive = isinstance(p, X.Elem) and isinstance(p.type, X.ComplexType) and stack.count(p.type.name) > pol.rec_depth
    if isinstance(p, X.AnyP):
        return []
    n = pol.count(p, depth, recursive)
    out = []
    for i in range(n):
        if isinstance(p, X.Elem):
            k = gen_element(p, pol, None, depth, stack)
            if k is None:
                if i < p.min:
                    return None
                break
            out.append(k)
        elif p.kind in ('seq', 'all'):
            for it in p.items:
                ks = gen_particle(it, pol, depth, stack)
                if ks is None:
                    if p.min > i:
                        return None
                    ks = []
                out += ks
        elif p.kind == 'choice':
            if not p.items:
                continue
            b = pol.branch(len(p.items))
            order = list(range(b, len(p.items))) + list(range(0, b))
            done = False
            for j in order:
                ks = gen_particle(p.items[j], pol, depth, stack)
                if ks is not None and (ks or getattr(p.items[j], 'min', 1) == 0):
                    out += ks
                    done = True
                    break
            if not done and p.min > i:
                return None
    return out


def reprefix(root, prefix_of):
    """the same infoset with other namespace prefixes: prefix_of = {namespace uri: prefix | None (default namespace)}.
    Namespaces that carry attributes cannot be the default namespace (unprefixed attributes are in no namespace); the caller sees to that."""
    nsmap = {p: u for u, p in prefix_of.items()}

    def copy(el, parent):
        new = etree.Element(el.tag, nsmap=nsmap) if parent is None else etree.SubElement(parent, el.tag)
        new.text, new.tail = el.text, el.tail
        for k, v in el.attrib.items():
            new.set(k, v)
        for c in el:
            if isinstance(c.tag, str):
                copy(c, new)
        return new
    return copy(root, None)


ODD_PREFIX = {'ism': 'icism', 'sicommon': 'sc', 'sfa': 'geo'}


def prefix_plans(root_ns, extra):
    """[(name, {uri: prefix|None})] non-customary bindings of every namespace of a schema version: the root namespace bound to a
    prefix instead of being the default one, and (SIDD) the ism / sicommon / sfa namespaces bound to other prefixes than the customary ones"""
    plans = [('all-prefixed', dict([(root_ns, 'n0')] + [(u, ODD_PREFIX.get(k, 'p' + k)) for k, u in extra.items()]))]
    if extra:
        plans.append(('default-root+odd-prefixes', dict([(root_ns, None)] + [(u, ODD_PREFIX.get(k, 'p' + k)) for k, u in extra.items()])))
        plans.append(('prefixed-root+customary', dict([(root_ns, 'sidd')] + [(u, k) for k, u in extra.items()])))
    return plans


# -------------------------------------------------------------------------------------------- bookkeeping repair

def is_int(s):
    return s is not None and re.fullmatch(r'\s*[+-]?\d+\s*', s) is not None


def fix_poly(el, rng=None):
    """make order attributes agree with the Coef children: exponents 0..order, each pair at most once"""
    coefs = [c for c in el if isinstance(c.tag, str) and X.local(c.tag) == 'Coef']
    if not coefs or el.get('order1') is None:
        return False
    two = el.get('order2') is not None
    if two:
        n = len(coefs)
        o1 = max(0, int(math.sqrt(n)) - 1) if n > 1 else 0
        o2 = max(0, n // (o1 + 1) - 1)
        pairs = [(i, j) for i in range(o1 + 1) for j in range(o2 + 1)]
        for c in coefs[len(pairs):]:
            el.remove(c)
        for c, (i, j) in zip(coefs, pairs):
            c.set('exponent1', str(i))
            c.set('exponent2', str(j))
        el.set('order1', str(o1))
        el.set('order2', str(o2))
    else:
        for i, c in enumerate(coefs):
            c.set('exponent1', str(i))
        el.set('order1', str(len(coefs) - 1))
    return True


COUNTERS = {
    # CPHD 1.x / CRSD 1.0 (NGA.STND.0068-1, NGA.STND.0080-1) and SICD MatchInfo / ImageFormation (NGA.STND.0024-1):
    # "Num<...>: number of <...> elements that follow"
    'NumACFs': 'AntCoordFrame', 'NumAPCs': 'AntPhaseCenter', 'NumAntPats': 'AntPattern',
    'NumCPHDChannels': 'Channel', 'NumCRSDChannels': 'Channel', 'NumSupportArrays': 'SupportArray',
    'NumRcvs': 'RcvParameters', 'NumTxWFs': 'TxWFParameters', 'NumCODTimes': 'CODTime', 'NumDwellTimes': 'DwellTime',
    'NumSegments': 'Segment', 'NumMatchTypes': 'MatchType', 'NumMatchCollections': 'MatchCollection',
    'NumChanProc': 'ChanIndex',
}


def fix_tables(el, kids):
    """lookup tables (numLuts x size, LUTValues@lut = size) and rectangular coefficient arrays (numRows x numCols | numPhasings x
    numPoints with Coef(row,col | phasing,point)): repaired only when the declared sizes do not match the children present"""
    if el.get('numLuts') is not None and el.get('size') is not None:
        luts = [c for c in kids if X.local(c.tag) == 'LUTValues']
        lens = [len((c.text or '').replace(',', ' ').split()) for c in luts]
        ok = luts and len(set(lens)) == 1 and el.get('numLuts') == str(len(luts)) and el.get('size') == str(lens[0]) \
            and all(c.get('lut') == str(lens[0]) for c in luts)
        if not ok:
            n = 3
            for c in luts:
                vals = (c.text or '0').replace(',', ' ').split() or ['0']
                c.text = ' '.join((vals * n)[:n])
                c.set('lut', str(n))
            el.set('numLuts', str(len(luts)))
            el.set('size', str(n))
    for a1, a2, i1, i2 in (('numRows', 'numCols', 'row', 'col'), ('numPhasings', 'numPoints', 'phasing', 'point')):
        if el.get(a1) is not None and el.get(a2) is not None:
            coefs = [c for c in kids if c.get(i1) is not None]
            if not coefs:
                continue
            try:
                d1, d2 = int(el.get(a1)), int(el.get(a2))
                grid = [(int(c.get(i1)), int(c.get(i2))) for c in coefs]
                ok = grid == [(r, s) for r in range(d1) for s in range(d2)]
            except (TypeError, ValueError):
                ok = False
            if ok:
                continue
            n1 = 2 if len(coefs) >= 4 else 1
            n2 = max(1, min(2, len(coefs) // n1))
            while len(coefs) < n1 * n2:
                d = copy.deepcopy(coefs[-1])
                coefs[-1].addnext(d)
                coefs.append(d)
            for c in coefs[n1 * n2:]:
                el.remove(c)
            coefs = coefs[:n1 * n2]
            for k, c in enumerate(coefs):
                c.set(i1, str(k // n2))
                c.set(i2, str(k % n2))
            el.set(a1, str(n1))
            el.set(a2, str(n2))


def fix_bookkeeping(root):
    """sizes, indices, counts and polynomial orders that the schema cannot express"""
    for el in root.iter():
        if not isinstance(el.tag, str):
            continue
        kids = [c for c in el if isinstance(c.tag, str)]
        if el.get('order1') is not None:
            fix_poly(el)
            continue
        fix_tables(el, kids)
        kids = [c for c in el if isinstance(c.tag, str)]
        names = [X.local(c.tag) for c in kids]
        if X.local(el.tag) == 'RMA' and 'ImageType' in names:
            # RMA/ImageType names the parameter block that is present
            br = [n for n in names if n in ('RMAT', 'RMCR', 'INCA')]
            if len(br) == 1 and kids[names.index('ImageType')].text != br[0]:
                kids[names.index('ImageType')].text = br[0]
        # indices: consecutive runs of the same tag carrying an integer `index`
        runs = {}
        for c in kids:
            if c.get('index') is not None and is_int(c.get('index')):
                runs.setdefault(c.tag, []).append(c)
        for tag, run in runs.items():
            base = 0 if X.local(tag) == 'Amplitude' else 1
            for i, c in enumerate(run):
                c.set('index', str(i + base))
        if el.get('size') is not None and is_int(el.get('size')):
            idx = [c for c in kids if c.get('index') is not None]
            if kids:
                el.set('size', str(len(idx) if idx else len(kids)))
            elif el.text and el.text.strip() and el.get('numLuts') is None:
                # list-valued element (lookup table): size = number of entries
                el.set('size', str(len(el.text.split())))
        # num<X>s attribute next to <X> children (numLayers / Layer)
        for an, av in list(el.attrib.items()):
            m = re.fullmatch(r'num([A-Z][A-Za-z]*)s', an)
            if m and is_int(av) and an not in ('numLuts', 'numRows', 'numCols', 'numPhasings', 'numPoints'):
                sibs = [c for c in kids if X.local(c.tag) == m.group(1)]
                if sibs:
                    el.set(an, str(len(sibs)))
        # counters next to the repeated element they count (the standards' definitions, not sarpy's)
        for c in kids:
            ln = X.local(c.tag)
            if ln in COUNTERS and len(c) == 0 and is_int(c.text):
                sibs = [k for k in kids if X.local(k.tag) == COUNTERS[ln]]
                c.text = str(len(sibs))
        # identifying `name` attributes of repeated Parameter-like siblings are kept distinct
        seen = {}
        for c in kids:
            nm = c.get('name')
            if nm is not None and len(c) == 0:
                key = (c.tag, nm)
                if key in seen:
                    seen[key] += 1
                    c.set('name', '%s_%d' % (nm, seen[key]))
                else:
                    seen[key] = 0
    # unit vectors etc. are left alone: values are the generator's business
    return root


WGS84_A = 6378137.0
WGS84_F = 1.0 / 298.257223563
WGS84_E2 = WGS84_F * (2.0 - WGS84_F)


def geodetic_to_ecf(lat, lon, hae):
    phi, lam = math.radians(lat), math.radians(lon)
    n = WGS84_A / math.sqrt(1.0 - WGS84_E2 * math.sin(phi) ** 2)
    return ((n + hae) * math.cos(phi) * math.cos(lam), (n + hae) * math.cos(phi) * math.sin(lam), (n * (1.0 - WGS84_E2) + hae) * math.sin(phi))


ICP_INDEX = ['1:FRFC', '2:FRLC', '3:LRLC', '4:LRFC']


def fix_semantics(root, rng):
    """redundancies that the standards define between elements (not expressible in XSD); applied to generated documents only:
       RMA/ImageType names the branch present; RcvDemodType CHIRP <=> RcvFMRate 0; ECF is the WGS-84 position of LLH;
       the four image corner points carry the indices 1:FRFC .. 4:LRFC in order; filter coefficient arrays are rectangular"""
    for el in root.iter():
        if not isinstance(el.tag, str):
            continue
        kids = [c for c in el if isinstance(c.tag, str)]
        names = [X.local(c.tag) for c in kids]
        ln = X.local(el.tag)
        if ln == 'RMA' and 'ImageType' in names:
            blocks = [c for c in kids if X.local(c.tag) in ('RMAT', 'RMCR', 'INCA')]
            for c in blocks[1:]:
                el.remove(c)           # SICD 1.0.0 and older let several blocks through; the standard has exactly one
            if blocks:
                kids[names.index('ImageType')].text = X.local(blocks[0].tag)
        if 'RcvDemodType' in names and 'RcvFMRate' in names:
            d, r = kids[names.index('RcvDemodType')], kids[names.index('RcvFMRate')]
            if d.text == 'CHIRP':
                r.text = '0'
            elif d.text == 'STRETCH' and float(r.text) == 0.0:
                r.text = '1500000000.5'
        if names == ['ECF', 'LLH']:
            llh = kids[1]
            v = {X.local(c.tag): c for c in llh}
            if set(v) == {'Lat', 'Lon', 'HAE'}:
                lat = round(rng.uniform(-80, 80), 6)
                lon = round(rng.uniform(-179, 179), 6)
                hae = round(rng.uniform(-100, 3000), 3)
                v['Lat'].text, v['Lon'].text, v['HAE'].text = repr(lat), repr(lon), repr(hae)
                for c, val in zip(kids[0], geodetic_to_ecf(lat, lon, hae)):
                    c.text = repr(val)
        icps = [c for c in kids if X.local(c.tag) == 'ICP' and c.get('index') is not None]
        if len(icps) == 4:
            for c, s in zip(icps, ICP_INDEX):
                c.set('index', s)
    return root


UNIT_VECS = [('1', '0', '0'), ('0', '1', '0'), ('0', '0', '1'), ('0', '0', '-1'), ('-1', '0', '0')]


def axis_align_xyz(root, rng):
    """every X/Y/Z triple of plain numbers becomes an exactly representable unit vector or is left as is (50/50): several
    sarpy fields holding such triples are unit vectors by the standards' definition and are re-normalised on input"""
    for el in root.iter():
        if not isinstance(el.tag, str):
            continue
        kids = [c for c in el if isinstance(c.tag, str)]
        if [X.local(c.tag) for c in kids] == ['X', 'Y', 'Z'] and all(len(c) == 0 for c in kids):
            v = rng.choice(UNIT_VECS)
            for c, s in zip(kids, v):
                c.text = s


# ------------------------------------------------------------------------------------------------- typed walk

class TNode:
    __slots__ = ('el', 'decl', 'type', 'kids', 'parent', 'cls', 'opaque', 'modelled')

    def __init__(self, el, decl, typ, parent):
        self.el, self.decl, self.type, self.parent, self.kids = el, decl, typ, parent, []
        self.cls = None        # name of the sarpy class that reads this element (None: plain value / not modelled)
        self.opaque = False    # class with hand-written to_node/from_node
        self.modelled = True   # False: child of a class-read element that no row of the class's table names


def typed_walk(root, root_decl):
    """annotate a schema-valid instance with its declarations; returns the root TNode (None when it does not match)"""
    def rec(el, decl, parent):
        t = decl.type if decl is not None else None
        n = TNode(el, decl, t, parent)
        if isinstance(t, X.ComplexType) and t.content is not None:
            asg = X.match_children(t, el)
            if asg is None:
                return None
            for c, p in asg:
                k = rec(c, p if isinstance(p, X.Elem) else None, n)
                if k is None:
                    return None
                n.kids.append(k)
        return n
    return rec(root, root_decl, None)


def outside_premise(root):
    """reasons why a schema-valid document still breaks a redundancy the standards define and that cannot be repaired by
    renumbering (such documents are not fed to the oracle, they are counted)"""
    out = []
    for el in root.iter():
        if not isinstance(el.tag, str):
            continue
        if X.local(el.tag) == 'RMA':
            names = [X.local(c.tag) for c in el if isinstance(c.tag, str)]
            if 'ImageType' in names and len([n for n in names if n in ('RMAT', 'RMCR', 'INCA')]) != 1:
                out.append('RMA/ImageType with none or several of the parameter blocks RMAT / RMCR / INCA (the standard has exactly one)')
    return out


def path_of(el):
    parts = []
    while el is not None:
        parts.append(X.local(el.tag))
        el = el.getparent()
    return '/'.join(reversed(parts))


def index_path(el):
    """child-index path from the root (stable address inside a deep copy)"""
    out = []
    while el.getparent() is not None:
        out.append(el.getparent().index(el))
        el = el.getparent()
    return tuple(reversed(out))


def at_path(root, ip):
    el = root
    for i in ip:
        el = el[i]
    return el


def descendants_elems(p, out):
    if isinstance(p, X.Elem):
        out.append(p)
    elif isinstance(p, X.Group):
        for it in p.items:
            descendants_elems(it, out)
    return out


def choice_groups(p, out):
    if isinstance(p, X.Group):
        if p.kind == 'choice':
            out.append(p)
        for it in p.items:
            choice_groups(it, out)
    return out


def slots(tn):
    """variation points of a typed document:
         optional : elements that may be removed alone (particle min 0, or more occurrences than min)
         repeat   : elements that may be duplicated (max unbounded or above the present count)
         choice   : (parent TNode, choice group, index of the branch taken, [children in it]) with at least two branches"""
    opt, rep, cho = [], [], []

    def rec(n):
        by_p = {}
        for k in n.kids:
            if k.decl is not None:
                by_p.setdefault(id(k.decl), []).append(k)
        for ks in by_p.values():
            d = ks[0].decl
            if len(ks) > d.min:
                for k in ks[d.min:] if d.min > 0 else ks:
                    opt.append(k)
            if d.max is None or len(ks) < d.max:
                rep.append(ks[-1])
        if isinstance(n.type, X.ComplexType) and n.type.content is not None:
            for g in choice_groups(n.type.content, []):
                if len(g.items) < 2 or g.max != 1:
                    continue
                branch_of = {}
                for bi, it in enumerate(g.items):
                    for e in descendants_elems(it, []):
                        branch_of[id(e)] = bi
                inside = [k for k in n.kids if k.decl is not None and id(k.decl) in branch_of]
                taken = branch_of[id(inside[0].decl)] if inside else None
                cho.append((n, g, taken, inside))
        for k in n.kids:
            rec(k)
    rec(tn)
    return opt, rep, cho


def remove_elems(root, ipaths):
    """deep copy of root with the elements at the given index paths removed"""
    new = copy.deepcopy(root)
    targets = [at_path(new, ip) for ip in sorted(set(ipaths))]
    for t in targets:
        p = t.getparent()
        if p is not None and t in p:
            p.remove(t)
    return new


def duplicate_elem(root, ip):
    new = copy.deepcopy(root)
    t = at_path(new, ip)
    dup = copy.deepcopy(t)
    # insert after the last sibling with the same tag following t
    p = t.getparent()
    pos = p.index(t)
    while pos + 1 < len(p) and p[pos + 1].tag == t.tag:
        pos += 1
    p.insert(pos + 1, dup)
    return new


def switch_choice(root, parent_ip, group, taken, inside_ips, new_branch, pol):
    """replace the children instantiating `group` under the parent by a generated instance of branch `new_branch`"""
    new = copy.deepcopy(root)
    parent = at_path(new, parent_ip)
    inside = [at_path(new, ip) for ip in inside_ips]
    if inside:
        pos = parent.index(inside[0])
        for c in inside:
            parent.remove(c)
    else:
        return None
    kids = gen_particle(group.items[new_branch], pol, 3, ())
    if not kids:
        return None
    for i, k in enumerate(kids):
        parent.insert(pos + i, k)
    return new


# ------------------------------------------------------------------------------------------------- comparison

def canon_bool(s):
    s = s.strip()
    return {'1': 'true', '0': 'false'}.get(s, s)


DT_RE = re.compile(r'^(-?\d{4,})-(\d\d)-(\d\d)T(\d\d):(\d\d):(\d\d)(\.\d+)?(Z|[+-]\d\d:\d\d)?$')


def canon_datetime(s):
    m = DT_RE.match(s.strip())
    if not m:
        return ('raw', s.strip())
    y, mo, d, h, mi, sec, frac, tz = m.groups()
    f = Fraction(int(frac[1:]), 10 ** len(frac[1:])) if frac else Fraction(0)
    base = datetime.datetime(int(y), int(mo), int(d), int(h) % 24, int(mi), int(sec))
    if tz and tz != 'Z':
        sign = 1 if tz[0] == '+' else -1
        base -= sign * datetime.timedelta(hours=int(tz[1:3]), minutes=int(tz[4:6]))
    return ('dt', base.isoformat(), f)


REL_TOL = 1e-9     # relative margin for doubles (unit-vector re-normalisation of a nearly-unit vector, modular reduction of angles)


def float_close(fa, fb, st):
    """'exact' | 'rounding' | None for two doubles.  rounding = within a wide margin: relative 1e-9, or 1e-12 of the declared
    range for range-restricted types (angles reduced modulo 360 lose absolute, not relative, accuracy)"""
    if fa == fb or (math.isnan(fa) and math.isnan(fb)):
        return 'exact'
    if math.isnan(fa) or math.isnan(fb) or math.isinf(fa) or math.isinf(fb):
        return None
    tol = REL_TOL * max(abs(fa), abs(fb))
    if st is not None:
        lo = st.min_inc if st.min_inc is not None else st.min_exc
        hi = st.max_inc if st.max_inc is not None else st.max_exc
        if lo is not None and hi is not None:
            tol = max(tol, 1e-12 * (float(hi) - float(lo)))
    return 'rounding' if abs(fa - fb) <= tol else None


def leaf_equal(a, b, st, note=None):
    """values of a leaf: a (input text), b (output text), st = declared simple type (None: unknown).
    note: list collecting (a, b) pairs that are equal only up to the rounding margin"""
    a = '' if a is None else a
    b = '' if b is None else b
    if a == b:
        return True
    bt = st.builtin if (st is not None and st.variety == 'atomic') else None
    if bt in INT_BUILTINS:
        try:
            return int(a) == int(b)
        except ValueError:
            try:
                return float(a) == float(b)
            except ValueError:
                return False
    if bt in FLOAT_BUILTINS or bt is None:
        try:
            fa, fb = float(a), float(b)
            r = float_close(fa, fb, st)
            if r == 'rounding' and note is not None:
                note.append((a, b))
            if r is not None:
                return True
            if bt is not None:
                return False
        except ValueError:
            if bt is not None:
                return False
    if st is None:
        # untyped comparison (model output against sarpy output): canonical forms of dates and booleans count as equal
        ca, cb = canon_datetime(a), canon_datetime(b)
        if ca[0] == 'dt' and ca == cb:
            return True
        if {a.strip(), b.strip()} in ({'true', '1'}, {'false', '0'}):
            return True
    if bt == 'boolean':
        return canon_bool(a) == canon_bool(b)
    if bt == 'dateTime':
        return canon_datetime(a) == canon_datetime(b)
    if st is not None and st.variety == 'list':
        return a.split() == b.split()
    if bt not in ('string', 'normalizedString') or st is None:
        return a.strip() == b.strip()
    return a.strip() == b.strip()


def poly_array(el):
    """(order1, order2|None, {(i,j): value}) of a polynomial element, None if it is not one"""
    if el.get('order1') is None:
        return None
    coefs = [c for c in el if isinstance(c.tag, str)]
    if not coefs or any(X.local(c.tag) != 'Coef' for c in coefs):
        return None
    try:
        o1 = int(el.get('order1'))
        o2 = int(el.get('order2')) if el.get('order2') is not None else None
        d = {}
        for c in coefs:
            i = int(c.get('exponent1'))
            j = int(c.get('exponent2')) if c.get('exponent2') is not None else 0
            d[(i, j)] = d.get((i, j), 0.0) + float(c.text)
        return o1, o2, d
    except (TypeError, ValueError):
        return None


def lcs_align(a, b):
    """longest common subsequence alignment of two tag lists: list of (i|None, j|None)"""
    n, m = len(a), len(b)
    L = [[0] * (m + 1) for _ in range(n + 1)]
    for i in range(n - 1, -1, -1):
        for j in range(m - 1, -1, -1):
            L[i][j] = L[i + 1][j + 1] + 1 if a[i] == b[j] else max(L[i + 1][j], L[i][j + 1])
    out, i, j = [], 0, 0
    while i < n and j < m:
        if a[i] == b[j]:
            out.append((i, j))
            i += 1
            j += 1
        elif L[i + 1][j] >= L[i][j + 1]:
            out.append((i, None))
            i += 1
        else:
            out.append((None, j))
            j += 1
    while i < n:
        out.append((i, None))
        i += 1
    while j < m:
        out.append((None, j))
        j += 1
    return out


def compare_trees(tin, out_root, rounding=None):
    """differences between the typed input tree and the output element tree.
       Each difference: dict(kind, path, tag, detail, node = TNode the difference is anchored at, item).  kinds:
         element-dropped / element-added / order / attribute-dropped / attribute-added / attribute-changed /
         value-changed / namespace-changed / element-renamed / polynomial-changed
       rounding: list collecting (path, input text, output text) of numbers equal only within the rounding margin"""
    diffs = []
    rounding = rounding if rounding is not None else []

    def attr_type(n, aq):
        if isinstance(n.type, X.ComplexType):
            for a in n.type.attrs:
                if a.qname == aq:
                    return a.stype
        return None

    def leq(a, b, st, path):
        note = []
        r = leaf_equal(a, b, st, note)
        for x, y in note:
            rounding.append((path, x, y))
        return r

    def derived_llh(n):
        """leaf under <..>/LLH where LLH has an ECF sibling: a redundancy the standards define (LLH = geodetic(ECF))"""
        p = n.parent
        if p is None or X.local(p.el.tag) != 'LLH' or p.parent is None:
            return False
        return [X.local(k.el.tag) for k in p.parent.kids] == ['ECF', 'LLH']

    def rec(n, o, path):
        a = n.el
        if a.tag != o.tag:
            diffs.append(dict(kind='namespace-changed' if X.local(a.tag) == X.local(o.tag) else 'element-renamed', path=path, tag=X.local(a.tag),
                              node=n.parent or n, item='.' + X.local(a.tag), detail='%s -> %s' % (a.tag, o.tag)))
        pa = poly_array(a)
        if pa is not None:
            pb = poly_array(o)
            if pb is None:
                diffs.append(dict(kind='polynomial-changed', path=path, tag=X.local(a.tag), node=n.parent or n, item='.' + X.local(a.tag),
                                  detail='output is not a polynomial element'))
            else:
                keys = set(pa[2]) | set(pb[2])
                bad = [k for k in keys if float_close(pa[2].get(k, 0.0), pb[2].get(k, 0.0), None) is None]
                if pa[0] != pb[0] or pa[1] != pb[1] or bad:
                    diffs.append(dict(kind='polynomial-changed', path=path, tag=X.local(a.tag), node=n.parent or n, item='.' + X.local(a.tag),
                                      detail='orders %s/%s -> %s/%s, differing terms %s' % (pa[0], pa[1], pb[0], pb[1], sorted(bad)[:4])))
            extra_a = {k: v for k, v in a.attrib.items() if k not in ('order1', 'order2')}
            extra_o = {k: v for k, v in o.attrib.items() if k not in ('order1', 'order2')}
            cmp_attrs(n, extra_a, extra_o, path)
            return
        cmp_attrs(n, dict(a.attrib), dict(o.attrib), path)
        ka = [k for k in n.kids]
        ko = [c for c in o if isinstance(c.tag, str)]
        if not ka and not ko:
            st = n.type if isinstance(n.type, X.SimpleType) else (n.type.simple if isinstance(n.type, X.ComplexType) else None)
            if not leq(a.text, o.text, st, path):
                ok = False
                if derived_llh(n):
                    try:
                        lim = 1e-2 if X.local(a.tag) == 'HAE' else 1e-7
                        if abs(float(a.text) - float(o.text)) <= lim:
                            ok = True
                            rounding.append((path, a.text, o.text))
                    except (TypeError, ValueError):
                        pass
                if not ok:
                    wrapped = False
                    try:
                        wrapped = (st is not None and st.min_inc is not None and st.max_inc is not None and float(a.text) == float(st.min_inc)
                                   and float(o.text) == float(st.max_inc) and float(st.min_inc) == -float(st.max_inc))
                    except (TypeError, ValueError):
                        pass
                    try:
                        # an angle reduced modulo 360 (longitudes, azimuths) or 180 (latitudes): the difference is a positive multiple of 180
                        q = abs(float(a.text) - float(o.text)) / 180.0
                        wrapped = wrapped or (q >= 0.5 and abs(q - round(q)) < 1e-9 and abs(float(o.text)) <= 180.0)
                    except (TypeError, ValueError):
                        pass
                    diffs.append(dict(kind='value-changed', path=path, tag=X.local(a.tag), node=n.parent or n, item='.' + X.local(a.tag),
                                      detail='%r -> %r' % (a.text, o.text), wrapped=wrapped))
            return
        ta, to = [k.el.tag for k in ka], [c.tag for c in ko]
        if ta == to:
            pairs = list(zip(range(len(ka)), range(len(ko))))
        else:
            al = lcs_align(ta, to)
            pairs = [(i, j) for i, j in al if i is not None and j is not None]
            dropped = [i for i, j in al if j is None]
            added = [j for i, j in al if i is None]
            at = [to[j] for j in added]
            for i in dropped:
                lt = X.local(ta[i])
                if ta[i] in at:
                    at.remove(ta[i])
                    diffs.append(dict(kind='order', path=path, tag=X.local(a.tag), node=n, item='', moved=lt,
                                      detail='child %s moved: %s written as %s' % (lt, [X.local(t) for t in ta], [X.local(t) for t in to])))
                elif lt in [X.local(t) for t in at]:
                    j = next(t for t in at if X.local(t) == lt)
                    at.remove(j)
                    diffs.append(dict(kind='namespace-changed', path=path + '/' + lt, tag=lt, node=n, item='.' + lt, detail='%s -> %s' % (ta[i], j)))
                else:
                    diffs.append(dict(kind='element-dropped', path=path + '/' + lt, tag=lt, node=n, item='.' + lt,
                                      detail='present in the input, absent in the output'))
            for t in at:
                diffs.append(dict(kind='element-added', path=path + '/' + X.local(t), tag=X.local(t), node=n, item='.' + X.local(t),
                                  detail='absent in the input, present in the output'))
        for i, j in pairs:
            rec(ka[i], ko[j], path + '/' + X.local(ka[i].el.tag))

    def cmp_attrs(n, aa, ao, path):
        for k, v in aa.items():
            lk = X.local(k)
            if k not in ao:
                alt = [x for x in ao if X.local(x) == lk]
                if alt:
                    diffs.append(dict(kind='namespace-changed', path=path + '@' + lk, tag=X.local(n.el.tag), node=n, item='@' + lk,
                                      detail='attribute %s -> %s' % (k, alt[0])))
                else:
                    diffs.append(dict(kind='attribute-dropped', path=path + '@' + lk, tag=X.local(n.el.tag), node=n, item='@' + lk, detail='value %r' % v))
            elif not leq(v, ao[k], attr_type(n, k), path + '@' + lk):
                diffs.append(dict(kind='attribute-changed', path=path + '@' + lk, tag=X.local(n.el.tag), node=n, item='@' + lk, detail='%r -> %r' % (v, ao[k])))
        for k in ao:
            if k not in aa and not [x for x in aa if X.local(x) == X.local(k)]:
                diffs.append(dict(kind='attribute-added', path=path + '@' + X.local(k), tag=X.local(n.el.tag), node=n, item='@' + X.local(k),
                                  detail='value %r' % ao[k]))

    rec(tin, out_root, X.local(tin.el.tag))
    return diffs


def untyped_walk(root):
    """TNode tree without declarations (for comparing two arbitrary trees)"""
    def rec(el, parent):
        n = TNode(el, None, None, parent)
        for c in el:
            if isinstance(c.tag, str):
                n.kids.append(rec(c, n))
        return n
    return rec(root, None)
