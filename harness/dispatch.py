"""The reader / writer DISPATCH layer of sarpy/io/general/base.py, shared by C01 (reads) and C07 (writes).

proof side : lean/SarpyModel/Props/C01Dispatch.lean, Props/C07Dispatch.lean over Spec/Dispatch.lean
             (BaseReader.__getitem__ / __call__ / read / read_raw / read_chip, size accessors, AggregateReader index mapping,
             SubsetSICDReader parent pick, FullResolutionFetcher; BaseWriter.__call__ / write / write_raw / write_chip)
tie        : (a) translator: Gen/Dispatch.lean is regenerated from the Python text of those functions on every run
             (translate/gen_dispatch.py) and Bridge/Dispatch.lean proves Gen = Spec;
             (b) correspondence through the line protocol (`disp ...`) on REAL multi-image readers and writers: what the layer hands
             to the data segment (observed with recording segments: image, read vs read_raw, squeeze, subscript; segment, write vs
             write_raw, start_indices, subscript), the result shape and the pixels (arrays carry image id + flat offset)
search     : numpy oracle stated directly on the implementation (designated image by the documented conventions, numpy selection
             of that image, numpy.squeeze); for writers the stored / re-read images after histories through every entry point
"""
import io
import itertools
import json
import logging
import os
import shutil
import sys
import tempfile

import numpy

from common import Driver, Infra, VERIF
import segtree

sys.path.insert(0, os.path.join(VERIF, 'translate'))

READ_MODULE, READ_NS = 'SarpyModel.Props.C01Dispatch', 'Sarpy.Props.C01'
WRITE_MODULE, WRITE_NS = 'SarpyModel.Props.C07Dispatch', 'Sarpy.Props.C07'
BRIDGE_MODULE, BRIDGE_NS = 'SarpyModel.Bridge.Dispatch', 'Sarpy.Bridge.Dispatch'

REQUIRED_READ = [
    # string modifiers commute with everything else
    'extract_tuple', 'getitem_tuple', 'getitem_mods_anywhere', 'getitem_mod_moves', 'getitem_single_str', 'getitem_single',
    # the image-index rule of __getitem__
    'trailingIndex_some_iff', 'getitemCore_rule', 'trailingIndex_image', 'getitem_reads_index',
    # __call__: ranges, image, refusal of an index naming no image
    'pyIndex_ok_iff', 'pyIndex_lt', 'pyIndex_refused_iff', 'pickImage_lt', 'call_ok_iff', 'call_image_lt', 'call_flags', 'call_sub',
    'call_index_out_of_range', 'call_index_nonneg', 'call_index_neg', 'call_single_ignores_index', 'convRanges_length',
    'convRanges_entries', 'callSub_none_iff', 'convRanges_slices', 'convRange_int', 'convRange_none', 'convRange_tuple3',
    # every entry point denotes the same selection
    'read_eq_call', 'read_raw_eq_call', 'read_chip_eq_read', 'getitem_eq_call', 'getitem_eq_call_zero', 'getitem_eq_read',
    'getitem_raw_eq_read_raw', 'getitem_nosqueeze_eq_read', 'entry_points_agree', 'dispatch_image_lt',
    # aggregate readers, size accessors, consumers
    'aggMap_length', 'aggMap_get', 'flatten_get', 'agg_segment_is_childs', 'agg_dispatch', 'agg_dispatch_total',
    'sizes_agree', 'dataSize_one_iff', 'subset_parent', 'subset_parent_refused', 'verifySlice_normal', 'verifyAxes_normal',
    'verifySub_normEntries', 'verifySub_normalSub', 'fullSlices_normalSub', 'resolveSub_normalSub', 'fetcher_reads_its_image',
    'fetcher_fullres',
    # end to end with read_eq_numpy (C01Nd) and read_refines (C01Seg)
    'serve_eq_numpy', 'reader_read_refines', 'getitem_reads_that_image',
]
REQUIRED_WRITE = [
    'dispatchPut_eq_call', 'write_eq_call', 'write_chip_eq_write', 'write_raw_eq_call', 'put_ok_iff', 'put_forwards_every_argument',
    'put_goes_to_index', 'put_raw_served', 'put_formatted_served_iff', 'put_index_out_of_range', 'entry_points_agree',
    'put_segment_independent_of_raw', 'put_routes',
]
REQUIRED_BRIDGE_READ = ['gen_extract', 'gen_reader_call', 'gen_reader_getitem', 'gen_reader_read', 'gen_reader_read_raw',
                        'gen_reader_read_chip', 'gen_dispatch_get', 'pyFor_ok', 'pyFor_append', 'convRanges_eq_mapE', 'split_strings']
REQUIRED_BRIDGE_WRITE = ['gen_writer_call', 'gen_writer_write', 'gen_writer_write_raw', 'gen_writer_write_chip', 'gen_dispatch_put']


def regen():
    """regenerate lean/SarpyModel/Gen/Dispatch.lean from the current Python text of the dispatch functions"""
    try:
        import gen_dispatch
    except ImportError:
        return {'unsupported': [], 'note': 'no translator module'}
    return gen_dispatch.generate(os.path.join(VERIF, 'lean', 'SarpyModel', 'Gen', 'Dispatch.lean'))


def extra_reads():
    """for Check.prove(..., extra=...): the dispatch theorems of C01 (+ the bridge to the regenerated Python)"""
    out = [(READ_MODULE, READ_NS, REQUIRED_READ)]
    if REQUIRED_BRIDGE_READ:
        out.append((BRIDGE_MODULE, BRIDGE_NS, REQUIRED_BRIDGE_READ))
    return out


def extra_writes():
    out = [(WRITE_MODULE, WRITE_NS, REQUIRED_WRITE)]
    if REQUIRED_BRIDGE_WRITE:
        out.append((BRIDGE_MODULE, BRIDGE_NS, REQUIRED_BRIDGE_WRITE))
    return out


def targets_reads():
    return [READ_MODULE] + ([BRIDGE_MODULE] if REQUIRED_BRIDGE_READ else [])


def targets_writes():
    return [WRITE_MODULE] + ([BRIDGE_MODULE] if REQUIRED_BRIDGE_WRITE else [])

BASE = 100000           # pixel value = image id * BASE + flat offset in the stored (raw) array


# ------------------------------------------------------------------ values of the request language

def o(v):
    return 'N' if v is None else str(int(v))


def str_class(s):
    t = s.strip().lower()
    return 'r' if t == 'raw' else ('n' if t == 'nosqueeze' else 'u')


def tok(v):
    """JSON-able value -> driver token.  None | int | 'E' | 'O' | ['s', a, b, c] | ['m', string] | ['t', v...]"""
    if v is None:
        return 'N'
    if isinstance(v, bool):
        raise ValueError(v)
    if isinstance(v, int):
        return f'i{v}'
    if v == 'E' or v == 'O':
        return v
    if v[0] == 's':
        return 's' + '/'.join(o(x) for x in v[1:])
    if v[0] == 'm':
        return 'm' + str_class(v[1])
    if v[0] == 't':
        return 't(' + ';'.join(tok(x) for x in v[1:]) + ')'
    raise ValueError(v)


def to_py(v):
    if v is None or isinstance(v, int):
        return v
    if v == 'E':
        return Ellipsis
    if v == 'O':
        return 1.5
    if v[0] == 's':
        return slice(*v[1:])
    if v[0] == 'm':
        return v[1]
    if v[0] == 't':
        return tuple(to_py(x) for x in v[1:])
    raise ValueError(v)


def entry_tok(e):
    """a slice / Ellipsis / None / int as DataSegment.read receives it -> token"""
    if e is Ellipsis:
        return 'E'
    if e is None:
        return 'N'
    if isinstance(e, slice):
        return 's' + '/'.join(o(x) for x in (e.start, e.stop, e.step))
    if isinstance(e, (int, numpy.integer)):
        return f'i{int(e)}'
    return '?' + type(e).__name__


def sub_tok(sub):
    if sub is None:
        return 'N'
    if isinstance(sub, (tuple, list)):
        return ','.join(entry_tok(e) for e in sub) if len(sub) else '-'
    return entry_tok(sub)


# ------------------------------------------------------------------ subjects: real readers over provenance arrays

_REC = {'log': None}
_CLS = {}


def rec_classes():
    """NumpyArraySegment subclasses with unchanged behaviour that record what the reader / writer hands to them"""
    if _CLS:
        return _CLS
    from sarpy.io.general.data_segment import NumpyArraySegment

    class RecSeg(NumpyArraySegment):
        _tag = None

        def read(self, subscript, squeeze=True):
            if _REC['log'] is not None:
                _REC['log'].append((self._tag, 'read', sub_tok(subscript), bool(squeeze)))
            return NumpyArraySegment.read(self, subscript, squeeze=squeeze)

        def read_raw(self, subscript, squeeze=True):
            if _REC['log'] is not None:
                _REC['log'].append((self._tag, 'read_raw', sub_tok(subscript), bool(squeeze)))
            return NumpyArraySegment.read_raw(self, subscript, squeeze=squeeze)

        def write(self, data, start_indices=None, subscript=None, **kwargs):
            if _REC['log'] is not None:
                _REC['log'].append((self._tag, 'write', start_tok(start_indices), sub_tok(subscript), sorted(kwargs)))
            return NumpyArraySegment.write(self, data, start_indices=start_indices, subscript=subscript, **kwargs)

        def write_raw(self, data, start_indices=None, subscript=None, **kwargs):
            if _REC['log'] is not None:
                _REC['log'].append((self._tag, 'write_raw', start_tok(start_indices), sub_tok(subscript), sorted(kwargs)))
            return NumpyArraySegment.write_raw(self, data, start_indices=start_indices, subscript=subscript, **kwargs)

    _CLS['RecSeg'] = RecSeg
    return _CLS


def start_tok(s):
    if s is None:
        return 'N'
    if isinstance(s, (int, numpy.integer)):
        return f'i{int(s)}'
    return 't(' + ';'.join(str(int(x)) for x in s) + ')'


def fmt_shape(im):
    raw = im['raw']
    return [raw[t] for t in im['trans']] if im.get('trans') is not None else list(raw)


def image_arrays(i, im, dtype='int64'):
    shape = tuple(im['raw'])
    raw = (numpy.arange(int(numpy.prod(shape))).reshape(shape) + i * BASE).astype(dtype)
    return raw, segtree.orient(raw, im.get('rev'), im.get('trans'))


def images_tok(images):
    if not images:
        return '-'
    return '+'.join(','.join(map(str, fmt_shape(im))) + ':' + ','.join(map(str, im['raw'])) for im in images)


def rand_images(rng, count, ndims=(1, 2, 2, 2, 3)):
    out = []
    for _ in range(count):
        nd = rng.choice(ndims)
        raw = segtree.rand_shape(rng, nd, 1, 6)
        rev, trans = segtree.rand_orient(rng, nd)
        out.append({'raw': list(raw), 'rev': list(rev) if rev else None, 'trans': list(trans) if trans is not None else None})
    return out


class Subject:
    """a real reader plus, per image, what read(None) / read_raw(None) must return"""

    def __init__(self, desc, reader, fulls, raws, closers=(), recorded=False, children=None):
        self.desc = desc
        self.reader = reader
        self.fulls = fulls
        self.raws = raws
        self.closers = list(closers)
        self.recorded = recorded
        self.children = children
        self.images = [{'fshape': list(f.shape), 'rshape': list(r.shape)} for f, r in zip(fulls, raws)]

    @property
    def tok(self):
        if not self.fulls:
            return '-'
        return '+'.join(','.join(map(str, f.shape)) + ':' + ','.join(map(str, r.shape)) for f, r in zip(self.fulls, self.raws))

    def close(self):
        for c in [self.reader] + self.closers:
            try:
                c.close()
            except Exception:
                pass


def _rec_segment(i, im, mode='r', store=None):
    RecSeg = rec_classes()['RecSeg']
    raw, full = image_arrays(i, im)
    arr = raw.copy() if store is None else store
    seg = RecSeg(arr, formatted_dtype=full.dtype, formatted_shape=tuple(full.shape),
                 reverse_axes=tuple(im['rev']) if im.get('rev') else None,
                 transpose_axes=tuple(im['trans']) if im.get('trans') is not None else None, mode=mode)
    seg._tag = i
    return seg, raw, full


def build_subject(desc, tmpdir=None):
    """desc: {'kind': 'base'|'agg'|'aggsicd'|'sidd'|'nitf', 'images': [...], 'children': [counts] (agg), ...}"""
    from sarpy.io.general.base import BaseReader, FlatReader, AggregateReader
    kind = desc['kind']
    images = desc['images']
    if kind == 'base':
        built = [_rec_segment(i, im) for i, im in enumerate(images)]
        rdr = BaseReader([b[0] for b in built], reader_type='OTHER')
        return Subject(desc, rdr, [b[2] for b in built], [b[1] for b in built], recorded=True)
    if kind == 'agg':
        children, fulls, raws, i = [], [], [], 0
        for c, flat in zip(desc['children'], desc['flat']):
            if flat and c == 1:
                raw, full = image_arrays(i, images[i])
                # formatted_shape is given explicitly: the default NumpyArraySegment derives for transpose_axes is a list, which
                # its own base class refuses (see NOTES_DISPATCH, observation O1)
                children.append(FlatReader(raw.copy(), formatted_shape=tuple(full.shape),
                                           reverse_axes=tuple(images[i]['rev']) if images[i].get('rev') else None,
                                           transpose_axes=tuple(images[i]['trans']) if images[i].get('trans') is not None else None))
                fulls.append(full)
                raws.append(raw)
            else:
                built = [_rec_segment(i + j, images[i + j]) for j in range(c)]
                children.append(BaseReader([b[0] for b in built], reader_type='OTHER'))
                fulls += [b[2] for b in built]
                raws += [b[1] for b in built]
            i += c
        rdr = AggregateReader(children, close_readers=False)
        return Subject(desc, rdr, fulls, raws, closers=children, recorded=True, children=children)
    if kind == 'aggsicd':
        import sargen
        from sarpy.io.complex.base import FlatSICDReader
        from sarpy.io.complex.aggregate import AggregateComplexReader
        children, fulls, raws = [], [], []
        for i, im in enumerate(images):
            shape = tuple(im['raw'])
            raw = (numpy.arange(int(numpy.prod(shape))).reshape(shape) + 1j * (i + 1)).astype('complex64')
            full = segtree.orient(raw, im.get('rev'), im.get('trans'))
            meta = sargen.small_sicd(full.shape[0], full.shape[1])
            children.append(FlatSICDReader(meta, raw.copy(), formatted_shape=tuple(full.shape), reverse_axes=tuple(im['rev']) if im.get('rev') else None,
                                           transpose_axes=tuple(im['trans']) if im.get('trans') is not None else None))
            fulls.append(full)
            raws.append(raw)
        if desc.get('nest'):
            # an aggregate of (an aggregate of the first two, the rest)
            inner = AggregateComplexReader(children[:2])
            rdr = AggregateComplexReader([inner] + children[2:])
            return Subject(desc, rdr, fulls, raws, closers=[inner] + children, children=[inner] + children[2:])
        rdr = AggregateComplexReader(children)
        return Subject(desc, rdr, fulls, raws, closers=children, children=children)
    if kind == 'sidd':
        import sargen
        from sarpy.io.product.converter import open_product
        metas, datas = [], []
        for i, im in enumerate(images):
            pt = im['pixel_type']
            rows, cols = im['raw'][0], im['raw'][1]
            metas.append(sargen.small_sidd(rows, cols, pt, version=desc.get('version')))
            datas.append(sidd_pixels(i, rows, cols, pt))
        sargen.write_sidd(metas, datas, 'path', tmpdir, name=desc.get('name', 'disp_sidd.nitf'))
        rdr = open_product(os.path.join(tmpdir, desc.get('name', 'disp_sidd.nitf')))
        return Subject(desc, rdr, datas, datas)
    if kind == 'nitf':
        from sarpy.io.general.nitf import NITFReader
        path = write_general_nitf(desc, tmpdir)
        kw = {}
        if desc.get('rev'):
            kw['reverse_axes'] = tuple(desc['rev'])
        if desc.get('trans') is not None:
            kw['transpose_axes'] = tuple(desc['trans'])
        rdr = NITFReader(path, **kw)
        raws = [nitf_pixels(i, im) for i, im in enumerate(images)]
        fulls = [segtree.orient(r, desc.get('rev'), desc.get('trans')) for r in raws]
        return Subject(desc, rdr, fulls, raws)
    raise ValueError(kind)


def sidd_pixels(i, rows, cols, pt):
    n = rows * cols
    if pt == 'MONO16I':
        return (numpy.arange(n).reshape(rows, cols) + 20000 * i + 1).astype('uint16')
    if pt == 'MONO8I':
        return ((numpy.arange(n).reshape(rows, cols) * 3 + 41 * i + 1) % 251).astype('uint8')
    return ((numpy.arange(n * 3).reshape(rows, cols, 3) * 5 + 67 * i + 2) % 251).astype('uint8')


def nitf_pixels(i, im):
    shape = tuple(im['raw'])
    n = int(numpy.prod(shape))
    if im['nbpp'] == 16:
        return (numpy.arange(n).reshape(shape) + 15000 * i + 1).astype('uint16')
    return ((numpy.arange(n).reshape(shape) * 3 + 53 * i + 1) % 251).astype('uint8')


def nitf_details(desc):
    from sarpy.io.general.nitf import NITFWritingDetails, ImageSubheaderManager
    from sarpy.io.general.nitf_elements.nitf_head import NITFHeader
    from sarpy.io.general.nitf_elements.image import ImageSegmentHeader, ImageBands, ImageBand
    hs = []
    for i, im in enumerate(desc['images']):
        rows, cols = im['raw'][0], im['raw'][1]
        bands = im['raw'][2] if len(im['raw']) > 2 else 1
        hs.append(ImageSegmentHeader(
            IID1='IM%d' % i, NROWS=rows, NCOLS=cols, PVTYPE='INT', IREP='MONO' if bands == 1 else 'MULTI', ICAT='VIS',
            ABPP=im['nbpp'], NBPP=im['nbpp'], IC='NC', IMODE='B' if bands == 1 else 'P', NBPR=1, NBPC=1, NPPBH=cols, NPPBV=rows,
            IDLVL=i + 1, IALVL=0, ILOC='0000000000', ICORDS='',
            Bands=ImageBands(values=[ImageBand(IREPBAND='M' if bands == 1 else '') for _ in range(bands)])))
    return NITFWritingDetails(NITFHeader(CLEVEL=3, OSTAID='verif', FDT='20200101000000', FTITLE='dispatch', FL=0),
                              image_managers=tuple(ImageSubheaderManager(h) for h in hs),
                              image_segment_collections=tuple((i, ) for i in range(len(hs))))


def write_general_nitf(desc, tmpdir):
    from sarpy.io.general.nitf import NITFWriter
    path = os.path.join(tmpdir, desc.get('name', 'disp_general.ntf'))
    if os.path.exists(path):
        os.remove(path)
    with NITFWriter(path, nitf_details(desc), check_existence=False) as w:
        for i, im in enumerate(desc['images']):
            w.write(nitf_pixels(i, im), index=i)
    return path


# ------------------------------------------------------------------ requests

STR_RAW = ['raw', 'raw', 'RAW', ' Raw ']
STR_NOSQ = ['nosqueeze', 'nosqueeze', 'NoSqueeze', ' nosqueeze']
STR_UNK = ['squeeze', 'formatted', '', 'r a w']


def supported(n, a, b, c):
    if c == 0:
        return False
    for v in (a, b):
        if v is not None and not (-n <= v <= n):
            return False
    return len(range(*slice(a, b, c).indices(n))) > 0


def rand_range(rng, n):
    """one positional range for an axis of length n"""
    r = rng.random()
    vals = [None] + list(range(-n - 1, n + 2))
    if r < 0.42:
        for _ in range(12):
            e = (rng.choice(vals), rng.choice(vals), rng.choice([None, 1, 1, 2, 3, -1, -1, -2]))
            if supported(n, *e):
                break
        return ['s'] + list(e)
    if r < 0.5:
        return ['s', rng.choice(vals), rng.choice(vals), rng.choice([None, 1, -1, 2, 0])]
    if r < 0.6:
        return None
    if r < 0.74:
        return rng.choice([rng.randint(1, n), rng.randint(1, n), -rng.randint(0, n), n + 1, 0])
    if r < 0.9:
        k = rng.choice([1, 2, 2, 3, 3, 3])
        for _ in range(12):
            e = (rng.choice(vals), rng.choice(vals), rng.choice([None, 1, 2, -1]))
            e = [e[1]] if k == 1 else list(e[:k])
            full = (None, e[0], None) if k == 1 else tuple(e + [None] * (3 - k))
            if supported(n, *full):
                break
        return ['t'] + e
    if r < 0.93:
        return rng.choice([['t'], ['t', 0, n, 1, 1], ['t', 'O'], 'O'])
    return ['s', None, None, None]


def rand_ranges(rng, shape):
    nd = len(shape)
    k = rng.choice(list(range(0, nd + 1)) * 3 + [nd, nd, nd + 1])
    items = [rand_range(rng, shape[min(j, nd - 1)]) for j in range(k)]
    r = rng.random()
    if r < 0.22:
        if k == nd and k > 0 and rng.random() < 0.6:
            items.pop(rng.randrange(k))
        items.insert(rng.randint(0, len(items)), 'E')
        if rng.random() < 0.08:
            items.insert(rng.randint(0, len(items)), 'E')
    return items


def rand_index(rng, count, target):
    r = rng.random()
    if r < 0.7:
        return target
    if r < 0.82:
        return target - count
    return rng.choice([count, -count, count + 1, -count - 1, -1, 0])


def rand_request(rng, subj):
    count = len(subj.fulls)
    target = rng.randrange(count) if count else 0
    raw = rng.random() < 0.4
    squeeze = rng.random() < 0.6
    shape = (subj.raws if raw else subj.fulls)[target].shape if count else (2, 2)
    ranges = rand_ranges(rng, shape)
    r = rng.random()
    if r < 0.5:
        items = list(ranges)
        if target != 0 or rng.random() < 0.5:
            items.append(rand_index(rng, count, target))
        mods = []
        if raw:
            mods.append(['m', rng.choice(STR_RAW)])
        if not squeeze:
            mods.append(['m', rng.choice(STR_NOSQ)])
        if rng.random() < 0.12:
            mods.append(['m', rng.choice(STR_UNK)])
        if rng.random() < 0.05 and mods:
            mods.append(list(mods[0]))
        for m in mods:
            items.insert(rng.randint(0, len(items)), m)
        if len(items) == 1 and rng.random() < 0.6 and not (isinstance(items[0], list) and items[0][0] == 't'):
            return {'ep': 'getS', 'v': items[0]}
        return {'ep': 'getT', 'items': items}
    index = rand_index(rng, count, target)
    if r < 0.65:
        return {'ep': 'call', 'ranges': ranges, 'index': index, 'raw': raw, 'squeeze': squeeze}
    ep = rng.choice(['readraw'] if raw else ['read', 'readchip'])
    return {'ep': ep, 'ranges': ranges, 'index': index, 'squeeze': squeeze}


def interleavings(base, mods):
    """every way of inserting the modifiers (in every order) among the base items, base order kept"""
    out = []
    n = len(base) + len(mods)
    for pos in itertools.permutations(range(n), len(mods)):
        items = [None] * n
        taken = set(pos)
        for p, m in zip(pos, mods):
            items[p] = m
        it = iter(base)
        for k in range(n):
            if k not in taken:
                items[k] = next(it)
        out.append(items)
    return out


def systematic_requests(subj):
    """all orderings of index and modifiers around a supported 2-item subscript, for every image; plus the single-object forms"""
    out = []
    count = len(subj.fulls)
    for k in range(count):
        for raw in (False, True):
            shape = (subj.raws if raw else subj.fulls)[k].shape
            base = [['s', 0, max(1, n - 1), 1] if j % 2 == 0 else ['s', n - 1, None, -1] for j, n in enumerate(shape[:2])]
            for sq in (True, False):
                mods = ([['m', 'raw']] if raw else []) + ([] if sq else [['m', 'nosqueeze']])
                for idx in ([k] if k else [k, None]):
                    b = base + ([idx] if idx is not None else [])
                    for items in interleavings(b, mods):
                        out.append({'ep': 'getT', 'items': items})
    for v in [None, 'E', 0, 1, count - 1, count, -1, ['m', 'raw'], ['m', 'nosqueeze'], ['m', 'other'], ['s', None, None, None], 'O']:
        out.append({'ep': 'getS', 'v': v})
    out.append({'ep': 'getT', 'items': []})
    out.append({'ep': 'getT', 'items': [['m', 'raw']]})
    out.append({'ep': 'getT', 'items': [['m', 'raw'], count - 1]})
    out.append({'ep': 'getT', 'items': ['E', count - 1, ['m', 'nosqueeze']]})
    for idx in range(-count - 1, count + 2):
        out.append({'ep': 'call', 'ranges': [], 'index': idx, 'raw': False, 'squeeze': True})
        out.append({'ep': 'readraw', 'ranges': [], 'index': idx, 'squeeze': False})
    return out


def request_line(subj_tok, req):
    ep = req['ep']
    if ep == 'getS':
        return f'disp get {subj_tok} S {tok(req["v"])}'
    if ep == 'getT':
        return f'disp get {subj_tok} T ' + ' '.join(tok(v) for v in req['items'])
    rs = ' '.join(tok(v) for v in req['ranges'])
    if ep == 'call':
        return f'disp call {subj_tok} {req["index"]} {int(req["raw"])} {int(req["squeeze"])} {rs}'.rstrip()
    return f'disp {ep} {subj_tok} {req["index"]} {int(req["squeeze"])} {rs}'.rstrip()


def run_request(reader, req):
    ep = req['ep']
    _REC['log'] = []
    try:
        if ep == 'getS':
            out = reader[to_py(req['v'])]
        elif ep == 'getT':
            out = reader[tuple(to_py(v) for v in req['items'])]
        else:
            rs = [to_py(v) for v in req['ranges']]
            if ep == 'call':
                out = reader(*rs, index=req['index'], raw=req['raw'], squeeze=req['squeeze'])
            elif ep == 'read':
                out = reader.read(*rs, index=req['index'], squeeze=req['squeeze'])
            elif ep == 'readraw':
                out = reader.read_raw(*rs, index=req['index'], squeeze=req['squeeze'])
            elif ep == 'readchip':
                out = reader.read_chip(*rs, index=req['index'], squeeze=req['squeeze'])
            else:
                raise Infra('unknown entry point ' + ep)
        return ('ok', numpy.asarray(out)), _REC['log']
    except Infra:
        raise
    except Exception as e:
        return ('err', type(e).__name__, str(e)[:120]), _REC['log']
    finally:
        _REC['log'] = None


def norm_slices(txt):
    out = []
    for t in txt.split(';'):
        a, b, c = t.split(',')
        out.append(slice(None if a == 'N' else int(a), None if b == 'N' else int(b), None if c == 'N' else int(c)))
    return tuple(out)


def compare_model(subj, req, ans, impl, log):
    """model answer vs the implementation; returns None or a disagreement string"""
    if ans == 'bad-op':
        raise Infra('model driver cannot parse: ' + request_line(subj.tok, req))
    if ans.startswith('err'):
        return None if impl[0] == 'err' else f'model refuses at dispatch ({ans}), implementation returns shape {impl[1].shape}'
    parts = ans.split(' | ')
    _, k, raw, sq, sub = parts[0].split(' ')
    k, raw, sq = int(k), raw == '1', sq == '1'
    if subj.recorded and log:
        first = log[0]
        want = (first[0], 'read_raw' if raw else 'read', sub, sq)
        if first[0] is not None and tuple(first) != want:
            return f'model hands image {k} {"read_raw" if raw else "read"}({sub}, squeeze={sq}) to the segment, implementation handed {first}'
    if parts[1] in ('refused', 'no-such-image'):
        return None if impl[0] == 'err' else f'model: segment refuses the subscript {sub}; implementation returns shape {impl[1].shape}'
    if impl[0] == 'err':
        return f'model serves image {k} {parts[1]}; implementation raised {impl[1]}: {impl[2]}'
    shape = tuple(int(x) for x in parts[2].strip('()').split(',') if x != '')
    got = impl[1]
    if tuple(got.shape) != shape:
        return f'model result shape {shape}, implementation {tuple(got.shape)}'
    basis = (subj.raws if raw else subj.fulls)[k]
    want = basis[norm_slices(parts[1])].reshape(shape)
    if not numpy.array_equal(got, want):
        return f'model reads image {k} ({"raw" if raw else "formatted"}) at {parts[1]}; implementation returned other pixels (first {got.ravel()[:4].tolist()} vs {want.ravel()[:4].tolist()})'
    return None


# ------------------------------------------------------------------ the oracle: stated on the implementation, numpy only

def np_items(ranges):
    """ranges of the reader API -> numpy index items; None when a range has a type the API does not define"""
    out = []
    for v in ranges:
        if v is None:
            out.append(slice(None))
        elif isinstance(v, int):
            out.append(slice(v))                       # documented: an int range is the stop value
        elif v == 'E':
            out.append(Ellipsis)
        elif v == 'O':
            return None
        elif v[0] == 's':
            out.append(slice(*v[1:]))
        elif v[0] == 't':
            el = v[1:]
            if not 1 <= len(el) <= 3 or any(not (x is None or isinstance(x, int)) for x in el):
                return None
            out.append(slice(*el))
        else:
            return None
    return out


def oracle_expect(subj, req):
    """('must', array) - the request designates an image and a supported selection: exactly these pixels must come back;
    ('refuse', why) - no data may be returned; None - outside what the documented conventions decide"""
    count = len(subj.fulls)
    ep = req['ep']
    if ep in ('getS', 'getT'):
        items = [req['v']] if ep == 'getS' else list(req['items'])
        strs = [v[1].strip().lower() for v in items if isinstance(v, list) and v[0] == 'm']
        if any(s not in ('raw', 'nosqueeze') for s in strs):
            return None
        raw, squeeze = 'raw' in strs, 'nosqueeze' not in strs
        rest = [v for v in items if not (isinstance(v, list) and v[0] == 'm')]
        if not rest:
            return None
        last = rest[-1]
        if isinstance(last, int):
            if count > 1 and 0 <= last < count:
                k, ranges = last, rest[:-1]
            else:
                return None            # an integer that is no image number: range or index is not decided by any document
        else:
            k, ranges = 0, rest
        if ep == 'getS' and rest == [None]:
            ranges = [None]
    else:
        raw = req['raw'] if ep == 'call' else (ep == 'readraw')
        squeeze = req['squeeze']
        ranges = list(req['ranges'])
        idx = req['index']
        if count == 1:
            k = 0                      # documented: index is ignored for a single image
        elif 0 <= idx < count:
            k = idx
        elif idx >= count or idx < -count:
            return ('refuse', f'index {idx} names no image of {count}')
        else:
            return None
    if count == 0:
        return None
    basis = (subj.raws if raw else subj.fulls)[k]
    npi = np_items(ranges)
    if npi is None:
        return None
    if sum(1 for x in npi if x is Ellipsis) > 1:
        return ('refuse', 'two Ellipses')
    plain = [x for x in npi if x is not Ellipsis]
    if len(plain) > basis.ndim:
        return ('refuse', f'{len(plain)} ranges for {basis.ndim} axes of image {k}')
    # which axis each item addresses
    if any(x is Ellipsis for x in npi):
        e = next(i for i, x in enumerate(npi) if x is Ellipsis)
        axes = list(range(e)) + list(range(basis.ndim - (len(npi) - e - 1), basis.ndim))
    else:
        axes = list(range(len(plain)))
    for s, ax in zip(plain, axes):
        if s.step == 0:
            return None
        if not supported(basis.shape[ax], s.start, s.stop, s.step):
            return ('refuse', f'range {s} is empty or out of bounds on axis {ax} (length {basis.shape[ax]}) of image {k}')
    want = basis[tuple(npi)]
    return ('must', numpy.squeeze(want) if squeeze else want, k)


def oracle_check(subj, req, impl):
    exp = oracle_expect(subj, req)
    if exp is None:
        return None, 'undecided'
    if exp[0] == 'refuse':
        if impl[0] == 'ok':
            return f'{exp[1]}, but data of shape {tuple(impl[1].shape)} was returned', 'refuse'
        return None, 'refuse'
    want = exp[1]
    if impl[0] == 'err':
        return f'supported request for image {exp[2]} refused: {impl[1]}: {impl[2]}', 'must'
    got = impl[1]
    if tuple(got.shape) != tuple(want.shape) or not numpy.array_equal(got, want):
        ids = sorted({int(v) // BASE for v in numpy.real(got).ravel()[:50].tolist()}) if got.dtype.kind in 'iu' and subj.desc['kind'] in ('base', 'agg') else None
        return (f'request designates image {exp[2]}: numpy selects shape {tuple(want.shape)} first {want.ravel()[:4].tolist()}, '
                f'reader returned shape {tuple(got.shape)} first {got.ravel()[:4].tolist()}' + (f' (pixels of image(s) {ids})' if ids else '')), 'must'
    return None, 'must'


# ------------------------------------------------------------------ subject families

def rand_subject_desc(rng, kind):
    if kind == 'base':
        return {'kind': 'base', 'images': rand_images(rng, rng.choice([1, 2, 2, 3, 3, 4]))}
    if kind == 'agg':
        counts = [rng.choice([1, 1, 2, 3]) for _ in range(rng.choice([1, 2, 2, 3]))]
        return {'kind': 'agg', 'children': counts, 'flat': [rng.random() < 0.5 for _ in counts], 'images': rand_images(rng, sum(counts))}
    if kind == 'aggsicd':
        n = rng.choice([2, 2, 3])
        ims = rand_images(rng, n, ndims=(2, ))
        for im in ims:
            im['raw'] = [max(3, x + 2) for x in im['raw']]
        return {'kind': 'aggsicd', 'images': ims, 'nest': n == 3 and rng.random() < 0.5}
    if kind == 'sidd':
        n = rng.choice([2, 2, 3])
        ims = []
        for _ in range(n):
            pt = rng.choice(['MONO16I', 'MONO16I', 'MONO8I', 'RGB24I'])
            rows, cols = rng.randint(3, 9), rng.randint(3, 9)
            ims.append({'raw': [rows, cols] + ([3] if pt == 'RGB24I' else []), 'pixel_type': pt})
        return {'kind': 'sidd', 'images': ims, 'version': rng.choice([None, 3])}
    if kind == 'nitf':
        n = rng.choice([2, 3])
        all2d = rng.random() < 0.6
        ims = []
        for _ in range(n):
            rows, cols = rng.randint(2, 7), rng.randint(2, 7)
            bands = 1 if all2d or rng.random() < 0.5 else 2
            ims.append({'raw': [rows, cols] + ([bands] if bands > 1 else []), 'nbpp': rng.choice([8, 16])})
        d = {'kind': 'nitf', 'images': ims}
        if all2d and rng.random() < 0.7:
            d['rev'] = rng.choice([None, [0], [1], [0, 1]])
            d['trans'] = rng.choice([None, [1, 0]])
        return d
    raise ValueError(kind)


def check_sizes(subj, drv_ans, fails, dis):
    """image_count / data_size / raw_data_size / get_*_as_tuple vs the model line and vs the shapes of the full reads"""
    r = subj.reader

    def show(x):
        if isinstance(x, tuple) and x and isinstance(x[0], tuple):
            return '(' + ','.join(show(y) for y in x) + ')'
        return '(' + ','.join(str(int(y)) for y in x) + ')'
    got = f'{r.image_count} {show(tuple(r.data_size))} {show(tuple(r.raw_data_size))} {show(tuple(r.get_data_size_as_tuple()))} {show(tuple(r.get_raw_data_size_as_tuple()))}'
    if got != drv_ans:
        dis.append({'kind': 'dispatch', 'subject': subj.desc, 'tie': 'model (size accessors)', 'model': drv_ans, 'python': got})
    dt, rt = r.get_data_size_as_tuple(), r.get_raw_data_size_as_tuple()
    if r.image_count != len(subj.fulls) or len(dt) != len(subj.fulls) or len(rt) != len(subj.fulls):
        fails.append({'kind': 'dispatch', 'subject': subj.desc, 'req': None,
                      'msg': f'image_count {r.image_count} / size tuples of length {len(dt)}, {len(rt)} for a reader of {len(subj.fulls)} images'})
        return
    for i, (f, w) in enumerate(zip(subj.fulls, subj.raws)):
        if tuple(dt[i]) != f.shape or tuple(rt[i]) != w.shape:
            fails.append({'kind': 'dispatch', 'subject': subj.desc, 'req': None,
                          'msg': f'get_data_size_as_tuple()[{i}] = {tuple(dt[i])}, get_raw_data_size_as_tuple()[{i}] = {tuple(rt[i])}; '
                                 f'full reads of image {i} have shapes {f.shape} (formatted) and {w.shape} (raw)'})


def check_aggregate(subj, drv, jobs):
    counts = [c.image_count for c in subj.children]
    jobs.append(('aggmap', subj, counts, drv.ask('disp aggmap ' + ','.join(map(str, counts)))))


def finish_aggregate(subj, counts, ans, fails, dis):
    r = subj.reader
    got = ','.join(f'{i}:{j}' for i, j in r.index_mapping)
    if got != ans:
        dis.append({'kind': 'dispatch', 'subject': subj.desc, 'tie': 'model (AggregateReader.index_mapping)', 'model': ans, 'python': got})
    segs = r.get_data_segment_as_tuple()
    g = 0
    for i, c in enumerate(subj.children):
        for j, s in enumerate(c.get_data_segment_as_tuple()):
            if g >= len(segs) or segs[g] is not s:
                fails.append({'kind': 'dispatch', 'subject': subj.desc, 'req': None,
                              'msg': f'aggregate image {g} is not image {j} of child reader {i}'})
            g += 1
    if g != len(segs):
        fails.append({'kind': 'dispatch', 'subject': subj.desc, 'req': None, 'msg': f'aggregate has {len(segs)} images, children have {g}'})


# ------------------------------------------------------------------ consumers: SubsetSICDReader, FullResolutionFetcher, ortho iterator

def consumer_checks(rng, subj, drv, jobs, fails, stats):
    """two / three image SICD-type reader: every consumer built for image `index` must see image `index`"""
    from sarpy.io.complex.base import SubsetSICDReader
    from sarpy.processing.ortho_rectify.base import FullResolutionFetcher, OrthorectificationIterator
    from sarpy.processing.ortho_rectify import NearestNeighborMethod, PGProjection
    rdr = subj.reader
    count = len(subj.fulls)
    for k in range(count):
        full = subj.fulls[k]
        rows, cols = full.shape
        # SubsetSICDReader(reader, rows, cols, index=k)
        r0, r1 = sorted(rng.sample(range(rows + 1), 2))
        c0, c1 = sorted(rng.sample(range(cols + 1), 2))
        stats['consumer_cases'] = stats.get('consumer_cases', 0) + 1
        case = {'kind': 'dispatch', 'subject': subj.desc, 'req': {'ep': 'subset', 'index': k, 'bounds': [r0, r1, c0, c1]}}
        try:
            sub = SubsetSICDReader(rdr, (r0, r1), (c0, c1), index=k)
            got = sub.read(squeeze=False)
            want = full[r0:r1, c0:c1]
            if got.shape != want.shape or not numpy.array_equal(got, want):
                fails.append(dict(case, msg=f'SubsetSICDReader(index={k}) rows {r0}:{r1} cols {c0}:{c1} does not hold the pixels of image {k}'))
            if (sub.sicd_meta.ImageData.NumRows, sub.sicd_meta.ImageData.NumCols) != want.shape:
                fails.append(dict(case, msg=f'SubsetSICDReader(index={k}) metadata size differs from the subset of image {k}'))
        except Exception as e:
            fails.append(dict(case, msg=f'SubsetSICDReader(index={k}) rows {r0}:{r1} cols {c0}:{c1} raised {type(e).__name__}: {e}'))
        jobs.append(('subset', subj, k, drv.ask(f'disp subset {count} {k}')))
        # FullResolutionFetcher(reader, index=k)[subscript], _full_row_resolution, _full_column_resolution
        for dim in (0, 1):
            f = FullResolutionFetcher(rdr, dimension=dim, index=k)
            if tuple(f.data_size) != full.shape:
                fails.append({'kind': 'dispatch', 'subject': subj.desc, 'req': {'ep': 'fetcher', 'index': k},
                              'msg': f'FullResolutionFetcher(index={k}).data_size = {tuple(f.data_size)}, image {k} has shape {full.shape}'})
            for _ in range(3):
                ent = []
                for n in full.shape:
                    t = segtree.rand_norm_slice(rng, n, steps=(1, 1, 2, -1, -2))
                    ent.append(['s'] + list(t))
                if rng.random() < 0.3:
                    ent = [ent[0], 'E'] if rng.random() < 0.5 else ['E', ent[1]]
                req = {'ep': 'fetcher', 'index': k, 'dimension': dim, 'entries': ent}
                stats['consumer_cases'] = stats.get('consumer_cases', 0) + 1
                npi = tuple(Ellipsis if e == 'E' else slice(*e[1:]) for e in ent)
                want = full[npi]
                _REC['log'] = None
                try:
                    got = f[tuple(to_py(e) for e in ent)]
                    impl = ('ok', numpy.asarray(got))
                    # whether the helper squeezes length-1 axes is its own choice (the model follows the code; the correspondence compares the
                    # exact shape): the oracle judges which pixels of which image come back
                    if got.shape not in (want.shape, numpy.squeeze(want).shape) or not numpy.array_equal(numpy.squeeze(got), numpy.squeeze(want)):
                        fails.append({'kind': 'dispatch', 'subject': subj.desc, 'req': req,
                                      'msg': f'FullResolutionFetcher(index={k})[{sub_tok(tuple(to_py(e) for e in ent))}] does not return the pixels of image {k} '
                                             f'(imaginary parts = image id + 1: {sorted(set(numpy.imag(numpy.asarray(got)).ravel().astype(int).tolist()))[:3]})'})
                except Exception as e:
                    impl = ('err', type(e).__name__, str(e)[:100])
                    fails.append({'kind': 'dispatch', 'subject': subj.desc, 'req': req,
                                  'msg': f'FullResolutionFetcher(index={k}) refused a supported subscript: {type(e).__name__}: {e}'})
                jobs.append(('fetch', subj, req, impl, drv.ask(f'disp fetch {subj.tok} {k} ' + ' '.join(tok(e) for e in ent))))
            a = segtree.rand_norm_slice(rng, rows, steps=(1, -1))
            b = segtree.rand_norm_slice(rng, cols, steps=(1, -1))
            req = {'ep': 'fullres', 'index': k, 'dimension': dim, 'rows': list(a), 'cols': list(b)}
            stats['consumer_cases'] = stats.get('consumer_cases', 0) + 1
            want = full[slice(*a), slice(*b)]
            try:
                got = (f._full_row_resolution if dim == 0 else f._full_column_resolution)(slice(*a), slice(*b))
                impl = ('ok', numpy.asarray(numpy.squeeze(got)))
                # the helper re-inflates a squeezed result to 2-d by its own rule; which pixels of which image is what is judged here
                if numpy.squeeze(got).shape != numpy.squeeze(want).shape or not numpy.array_equal(numpy.squeeze(got), numpy.squeeze(want)):
                    fails.append({'kind': 'dispatch', 'subject': subj.desc, 'req': req,
                                  'msg': f'FullResolutionFetcher(index={k}) full-resolution fetch rows {a} cols {b} does not return the pixels of image {k}'})
            except Exception as e:
                impl = ('err', type(e).__name__, str(e)[:100])
                fails.append({'kind': 'dispatch', 'subject': subj.desc, 'req': req,
                              'msg': f'FullResolutionFetcher(index={k}) full-resolution fetch refused: {type(e).__name__}: {e}'})
            jobs.append(('fullres', subj, req, impl, drv.ask(f'disp fullres {subj.tok} {k} s{o(a[0])}/{o(a[1])}/{o(a[2])} s{o(b[0])}/{o(b[1])}/{o(b[2])}')))
    # the ortho iterator over the aggregate at index k == the ortho iterator over image k alone
    flat = [c for c in subj.closers if type(c).__name__ == 'FlatSICDReader']
    for k in range(count):
        stats['consumer_cases'] = stats.get('consumer_cases', 0) + 1
        case = {'kind': 'dispatch', 'subject': subj.desc, 'req': {'ep': 'ortho-iterator', 'index': k}}
        try:
            alone = flat[k]
            out = []
            for rd, idx in ((rdr, k), (alone, 0)):
                oh = NearestNeighborMethod(rd, index=idx, proj_helper=PGProjection(rd.get_sicds_as_tuple()[idx]))
                it = OrthorectificationIterator(oh, calculator=FullResolutionFetcher(rd, dimension=k % 2, index=idx, block_size=None))
                out.append([(numpy.array(d), tuple(int(x) for x in s)) for d, s in it])
            same = len(out[0]) == len(out[1]) and all(a[1] == b[1] and a[0].shape == b[0].shape and numpy.array_equal(a[0], b[0], equal_nan=True)
                                                       for a, b in zip(*out))
            if not same:
                fails.append(dict(case, msg=f'the ortho iterator over the {count}-image reader at index {k} does not produce the blocks of image {k} alone'))
            elif not any(numpy.any(numpy.abs(d) > 0) for d, _ in out[0]):
                stats['ortho_blank'] = stats.get('ortho_blank', 0) + 1
        except Exception as e:
            fails.append(dict(case, msg=f'ortho iterator at index {k} raised {type(e).__name__}: {e}'))


def finish_consumers(jobs, ans, dis):
    for j in jobs:
        if j[0] == 'subset':
            _, subj, k, i = j
            if ans[i] != f'ok {k}':
                dis.append({'kind': 'dispatch', 'subject': subj.desc, 'tie': 'model (SubsetSICDReader parent)', 'model': ans[i], 'python': k})
        elif j[0] in ('fetch', 'fullres'):
            _, subj, req, impl, i = j
            m = compare_model(subj, {'ep': j[0]}, ans[i], impl, None) if ans[i] != 'bad-op' else 'model driver cannot parse the request'
            if m:
                dis.append({'kind': 'dispatch', 'subject': subj.desc, 'req': req, 'tie': 'model (FullResolutionFetcher)', 'msg': m})


# ------------------------------------------------------------------ reads: main entry

def run_reads(chk, tier, only=None):
    """returns {'fails': [...], 'disagreements': [...], 'evaluations': n, 'stats': {...}} ; fails carry kind 'dispatch'"""
    rng = chk.rng
    logging.disable(logging.CRITICAL)
    fails, dis, stats = [], [], {'requests': 0, 'oracle': {'must': 0, 'refuse': 0, 'undecided': 0}, 'subjects': {}, 'classes': set()}
    tmpdir = tempfile.mkdtemp(prefix='disp_', dir=os.environ.get('VERIF_SCRATCH', '/var/tmp'))
    subjects = []
    try:
        plan = {'quick': {'base': 14, 'agg': 8, 'aggsicd': 3, 'sidd': 2, 'nitf': 3},
                'thorough': {'base': 150, 'agg': 80, 'aggsicd': 12, 'sidd': 10, 'nitf': 14}}[tier]
        per = 45 if tier == 'quick' else 90
        corpus = os.path.join(VERIF, 'corpus', 'C01')
        descs = []
        creqs = {}
        if os.path.isdir(corpus):
            for fn in sorted(os.listdir(corpus)):
                case = json.load(open(os.path.join(corpus, fn)))
                if case.get('kind') == 'dispatch' and case.get('req') and case['req'].get('ep') in ('getS', 'getT', 'call', 'read', 'readraw', 'readchip'):
                    descs.append(case['subject'])
                    creqs[len(descs) - 1] = case['req']
        ncorpus = len(descs)
        for kind, n in plan.items():
            if only and kind not in only:
                continue
            descs += [rand_subject_desc(rng, kind) for _ in range(n)]
        drv = Driver()
        work = []
        jobs = []
        for di, desc in enumerate(descs):
            desc = dict(desc, name=f'disp_{di}.nitf')
            try:
                subj = build_subject(desc, tmpdir)
            except Infra:
                raise
            except Exception as e:
                # every generated configuration is a supported one: a reader that cannot be built over it is a failure, not a skip
                fails.append({'kind': 'dispatch', 'subject': desc, 'req': None,
                              'msg': f'building a {desc["kind"]} reader over {len(desc["images"])} images raised {type(e).__name__}: {str(e)[:300]}'})
                continue
            subjects.append(subj)
            stats['subjects'][desc['kind']] = stats['subjects'].get(desc['kind'], 0) + 1
            if di < ncorpus:
                reqs = [creqs[di]]
            else:
                reqs = [rand_request(rng, subj) for _ in range(per)]
                if di % 3 == 0 or desc['kind'] in ('sidd', 'nitf', 'aggsicd'):
                    reqs += systematic_requests(subj)
            szq = drv.ask(f'disp sizes {subj.tok}')
            work.append((subj, reqs, [drv.ask(request_line(subj.tok, r)) for r in reqs], szq))
            if subj.children is not None and desc['kind'] == 'agg':
                check_aggregate(subj, drv, jobs)
            if desc['kind'] == 'aggsicd':
                check_aggregate(subj, drv, jobs)
                consumer_checks(rng, subj, drv, jobs, fails, stats)
        ans = drv.run()
        gen_ans, gen_broken = gen_answers(drv.lines)
        stats['gen_three_way'] = 0
        for subj, reqs, idx, szq in work:
            check_sizes(subj, ans[szq], fails, dis)
            for req, i in zip(reqs, idx):
                stats['requests'] += 1
                impl, log = run_request(subj.reader, req)
                if gen_ans is not None:
                    g = compare_gen(gen_ans[i], ans[i], log if subj.recorded else None, impl)
                    stats['gen_three_way'] += 1
                    if g:
                        dis.append({'kind': 'dispatch', 'subject': subj.desc, 'req': req, 'tie': g[0], 'msg': g[1]})
                m = compare_model(subj, req, ans[i], impl, log)
                if m:
                    dis.append({'kind': 'dispatch', 'subject': subj.desc, 'req': req, 'tie': 'model (Spec.Dispatch vs BaseReader)', 'msg': m})
                om, cls = oracle_check(subj, req, impl)
                stats['oracle'][cls] += 1
                stats['classes'].add((subj.desc['kind'], len(subj.fulls) > 1, req['ep'], cls, impl[0],
                                      ans[i].split(' ')[0] + ('R' if ans[i].endswith('refused') else '')))
                if om:
                    fails.append({'kind': 'dispatch', 'subject': subj.desc, 'req': req, 'msg': describe(req) + ': ' + om})
        for j in jobs:
            if j[0] == 'aggmap':
                finish_aggregate(j[1], j[2], ans[j[3]], fails, dis)
        finish_consumers(jobs, ans, dis)
    finally:
        for s in subjects:
            s.close()
        shutil.rmtree(tmpdir, ignore_errors=True)
        logging.disable(logging.NOTSET)
    stats['classes'] = len(stats['classes'])
    return {'fails': dedupe(fails), 'disagreements': dis, 'evaluations': stats['requests'] + stats.get('consumer_cases', 0), 'stats': stats,
            'broken': gen_broken}


def gen_answers(lines):
    """the same request lines put to the regenerated functions (driver `dispgen`); (answers | None, broken obligations)"""
    sel = [(i, l) for i, l in enumerate(lines) if l.split(' ')[1] in ('get', 'call', 'read', 'readraw', 'readchip', 'put')]
    try:
        d = Driver()
        for _, l in sel:
            d.ask('dispgen' + l[4:])
        out = d.run()
    except Infra as e:
        return None, ['Gen/Dispatch.lean (regenerated from base.py / data_segment.py) does not build or run: ' + str(e)[:300]]
    ans = {}
    for (i, _), a in zip(sel, out):
        ans[i] = a
    return ans, []


def compare_gen(gen, spec, log, impl):
    """three-way: regenerated function vs model (what the bridge theorems state) and vs the observed hand-over"""
    if gen == 'bad-op':
        return None
    head = spec.split(' | ')[0]
    if gen != head and not (gen.startswith('err') and head.startswith('err')):
        return 'bridge (Gen vs Spec)', f'regenerated function answers {gen}, model {head}'
    if log is not None:
        if gen.startswith('err'):
            # where inside the layer a refusal happens is not observable behaviour (a tuple range holding a non-integer is refused by the
            # model when the slice is built, by the code when the segment verifies it): only refused-vs-served is compared
            if impl[0] == 'ok':
                return 'translator (python vs Gen)', f'regenerated function refuses ({gen}), implementation handed {log[:1]} to a segment and returned data'
        elif log:
            _, k, raw, sq, sub = gen.split(' ')
            want = (int(k), 'read_raw' if raw == '1' else 'read', sub, sq == '1')
            if log[0][0] is not None and tuple(log[0]) != want:
                return 'translator (python vs Gen)', f'regenerated function hands {want} to the segment, implementation {log[0]}'
        elif impl[0] == 'ok':
            pass
    return None


def describe(req):
    if req is None:
        return 'reader'
    ep = req['ep']
    if ep == 'getS':
        return f'reader[{show_val(req["v"])}]'
    if ep == 'getT':
        return 'reader[' + ', '.join(show_val(v) for v in req['items']) + (',' if len(req['items']) < 2 else '') + ']'
    name = {'call': 'reader', 'read': 'reader.read', 'readraw': 'reader.read_raw', 'readchip': 'reader.read_chip'}.get(ep, ep)
    args = [show_val(v) for v in req.get('ranges', [])] + [f'index={req.get("index")}']
    if ep == 'call':
        args.append(f'raw={req["raw"]}')
    if 'squeeze' in req:
        args.append(f'squeeze={req["squeeze"]}')
    return f'{name}({", ".join(args)})'


def show_val(v):
    if v is None or isinstance(v, int):
        return repr(v)
    if v == 'E':
        return '...'
    if v == 'O':
        return '1.5'
    if v[0] == 's':
        return 'slice(%s, %s, %s)' % tuple(v[1:])
    if v[0] == 'm':
        return repr(v[1])
    return '(' + ', '.join(show_val(x) for x in v[1:]) + (',' if len(v) == 2 else '') + ')'


def dedupe(fails, per_class=3):
    """keep at most a few failures per (entry point, message head) so that one defect does not drown the report; data that came
    from / went to the wrong image first, refusals after"""
    def rank(f):
        m = f['msg']
        return 0 if ('pixels of image' in m or 'changed the stores' in m or 'does not return the pixels' in m or 'is not the image' in m
                     or 'does not hold' in m or 'does not produce' in m) else 1
    fails = sorted(fails, key=rank)
    seen = {}
    out = []
    for f in fails:
        key = ((f.get('req') or {}).get('ep'), f['msg'].split(':')[0][:40], f.get('key'))
        seen[key] = seen.get(key, 0) + 1
        if seen[key] <= per_class:
            out.append(f)
    return out


# ------------------------------------------------------------------ writes

def put_line(flags, req):
    st = start_tok(req['start']) if not isinstance(req['start'], list) else 't(' + ';'.join(map(str, req['start'])) + ')'
    sb = 'N' if req['sub'] is None else (','.join(tok(e) for e in req['sub']) if req['sub'] else '-')
    f = ''.join('1' if x else '0' for x in flags) or '-'
    if req['ep'] == 'call':
        return f'disp put {f} call {req["index"]} {int(req["raw"])} {st} {sb}'
    return f'disp put {f} {req["ep"]} {req["index"]} {st} {sb}'


def build_writer(desc):
    """BaseWriter over recording segments; returns (writer, stores, flags)"""
    from sarpy.io.general.base import BaseWriter
    from sarpy.io.general.format_function import SingleLUTFormatFunction
    RecSeg = rec_classes()['RecSeg']
    segs, stores, flags = [], [], []
    for i, im in enumerate(desc['images']):
        if im.get('lut'):
            store = numpy.full(tuple(im['raw']), 255, dtype='uint8')
            seg = RecSeg(store, formatted_dtype='uint8', formatted_shape=tuple(im['raw']),
                         format_function=SingleLUTFormatFunction(numpy.arange(256, dtype='uint8')[::-1].copy()), mode='w')
            seg._tag = i
            flags.append(False)
        else:
            store = numpy.full(tuple(im['raw']), -1, dtype='int64')
            seg, _, _ = _rec_segment(i, im, mode='w', store=store)
            flags.append(True)
        segs.append(seg)
        stores.append(store)
    return BaseWriter(segs), stores, flags


def rand_writer_desc(rng):
    ims = rand_images(rng, rng.choice([1, 2, 2, 3, 3, 4]))
    for im in ims:
        if rng.random() < 0.15:
            im['lut'] = True
            im['rev'], im['trans'] = None, None
    return {'kind': 'basewriter', 'images': ims}


def rand_put(rng, desc, flags):
    count = len(desc['images'])
    target = rng.randrange(count)
    im = desc['images'][target]
    raw = rng.random() < (0.85 if im.get('lut') else 0.4)
    shape = im['raw'] if raw else fmt_shape(im)
    r = rng.random()
    region = []
    if r < 0.45:
        for n in shape:
            a = rng.randrange(n)
            region.append([a, rng.randint(a + 1, n), 1])
        start = [x[0] for x in region]
        while len(start) > 1 and start[-1] == 0 and rng.random() < 0.5:
            start.pop()
        start = start[0] if len(start) == 1 and rng.random() < 0.5 else start
        sub = None
    elif r < 0.9:
        region = [list(segtree.rand_norm_slice(rng, n, steps=(1, 1, 2, -1))) for n in shape]
        start = None
        sub = [['s'] + x for x in region]
    else:
        region = [[0, n, 1] for n in shape]
        start, sub = None, None
    ep = rng.choice(['call', 'call', 'writeraw'] if raw else ['call', 'write', 'writechip'])
    index = rand_index(rng, count, target)
    return {'ep': ep, 'index': index, 'raw': raw, 'start': start, 'sub': sub, 'region': region, 'how': rng.choice(['kw', 'min', 'pos']),
            'basis': 'raw' if raw else 'fmt', 'target': target}


def chunk_for(req, serial, dtype):
    shape = tuple(len(range(*slice(*x).indices(10 ** 6))) for x in req['region'])
    n = int(numpy.prod(shape))
    if numpy.dtype(dtype).kind == 'u':
        return ((numpy.arange(n) + serial * 7) % 200).astype(dtype).reshape(shape)
    if numpy.dtype(dtype).kind == 'f':
        return ((numpy.arange(n) + serial * 7) % 200).astype(dtype).reshape(shape)
    return (numpy.arange(n) + serial * 1000 + 500000).astype(dtype).reshape(shape)


def do_put(writer, req, data):
    start = tuple(req['start']) if isinstance(req['start'], list) else req['start']
    sub = None if req['sub'] is None else tuple(to_py(e) for e in req['sub'])
    ep, idx = req['ep'], req['index']
    _REC['log'] = []
    try:
        # 'min': only the arguments that differ from the documented defaults (None / None / 0 / False) are passed, so the defaults themselves are exercised
        kw_min = {k: v for k, v in (('start_indices', start), ('subscript', sub)) if v is not None}
        if idx != 0:
            kw_min['index'] = idx
        if ep == 'call':
            if req['how'] == 'pos':
                writer(data, start, sub, idx, req['raw'])
            elif req['how'] == 'min':
                if req['raw']:
                    kw_min['raw'] = True
                writer(data, **kw_min)
            else:
                writer(data, start_indices=start, subscript=sub, index=idx, raw=req['raw'])
        else:
            f = {'write': writer.write, 'writeraw': writer.write_raw, 'writechip': writer.write_chip}[ep]
            if req['how'] == 'pos':
                f(data, start, sub, idx)
            elif req['how'] == 'min':
                f(data, **kw_min)
            else:
                f(data, start_indices=start, subscript=sub, index=idx)
        return ('ok', ), _REC['log']
    except Exception as e:
        return ('err', type(e).__name__, str(e)[:120]), _REC['log']
    finally:
        _REC['log'] = None


def describe_put(req):
    name = {'call': 'writer', 'write': 'writer.write', 'writeraw': 'writer.write_raw', 'writechip': 'writer.write_chip'}[req['ep']]
    sub = None if req['sub'] is None else '(' + ', '.join(show_val(e) for e in req['sub']) + ')'
    return f'{name}(data, start_indices={req["start"]}, subscript={sub}, index={req["index"]}' + (f', raw={req["raw"]})' if req['ep'] == 'call' else ')') + \
        (' [arguments at their defaults omitted]' if req.get('how') == 'min' else '')


def run_writes(chk, tier):
    rng = chk.rng
    logging.disable(logging.CRITICAL)
    fails, dis, stats = [], [], {'puts': 0, 'file_histories': 0, 'classes': set()}
    drv = Driver()
    work = []
    for _ in range(25 if tier == 'quick' else 300):
        desc = rand_writer_desc(rng)
        w, stores, flags = build_writer(desc)
        reqs = [rand_put(rng, desc, flags) for _ in range(14 if tier == 'quick' else 30)]
        work.append((desc, w, stores, flags, reqs, [drv.ask(put_line(flags, r)) for r in reqs]))
    ans = drv.run()
    gen_ans, gen_broken = gen_answers(drv.lines)
    for desc, w, stores, flags, reqs, idx in work:
        count = len(stores)
        for serial, (req, i) in enumerate(zip(reqs, idx)):
            stats['puts'] += 1
            im = desc['images'][req['target']]
            dtype = stores[req['target']].dtype if req['raw'] else ('uint8' if im.get('lut') else 'int64')
            data = chunk_for(req, serial, dtype)
            before = [s.copy() for s in stores]
            impl, log = do_put(w, req, data)
            changed = [k for k in range(count) if not numpy.array_equal(before[k], stores[k])]
            case = {'kind': 'dispatch-write', 'subject': desc, 'req': req}
            model = ans[i]
            if model == 'bad-op':
                raise Infra('model driver cannot parse: ' + put_line(flags, req))
            stats['classes'].add((req['ep'], req['how'], model.split(' ')[0], impl[0], req['raw'], req['index'] < 0, count > 1))
            if gen_ans is not None and gen_ans[i] != model and not (gen_ans[i].startswith('err') and model.startswith('err')):
                dis.append(dict(case, tie='bridge (Gen vs Spec)', msg=f'regenerated function answers {gen_ans[i]}, model {model}'))
            if gen_ans is not None and not gen_ans[i].startswith('err') and log:
                _, gk, graw, gstart, gsub = gen_ans[i].split(' ')
                if tuple(log[0]) != (int(gk), 'write_raw' if graw == '1' else 'write', gstart, gsub, []):
                    dis.append(dict(case, tie='translator (python vs Gen)', msg=f'regenerated function answers {gen_ans[i]}, implementation handed {log[:1]}'))
            if model.startswith('err'):
                if impl[0] == 'ok' or changed:
                    dis.append(dict(case, tie='model (Spec.Dispatch vs BaseWriter)', msg=f'model refuses ({model}); implementation {impl[0]}, segments changed {changed}'))
            else:
                _, k, mraw, mstart, msub = model.split(' ')
                k, mraw = int(k), mraw == '1'
                want = (k, 'write_raw' if mraw else 'write', mstart, msub, [])
                if not log or tuple(log[0]) != want:
                    dis.append(dict(case, tie='model (Spec.Dispatch vs BaseWriter)', msg=f'model hands {want} to the segments; implementation handed {log[:1]}'))
            # oracle: the chunk lands in segment `index` (documented: "the data_segment index"), in the basis the entry point names
            idx_ = req['index']
            if 0 <= idx_ < count:
                k = idx_
                kim = desc['images'][k]
                basis_shape = kim['raw'] if req['raw'] else fmt_shape(kim)
                kdtype = stores[k].dtype if req['raw'] else numpy.dtype('uint8' if kim.get('lut') else 'int64')
                fits = kdtype == data.dtype and len(basis_shape) == len(req['region']) and all(
                    (x[1] if x[1] is not None else -1) <= n and x[0] < n for x, n in zip(req['region'], basis_shape))
                if req['start'] is None and req['sub'] is None:
                    # without an address only a chunk of the whole image is defined
                    fits = fits and [len(range(*slice(*x).indices(n))) for x, n in zip(req['region'], basis_shape)] == list(basis_shape)
                if not req['raw'] and kim.get('lut'):
                    if impl[0] == 'ok' or changed:
                        fails.append(dict(case, msg=describe_put(req) + ': formatted write into a segment without inverse format was not refused'))
                elif fits:
                    exp = before[k].copy()
                    view = exp if req['raw'] else segtree.orient(exp, kim.get('rev'), kim.get('trans'))
                    view[tuple(slice(*x) for x in req['region'])] = data
                    if impl[0] == 'err':
                        fails.append(dict(case, msg=describe_put(req) + f': a chunk that fits image {k} was refused: {impl[1]}: {impl[2]}'))
                    elif changed != [k] and not (changed == [] and numpy.array_equal(exp, before[k])):
                        fails.append(dict(case, msg=describe_put(req) + f': the chunk for image {k} changed the stores of segment(s) {changed}'))
                    elif not numpy.array_equal(stores[k], exp):
                        fails.append(dict(case, msg=describe_put(req) + f': segment {k} does not hold the chunk at the addressed {req["basis"]} positions'))
            elif idx_ >= count or idx_ < -count:
                if impl[0] == 'ok' or changed:
                    fails.append(dict(case, msg=describe_put(req) + f': index names no segment of {count}, yet segment(s) {changed} changed'))
            if impl[0] == 'err' and changed:
                fails.append(dict(case, msg=describe_put(req) + f': refused ({impl[1]}) but segment(s) {changed} changed'))
        try:
            w.close()
        except Exception:
            pass
    # real file writers with several images: every chunk through a random entry point, interleaved across images
    tmpdir = tempfile.mkdtemp(prefix='dispw_', dir=os.environ.get('VERIF_SCRATCH', '/var/tmp'))
    try:
        for t in range(6 if tier == 'quick' else 60):
            kind = 'sidd' if t % 2 == 0 else 'nitf'
            desc = rand_subject_desc(rng, kind)
            desc.pop('rev', None)
            desc.pop('trans', None)
            desc['name'] = f'dispw_{t}.nitf'
            file_history(rng, desc, tmpdir, fails, stats)
    finally:
        shutil.rmtree(tmpdir, ignore_errors=True)
        logging.disable(logging.NOTSET)
    stats['classes'] = len(stats['classes'])
    return {'fails': dedupe(fails), 'disagreements': dis, 'evaluations': stats['puts'] + stats['file_histories'], 'stats': stats,
            'broken': gen_broken}


def file_history(rng, desc, tmpdir, fails, stats):
    """SIDDWriter / NITFWriter with several images: row-band chunks of every image through write / write_chip / write_raw / __call__,
    by keyword or position, interleaved; after close each image of the reopened file must be the image that was handed over"""
    import sargen
    steps = []
    for i, im in enumerate(desc['images']):
        for a, b in sargen.row_chunks(rng, im['raw'][0], max_chunks=3):
            steps.append({'image': i, 'rows': [a, b], 'ep': rng.choice(['write', 'writechip', 'writeraw', 'call0', 'call1']),
                          'how': rng.choice(['kw', 'min', 'pos']), 'addr': rng.choice(['start', 'sub'])})
    rng.shuffle(steps)
    stats['file_histories'] += 1
    run_file_history(desc, steps, tmpdir, fails)


def run_file_history(desc, steps, tmpdir, fails):
    import sargen
    from sarpy.io.general.nitf import NITFWriter, NITFReader
    from sarpy.io.product.sidd import SIDDWriter, SIDDWritingDetails
    from sarpy.io.product.converter import open_product
    images = desc['images']
    path = os.path.join(tmpdir, desc['name'])
    if os.path.exists(path):
        os.remove(path)
    if desc['kind'] == 'sidd':
        datas = [sidd_pixels(i, im['raw'][0], im['raw'][1], im['pixel_type']) for i, im in enumerate(images)]
        metas = [sargen.small_sidd(im['raw'][0], im['raw'][1], im['pixel_type'], version=desc.get('version')) for im in images]
        w = SIDDWriter(path, sidd_writing_details=SIDDWritingDetails(metas, None), check_existence=False)
    else:
        datas = [nitf_pixels(i, im) for i, im in enumerate(images)]
        w = NITFWriter(path, nitf_details(desc), check_existence=False)
    case = {'kind': 'dispatch-write', 'subject': desc, 'req': {'ep': 'file-history', 'steps': steps}}
    try:
        for st in steps:
            i, (a, b) = st['image'], st['rows']
            d = datas[i]
            raw = st['ep'] in ('writeraw', 'call1')
            chunk = d[a:b]
            if raw:
                chunk = chunk.astype(w.data_segment[i].raw_dtype)
            start = (a, ) + (0, ) * (d.ndim - 1) if st['addr'] == 'start' else None
            sub = None if st['addr'] == 'start' else (slice(a, b, 1), ) + tuple(slice(0, n, 1) for n in d.shape[1:])
            kw_min = {k: v for k, v in (('start_indices', start), ('subscript', sub)) if v is not None}
            if i != 0:
                kw_min['index'] = i
            if st['ep'] in ('call0', 'call1'):
                if st['how'] == 'pos':
                    w(chunk, start, sub, i, raw)
                elif st['how'] == 'min':
                    if raw:
                        kw_min['raw'] = True
                    w(chunk, **kw_min)
                else:
                    w(chunk, start_indices=start, subscript=sub, index=i, raw=raw)
            else:
                f = {'write': w.write, 'writechip': w.write_chip, 'writeraw': w.write_raw}[st['ep']]
                if st['how'] == 'pos':
                    f(chunk, start, sub, i)
                elif st['how'] == 'min':
                    f(chunk, **kw_min)
                else:
                    f(chunk, start_indices=start, subscript=sub, index=i)
        w.close()
    except Exception as e:
        fails.append(dict(case, msg=f'{desc["kind"]} writer with {len(images)} images: a chunk of a row partition was refused / close failed: {type(e).__name__}: {e}'))
        try:
            w.close()
        except Exception:
            pass
        return
    rd = open_product(path) if desc['kind'] == 'sidd' else NITFReader(path)
    try:
        for i, d in enumerate(datas):
            got = rd.read(index=i, squeeze=False)
            if got.shape != d.shape or not numpy.array_equal(got, d):
                bad = [s for s in steps if s['image'] == i]
                fails.append(dict(case, msg=f'{desc["kind"]} writer with {len(images)} images: image {i} of the written file is not the image handed over in chunks '
                                            f'(entry points used for it: {sorted({s["ep"] for s in bad})})'))
                break
    finally:
        rd.close()


# ------------------------------------------------------------------ replay

def replay_case(case):
    logging.disable(logging.CRITICAL)
    tmpdir = tempfile.mkdtemp(prefix='dispr_', dir='/var/tmp')
    try:
        if case['kind'] == 'dispatch-write':
            return replay_write(case, tmpdir)
        desc = dict(case['subject'], name='replay.nitf')
        try:
            subj = build_subject(desc, tmpdir)
        except Exception as e:
            print(f'building a {desc["kind"]} reader over {len(desc["images"])} images raised {type(e).__name__}: {e}')
            return 1
        try:
            req = case.get('req')
            if req is None:
                fails, dis = [], []
                drv = Driver()
                q = drv.ask(f'disp sizes {subj.tok}')
                check_sizes(subj, drv.run()[q], fails, dis)
                for f in fails:
                    print(f['msg'])
                return 1 if fails else 0
            if req['ep'] in ('subset', 'fetcher', 'fullres', 'ortho-iterator'):
                import random
                fails, jobs, stats = [], [], {}
                drv = Driver()
                consumer_checks(random.Random(0), subj, drv, jobs, fails, stats)
                for f in fails:
                    print(f['msg'])
                return 1 if fails else 0
            impl, _ = run_request(subj.reader, req)
            m, cls = oracle_check(subj, req, impl)
            print(describe(req), '->', impl[0], (tuple(impl[1].shape) if impl[0] == 'ok' else impl[1:]))
            print('oracle:', cls, m)
            return 1 if m else 0
        finally:
            subj.close()
    finally:
        shutil.rmtree(tmpdir, ignore_errors=True)
        logging.disable(logging.NOTSET)


def replay_write(case, tmpdir):
    desc, req = case['subject'], case['req']
    fails = []
    if req['ep'] == 'file-history':
        run_file_history(dict(desc, name='replay.nitf'), req['steps'], tmpdir, fails)
    else:
        w, stores, flags = build_writer(desc)
        im = desc['images'][req['target']]
        dtype = stores[req['target']].dtype if req['raw'] else ('uint8' if im.get('lut') else 'int64')
        data = chunk_for(req, 0, dtype)
        before = [s.copy() for s in stores]
        impl, log = do_put(w, req, data)
        changed = [k for k in range(len(stores)) if not numpy.array_equal(before[k], stores[k])]
        print(describe_put(req), '->', impl, 'segments changed:', changed, 'handed to the segment:', log[:1])
        k = req['index']
        if 0 <= k < len(stores) and changed not in ([k], []):
            fails.append({'msg': f'the chunk for image {k} changed segment(s) {changed}'})
        if impl[0] == 'err' and 0 <= k < len(stores) and not (not req['raw'] and desc['images'][k].get('lut')):
            fails.append({'msg': f'refused: {impl}'})
    for f in fails:
        print(f['msg'])
    return 1 if fails else 0
